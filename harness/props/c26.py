"""C26 — yield-flow linearization preserves behaviour.

Correspondence of every pass of ``aas_core_codegen.yielding.linear`` with ``Model.Yielding``
(stage by stage, canonical wire text), of the two Lean machines (``Flow.run``, ``runSub``,
``runFlat``) with two interpreters written here from the Python/C++ sources, and the direct
oracle of the property: the state machine which ``cpp/yielding.py`` emits for the subroutines
produces the same commands / condition evaluations / yields as the structured flow, for every
sequence of condition outcomes; subroutine labels are 0..k-1 and every jump target exists.

Flows are nested tuples:
``('c',n) ('y',) ('t',n,body) ('f',n,body) ('T',n,body,els) ('F',n,body,els)
('r',init|None,n,it,body) ('w',n,body)``; sequences are tuples of nodes.
"""
from __future__ import annotations

import concurrent.futures
import functools
import shutil
import subprocess
import time
from typing import Any, Callable, Dict, Iterator, List, Optional, Sequence, Tuple

from harness.core import Ctx, corpus, crash_name
from harness.props.c26_gen import gen_Yielding  # noqa: F401  (extractor of Gen/Yielding.lean, looked up by the runner)

ID = "C26"
GEN = ["Yielding"]

MAX_ORACLE = 6  # outcome sequences up to this length (decision tree of the structured run)
MAX_TRACES = 40  # per flow; sampled beyond that
STEP_CAP = 100000
STAGES = ["lin", "dropped", "compressed", "fixed", "subs"]
PATTERNS = ["TTTTTT", "FFFFFF", "TFTFTF", "FTFTFT"]

Flow = Tuple[Any, ...]


# --------------------------------------------------------------------------- wire: flows


def wire_seq(seq: Sequence[Any]) -> str:
    return "(" + ",".join(wire_node(n) for n in seq) + ")"


def wire_node(n: Any) -> str:
    k = n[0]
    if k == "c":
        return f"c{n[1]}"
    if k == "y":
        return "y"
    if k in ("t", "f"):
        return f"{k}({n[1]},{wire_seq(n[2])})"
    if k in ("T", "F"):
        return f"{k}({n[1]},{wire_seq(n[2])},{wire_seq(n[3])})"
    if k == "r":
        return f"r({'-' if n[1] is None else n[1]},{n[2]},{n[3]},{wire_seq(n[4])})"
    if k == "w":
        return f"w({n[1]},{wire_seq(n[2])})"
    raise ValueError(f"unknown node kind {k!r}")


class WireError(ValueError):
    pass


def parse_flow(text: str) -> Flow:
    """Parser of the flow wire form (the inverse of ``wire_seq``)."""
    s = text.strip()
    pos = 0

    def peek() -> str:
        return s[pos] if pos < len(s) else ""

    def expect(ch: str) -> None:
        nonlocal pos
        if peek() != ch:
            raise WireError(f"expected {ch!r} at {pos} in {s!r}")
        pos += 1

    def nat() -> int:
        nonlocal pos
        j = pos
        while j < len(s) and s[j].isdigit():
            j += 1
        if j == pos:
            raise WireError(f"expected a number at {pos} in {s!r}")
        v = int(s[pos:j])
        pos = j
        return v

    def seq() -> Flow:
        nonlocal pos
        expect("(")
        items: List[Any] = []
        if peek() == ")":
            pos += 1
            return ()
        while True:
            items.append(node())
            if peek() == ",":
                pos += 1
                continue
            expect(")")
            return tuple(items)

    def node() -> Any:
        nonlocal pos
        k = peek()
        if k == "y":
            pos += 1
            return ("y",)
        if k == "c":
            pos += 1
            return ("c", nat())
        if k in ("t", "f", "w"):
            pos += 1
            expect("(")
            c = nat()
            expect(",")
            b = seq()
            expect(")")
            return (k, c, b)
        if k in ("T", "F"):
            pos += 1
            expect("(")
            c = nat()
            expect(",")
            b = seq()
            expect(",")
            e = seq()
            expect(")")
            return (k, c, b, e)
        if k == "r":
            pos += 1
            expect("(")
            init: Optional[int]
            if peek() == "-":
                pos += 1
                init = None
            else:
                init = nat()
            expect(",")
            c = nat()
            expect(",")
            it = nat()
            expect(",")
            b = seq()
            expect(")")
            return ("r", init, c, it, b)
        raise WireError(f"unexpected {k!r} at {pos} in {s!r}")

    out = seq()
    if pos != len(s):
        raise WireError(f"trailing text at {pos} in {s!r}")
    return out


# --------------------------------------------------------------------------- real objects


@functools.lru_cache(maxsize=None)
def _mods() -> Tuple[Any, Any]:
    from aas_core_codegen.yielding import flow as F, linear as L  # the repo under test

    return F, L


def _plain(n: int) -> str:
    return f"c{n}"


def build_seq(seq: Sequence[Any], cmd: Callable[[int], str] = _plain, cond: Callable[[int], str] = _plain) -> List[Any]:
    return [build(n, cmd, cond) for n in seq]


def build(n: Any, cmd: Callable[[int], str] = _plain, cond: Callable[[int], str] = _plain) -> Any:
    F, _ = _mods()
    k = n[0]
    if k == "c":
        return F.Command(cmd(n[1]))
    if k == "y":
        return F.Yield()
    if k == "t":
        return F.IfTrue(cond(n[1]), build_seq(n[2], cmd, cond))
    if k == "f":
        return F.IfFalse(cond(n[1]), build_seq(n[2], cmd, cond))
    if k == "T":
        return F.IfTrue(cond(n[1]), build_seq(n[2], cmd, cond), build_seq(n[3], cmd, cond))
    if k == "F":
        return F.IfFalse(cond(n[1]), build_seq(n[2], cmd, cond), build_seq(n[3], cmd, cond))
    if k == "r":
        return F.For(
            cond(n[2]), cmd(n[3]), build_seq(n[4], cmd, cond), init=None if n[1] is None else cmd(n[1])
        )
    if k == "w":
        return F.While(cond(n[1]), build_seq(n[2], cmd, cond))
    raise ValueError(f"unknown node kind {k!r}")


# --------------------------------------------------------------------------- wire: linear code


def _o(x: Any) -> str:
    return "-" if x is None else str(x)


def _code(s: Any) -> str:
    s = str(s)
    return s[1:] if s.startswith("c") else "?" + s


def wstmt(s: Any) -> str:
    _, L = _mods()
    if isinstance(s, L.Command):
        op = f"c{_code(s.code)}"
    elif isinstance(s, L.If):
        op = f"i{_code(s.condition)}?{_o(s.on_true)}:{_o(s.on_false)}"
    elif isinstance(s, L.Jump):
        op = f"j{s.target}"
    elif isinstance(s, L.Yield):
        op = "y"
    elif isinstance(s, L.Noop):
        op = "n"
    else:
        op = "?" + type(s).__name__
    return f"{_o(s.label)}={op}"


def wstmts(ss: Sequence[Any]) -> str:
    return "[]" if len(ss) == 0 else ";".join(wstmt(s) for s in ss)


def wsubs(ss: Sequence[Any]) -> str:
    return "[]" if len(ss) == 0 else "|".join(wstmts(s) for s in ss)


def impl_stages(flow_objs: List[Any]) -> Tuple[List[str], Any]:
    """Wire text after each pass of the real code (``crash:<Type>`` from the first raising pass on),
    and the real result of ``linearize_to_subroutines`` (or its ``crash:<Type>``)."""
    _, L = _mods()
    out: List[str] = []
    crashed: Optional[str] = None
    st: Any = None

    def step(fn: Callable[[], Any]) -> None:
        nonlocal crashed, st
        if crashed is None:
            try:
                r = fn()
                out.append(r)
                return
            except KeyboardInterrupt:
                raise
            except BaseException as e:  # noqa
                crashed = crash_name(e)
        out.append(crashed)

    def s0() -> str:
        nonlocal st
        st = L._linearize_control_flow(flow_objs)
        return wstmts(st)

    def s1() -> str:
        L._remove_redundant_labels_in_place(st)
        return wstmts(st)

    def s2() -> str:
        nonlocal st
        st = L._remove_noops_in_place(st)
        return wstmts(st)

    def s3() -> str:
        L._fix_labels_in_place(st)
        return wstmts(st)

    for fn in (s0, s1, s2, s3):
        step(fn)
    subs: Any
    try:
        subs = L.linearize_to_subroutines(flow_objs)
        out.append(wsubs(subs))
    except KeyboardInterrupt:
        raise
    except BaseException as e:  # noqa
        subs = crash_name(e)
        out.append(subs)
    return out, subs


# --------------------------------------------------------------------------- interpreters


class _Exhausted(Exception):
    pass


def fmt(events: List[str], status: str) -> str:
    return ",".join(events) + "/" + status


def run_structured(flow_objs: Sequence[Any], outcomes: Sequence[bool]) -> Tuple[List[str], str]:
    """The structured semantics, straight from the property text, over the real node objects."""
    F, _ = _mods()
    ev: List[str] = []
    pos = 0

    def cond(text: Any) -> bool:
        nonlocal pos
        if pos >= len(outcomes):
            raise _Exhausted()
        b = outcomes[pos]
        pos += 1
        ev.append(f"?{_code(text)}{'T' if b else 'F'}")
        return b

    def seq(nodes: Sequence[Any]) -> None:
        for n in nodes:
            node(n)

    def node(n: Any) -> None:
        if isinstance(n, F.Command):
            ev.append("c" + _code(n.code))
        elif isinstance(n, F.Yield):
            ev.append("y")
        elif isinstance(n, F.IfTrue):
            if cond(n.condition):
                seq(n.body)
            elif n.or_else is not None:
                seq(n.or_else)
        elif isinstance(n, F.IfFalse):
            if not cond(n.condition):
                seq(n.body)
            elif n.or_else is not None:
                seq(n.or_else)
        elif isinstance(n, F.For):
            if n.init is not None:
                ev.append("c" + _code(n.init))
            while cond(n.condition):
                seq(n.body)
                ev.append("c" + _code(n.iteration))
        elif isinstance(n, F.While):
            while cond(n.condition):
                seq(n.body)
        else:
            raise TypeError(f"unknown node {type(n).__name__}")

    try:
        seq(flow_objs)
    except _Exhausted:
        return ev, "X"
    return ev, "E"


def run_state_machine(subs: Sequence[Sequence[Any]], outcomes: Sequence[bool]) -> Tuple[List[str], str]:
    """The C++ which ``cpp/yielding.py::generate_execute_body`` emits for ``subs``, interpreted:
    ``while (true) switch (state) { case L: {...} ... default: throw }`` with fall-through from a
    case block into the next one, resumed immediately after every ``return`` of a yield."""
    _, L = _mods()
    if len(subs) == 0:
        return [], "E"  # "// Intentionally empty."
    ev: List[str] = []
    pos = 0
    case_of: Dict[Any, int] = {}
    for i, sub in enumerate(subs):
        if len(sub) > 0:
            case_of.setdefault(sub[0].label, i)
    state: Any = 0  # `state_ = 0;` in Start() of the iterators in cpp/lib/_generate_iteration.py
    steps = 0
    seen: set = set()  # positions executed since the last consumed outcome (a repeat = spinning)
    while True:  # switch (state)
        if state not in case_of:
            return ev, "!invalidState"
        i, j = case_of[state], 0
        while True:
            if i >= len(subs):
                return ev, "!invalidState"  # fell through the last case into `default:`
            sub = subs[i]
            if j >= len(sub):
                i, j = i + 1, 0  # no `break`: falls through into the next case block
                continue
            steps += 1
            if steps > STEP_CAP or (i, j) in seen:
                return ev, "!outOfFuel"
            seen.add((i, j))
            s = sub[j]
            if isinstance(s, L.Command):
                ev.append("c" + _code(s.code))
                if j == len(sub) - 1 and i == len(subs) - 1:
                    return ev, "E"  # "invalidate the state ... return;"
                j += 1
            elif isinstance(s, L.If):
                if s.on_true is None and s.on_false is None:
                    return ev, "!noTarget"  # AssertionError in the generator
                if pos >= len(outcomes):
                    return ev, "X"
                b = outcomes[pos]
                pos += 1
                seen = set()
                ev.append(f"?{_code(s.condition)}{'T' if b else 'F'}")
                if s.on_true is not None and s.on_false is not None:
                    state = s.on_true if b else s.on_false
                    break
                if s.on_true is not None:
                    if b:
                        state = s.on_true
                        break
                    j += 1
                else:
                    if not b:
                        state = s.on_false
                        break
                    j += 1
            elif isinstance(s, L.Jump):
                state = s.target
                break
            elif isinstance(s, L.Yield):
                ev.append("y")
                if i + 1 < len(subs):
                    nxt = subs[i + 1]
                    state = nxt[0].label if len(nxt) > 0 else None
                else:
                    first = sub[0].label
                    state = None if first is None else first + 1
                break  # return; the caller calls Execute() again
            elif isinstance(s, L.Noop):
                j += 1
            else:
                raise TypeError(f"unknown statement {type(s).__name__}")


# --------------------------------------------------------------------------- oracle


def last_kind(flow: Flow) -> str:
    if len(flow) == 0:
        return "empty"
    k = flow[-1][0]
    return {"c": "cmd", "y": "yield", "t": "if", "f": "if", "T": "ifelse", "F": "ifelse", "r": "for", "w": "while"}[k]


def judge_structure(flow: Flow, stages: List[str], subs: Any) -> List[Tuple[str, str]]:
    """Clauses (c) labels, (d) targets, (e) nothing raised. Returns [(sig, what)]."""
    _, L = _mods()
    tag = "last=" + last_kind(flow)
    if isinstance(subs, str):
        where = "linearize_to_subroutines"
        for name, s in zip(STAGES[:4], stages[:4]):
            if s.startswith("crash:"):
                where = name
                break
        return [(f"C26:{subs}:{where}:{tag}", f"linearize_to_subroutines raised {subs} (first raising pass: {where})")]
    bad: List[Tuple[str, str]] = []
    if len(flow) > 0 and len(subs) == 0:
        bad.append((f"C26:labels:none:{tag}", "non-empty flow gave no subroutine"))
    firsts = set()
    for k, sub in enumerate(subs):
        if len(sub) == 0:
            bad.append((f"C26:labels:empty:{tag}", f"subroutine {k} is empty"))
            continue
        firsts.add(sub[0].label)
        if sub[0].label != k:
            bad.append((f"C26:labels:first:{tag}", f"subroutine {k} starts with label {sub[0].label!r}, expected {k}"))
        if any(s.label is not None for s in list(sub)[1:]):
            bad.append((f"C26:labels:inner:{tag}", f"subroutine {k} has a label after its first statement"))
    for k, sub in enumerate(subs):
        for s in sub:
            if isinstance(s, L.Jump):
                ts = [("jump", s.target)]
            elif isinstance(s, L.If):
                ts = [("if", t) for t in (s.on_true, s.on_false) if t is not None]
                if not ts:
                    bad.append((f"C26:targets:if-none:{tag}", f"If without on_true/on_false in subroutine {k}"))
            else:
                ts = []
            for what, t in ts:
                if t not in firsts:
                    bad.append((f"C26:targets:{what}:{tag}", f"{what} target {t!r} in subroutine {k} is no subroutine label"))
    # one entry per sig is enough
    uniq: Dict[str, str] = {}
    for sig, what in bad:
        uniq.setdefault(sig, what)
    return list(uniq.items())


def _first_diff(a: List[str], b: List[str]) -> str:
    for x, y in zip(a, b):
        if x != y:
            return "cmd" if x[0] == "c" else "cond" if x[0] == "?" else "yield"
    return "missing" if len(b) < len(a) else "extra"


def judge_trace(flow: Flow, want: Tuple[List[str], str], got: Tuple[List[str], str]) -> List[Tuple[str, str]]:
    """Clauses (a) events, (b) status for one outcome sequence: want = structured, got = machine."""
    kind = last_kind(flow)
    tag = "last=" + kind
    bad: List[Tuple[str, str]] = []
    if want[0] != got[0]:
        bad.append(
            (
                f"C26:events:{_first_diff(want[0], got[0])}:{tag}",
                f"state machine gives {fmt(*got)} but the structured flow gives {fmt(*want)}",
            )
        )
    ok = want[1] == got[1] or (want[1] == "E" and got[1] == "!invalidState" and kind not in ("cmd", "empty"))
    if not ok:
        bad.append(
            (
                f"C26:status:{want[1]}->{got[1]}:{tag}",
                f"state machine ends with {got[1]} ({fmt(*got)}) where the structured flow ends with {want[1]}",
            )
        )
    return bad


# --------------------------------------------------------------------------- outcome sequences


def explore(flow_objs: Sequence[Any]) -> Dict[str, Tuple[List[str], str]]:
    """Decision tree of the structured run: a prefix is extended only while the run on it is
    exhausted (longer sequences than the run consumes are redundant)."""
    res: Dict[str, Tuple[List[str], str]] = {}
    frontier = [""]
    while frontier:
        nxt: List[str] = []
        for o in frontier:
            r = run_structured(flow_objs, [c == "T" for c in o])
            res[o] = r
            if r[1] == "X" and len(o) < MAX_ORACLE:
                nxt.append(o + "T")
                nxt.append(o + "F")
        frontier = nxt
    return res


def choose_oracles(ctx: Ctx, tree: Dict[str, Tuple[List[str], str]], cap: int = MAX_TRACES) -> List[str]:
    """The empty sequence, the leaves along all-T / all-F / alternating outcomes, then the rest
    (all of it, or a seeded sample when the tree has more than ``cap`` nodes)."""
    must = [""]
    for p in PATTERNS:
        k = len(p)
        while p[:k] not in tree:
            k -= 1
        if p[:k] not in must:
            must.append(p[:k])
    rest = [o for o in tree if o not in must]
    if len(must) + len(rest) <= cap:
        return must + rest
    return must + ctx.rng.sample(rest, cap - len(must))


# --------------------------------------------------------------------------- generators


# Node kinds: c, y | one child sequence: t f (IfTrue/IfFalse without or_else), r R (For without/with init), w |
# two child sequences: T F (with or_else). "full" = all of them; "slim" = without the duplicated polarity / init
# variants (f, F, R), used below the top level of the 5-node flows.
_KINDS1 = {True: ("t", "f", "r", "R", "w"), False: ("t", "r", "w")}
_KINDS2 = {True: ("T", "F"), False: ("T",)}


@functools.lru_cache(maxsize=None)
def _shapes_seq_memo(n: int, here: bool, below: bool) -> Tuple[Any, ...]:
    return tuple(_gen_seq(n, here, below))


@functools.lru_cache(maxsize=None)
def _shapes_node_memo(n: int, here: bool, below: bool) -> Tuple[Any, ...]:
    return tuple(_gen_node(n, here, below))


def shapes_seq(n: int, here: bool = True, below: bool = True) -> Iterator[Any]:
    """All sequences with exactly n nodes (every node at every depth counts); ``here`` / ``below``:
    full set of node kinds at this level / at the deeper levels."""
    return iter(_shapes_seq_memo(n, here, below)) if n <= 4 else _gen_seq(n, here, below)


def shapes_node(n: int, here: bool = True, below: bool = True) -> Iterator[Any]:
    return iter(_shapes_node_memo(n, here, below)) if n <= 4 else _gen_node(n, here, below)


def _gen_seq(n: int, here: bool, below: bool) -> Iterator[Any]:
    if n == 0:
        yield ()
        return
    for k in range(1, n + 1):
        for head in shapes_node(k, here, below):
            for rest in shapes_seq(n - k, here, below):
                yield (head,) + rest


def _gen_node(n: int, here: bool, below: bool) -> Iterator[Any]:
    if n < 1:
        return
    if n == 1:
        yield ("c",)
        yield ("y",)
    m = n - 1
    for kind in _KINDS1[here]:
        if kind in ("t", "f") and m == 0:
            continue  # @require: If bodies are not empty
        for body in shapes_seq(m, below, below):
            yield (kind, body)
    for kind in _KINDS2[here]:
        for a in range(1, m + 1):
            for body in shapes_seq(a, below, below):
                for els in shapes_seq(m - a, below, below):
                    yield (kind, body, els)


def count_flows(n: int, here: bool = True, below: bool = True) -> int:
    """Number of flows with exactly n nodes (closed recurrence, independent of the enumeration)."""

    def table(full: bool, child: Optional[List[int]]) -> List[int]:
        loops = 3 if full else 2  # r, R, w | r, w
        ifs = 2 if full else 1
        S = [1]
        N = [0]
        for m in range(1, n + 1):
            k = m - 1
            C = child if child is not None else S  # sequences allowed as children
            v = (2 if m == 1 else 0) + loops * C[k] + (ifs * C[k] if k >= 1 else 0)
            v += ifs * sum(C[a] * C[k - a] for a in range(1, k + 1))
            N.append(v)
            S.append(sum(N[j] * S[m - j] for j in range(1, m + 1)))
        return S

    if here == below:
        return table(here, None)[n]
    return table(here, table(below, None))[n]


def number(seq: Any) -> Flow:
    """Shape -> flow with codes 1,2,3,... in pre-order (codes are opaque to the code under test)."""
    cnt = 0

    def fresh() -> int:
        nonlocal cnt
        cnt += 1
        return cnt

    def nseq(s: Any) -> Flow:
        return tuple(nnode(x) for x in s)

    def nnode(x: Any) -> Any:
        k = x[0]
        if k == "c":
            return ("c", fresh())
        if k == "y":
            return ("y",)
        if k in ("t", "f", "w"):
            c = fresh()
            return (k, c, nseq(x[1]))
        if k in ("T", "F"):
            c = fresh()
            b = nseq(x[1])
            return (k, c, b, nseq(x[2]))
        if k in ("r", "R"):
            init = fresh() if k == "R" else None
            c = fresh()
            it = fresh()
            return ("r", init, c, it, nseq(x[1]))
        raise ValueError(k)

    return nseq(seq)


def random_shape(rng: Any, size: int, depth: int = 4) -> Any:
    bud = [size]

    def node(d: int) -> Any:
        bud[0] -= 1
        if d <= 0 or rng.random() < 0.4:
            return (rng.choice("cy"),)
        kinds = ["r", "R", "w"]
        if bud[0] >= 1:
            kinds += ["t", "f", "T", "F", "t", "T"]
        k = rng.choice(kinds)
        if k in ("t", "f"):
            return (k, seq(d - 1, 1))
        if k in ("T", "F"):
            return (k, seq(d - 1, 1), seq(d - 1, 0))
        return (k, seq(d - 1, 0))

    def seq(d: int, lo: int) -> Any:
        want = rng.randint(lo, 3)
        out = []
        while len(out) < want and bud[0] > 0:
            out.append(node(d))
        return tuple(out)

    top = []
    while bud[0] > 0:
        top.append(node(depth))
    return tuple(top)


def enum_plan(ctx: Ctx) -> List[Tuple[int, bool]]:
    """(size, all kinds below the top level?) — all flows of <= 4 nodes; thorough: also the 5-node flows
    whose nested nodes avoid the duplicated variants IfFalse / For-with-init (all kinds at the top level)."""
    plan = [(n, True) for n in range(5)]
    if ctx.tier != "quick":
        plan.append((5, False))
    return plan


def inputs(ctx: Ctx) -> Iterator[Tuple[Flow, str, List[str]]]:
    for c in corpus(ID):
        yield parse_flow(c["flow"]), "corpus", list(c.get("oracles", []))
    for n, below in enum_plan(ctx):
        for sh in shapes_seq(n, True, below):
            yield number(sh), f"enumerated-{n}" + ("" if below else "-slim"), []
    for _ in range(ctx.n(2000, 40000)):
        size = ctx.rng.randint(5, 14)
        sh = random_shape(ctx.rng, size)
        if ctx.rng.random() < 0.4:
            sh = sh + (("c",),)  # the shape of the production flows: they end with a command
        yield number(sh), "random", []


# --------------------------------------------------------------------------- features (coverage)


def features(flow: Flow) -> List[str]:
    out = set()

    def walk(seq: Flow, depth: int, in_loop: bool) -> None:
        for n in seq:
            k = n[0]
            if k in ("t", "f", "T", "F"):
                out.add("has-condition")
                out.add({"t": "if-true", "f": "if-false", "T": "if-true-else", "F": "if-false-else"}[k])
                if k in ("T", "F") and len(n[3]) == 0:
                    out.add("empty-or_else")
                walk(n[2], depth + 1, in_loop)
                if k in ("T", "F"):
                    walk(n[3], depth + 1, in_loop)
                if n[2] and n[2][-1][0] not in ("c", "y"):
                    out.add("body-ends-with-block")
            elif k == "r":
                out.add("has-condition")
                out.add("for-with-init" if n[1] is not None else "for-without-init")
                if len(n[4]) == 0:
                    out.add("empty-for-body")
                if in_loop:
                    out.add("nested-loop")
                walk(n[4], depth + 1, True)
            elif k == "w":
                out.add("has-condition")
                if len(n[2]) == 0:
                    out.add("empty-while-body")
                if in_loop:
                    out.add("nested-loop")
                walk(n[2], depth + 1, True)
            elif k == "y":
                out.add("has-yield")
                if in_loop:
                    out.add("yield-in-loop")
            if depth >= 3:
                out.add("depth>=3")

    walk(flow, 0, False)
    if len(flow) == 0:
        out.add("empty-flow")
    else:
        if flow[0][0] == "y":
            out.add("yield-first")
        if flow[-1][0] == "y":
            out.add("yield-last")
        if flow[-1][0] == "c":
            out.add("ends-with-command")
        for a, b in zip(flow, flow[1:]):
            if a[0] == "y" and b[0] == "y":
                out.add("yield-yield")
    out.add("last=" + last_kind(flow))
    return sorted(out)


def trailing_noops(stage: str) -> int:
    """Length of the block of labelled no-ops which ends a statement list (wire text)."""
    k = 0
    for st in reversed(stage.split(";")):
        if st.endswith("=n") and not st.startswith("-"):
            k += 1
        else:
            break
    return k


ALL_FEATURES = [
    "has-condition", "if-true", "if-false", "if-true-else", "if-false-else", "empty-or_else", "body-ends-with-block",
    "for-with-init", "for-without-init", "empty-for-body", "empty-while-body", "nested-loop", "has-yield",
    "yield-in-loop", "depth>=3", "empty-flow", "yield-first", "yield-last", "ends-with-command", "trailing-noop",
    "trailing-noop-block", "yield-yield",
]  # fmt: skip


# --------------------------------------------------------------------------- the pass


class Case:
    __slots__ = ("flow", "wire", "stream", "stages", "subs", "oracles", "want", "got", "off", "nflat")

    def __init__(self, flow: Flow, stream: str) -> None:
        self.flow = flow
        self.wire = wire_seq(flow)
        self.stream = stream
        self.stages: List[str] = []
        self.subs: Any = None
        self.oracles: List[str] = []
        self.want: List[Tuple[List[str], str]] = []
        self.got: List[Any] = []
        self.off = 0
        self.nflat = 0  # the first nflat outcome sequences are also run on the four flat stages of the model


def budgets(ctx: Ctx, stream: str) -> Tuple[int, int]:
    """(outcome sequences per flow, how many of them also go through runflat 0..3)."""
    if stream == "replay":
        return 10**6, 10**6
    if ctx.tier == "quick" or stream.startswith("enumerated-5"):
        return 16, 4
    return MAX_TRACES, 8


def evaluate(ctx: Ctx, flow: Flow, stream: str, given: Sequence[str], record: bool = True) -> Tuple[Case, List[Dict[str, Any]]]:
    """Implementation side + direct oracle on one flow. Returns the case and its failures."""
    case = Case(flow, stream)
    failures: List[Dict[str, Any]] = []
    objs = build_seq(flow)
    case.stages, case.subs = impl_stages(objs)
    for sig, what in judge_structure(flow, case.stages, case.subs):
        failures.append({"input": {"flow": case.wire, "oracles": []}, "what": what, "sig": sig})
    tree = explore(objs)
    cap, case.nflat = budgets(ctx, stream)
    case.oracles = choose_oracles(ctx, tree, cap)
    for o in given:
        if o not in tree:
            tree[o] = run_structured(objs, [c == "T" for c in o])
        if o not in case.oracles:
            case.oracles.append(o)
    for o in case.oracles:
        want = tree[o]
        case.want.append(want)
        if isinstance(case.subs, str):
            case.got.append(case.subs)
            continue
        try:
            got = run_state_machine(case.subs, [c == "T" for c in o])
        except KeyboardInterrupt:
            raise
        except BaseException as e:  # noqa  (malformed statements from a broken pass)
            got = (["<interpreter:" + type(e).__name__ + ">"], "!invalidState")
        case.got.append(got)
        if record:
            ctx.hit(f"trace:{want[1]}/{got[1]}")
        for sig, what in judge_trace(flow, want, got):
            failures.append({"input": {"flow": case.wire, "oracles": [o]}, "what": what, "sig": sig})
    return case, failures


def _lines(cases: List[Case]) -> List[str]:
    lines: List[str] = []
    for c in cases:
        c.off = len(lines)
        lines.append("stages " + c.wire)
        for n, o in enumerate(c.oracles):
            ow = o or "-"
            lines.append(f"run {c.wire} {ow}")
            lines.append(f"runsub {c.wire} {ow}")
            if n < c.nflat:
                for k in range(4):
                    lines.append(f"runflat {k} {c.wire} {ow}")
    return lines


def _nlines(c: Case) -> int:
    return 1 + 2 * len(c.oracles) + 4 * min(c.nflat, len(c.oracles))


def _compare(ctx: Ctx, cases: List[Case], outs: List[str]) -> None:
    for c in cases:
        i = c.off
        m = outs[i]
        i += 1
        if m != "#".join(c.stages):
            parts = m.split("#")
            if len(parts) != len(STAGES):
                ctx.disagree("stage:all", {"flow": c.wire}, c.stages, m)
            else:
                for name, a, b in zip(STAGES, c.stages, parts):
                    if a != b:
                        ctx.disagree("stage:" + name, {"flow": c.wire}, a, b)
        ctx.traces_validated += 1
        for n, (o, want, got) in enumerate(zip(c.oracles, c.want, c.got)):
            w = fmt(*want)
            inp = {"flow": c.wire, "oracles": [o]}
            if outs[i] != w:
                ctx.disagree("run", inp, w, outs[i])
            g = got if isinstance(got, str) else fmt(*got)
            if outs[i + 1] != g:
                ctx.disagree("runsub", inp, g, outs[i + 1])
            i += 2
            if n < c.nflat:
                for k in range(4):
                    if outs[i + k] != w:
                        ctx.disagree(f"runflat{k}", inp, w, outs[i + k])
                i += 4
            ctx.traces_validated += 1


class _Batches:
    """Driver calls overlap with the implementation side (one driver process per batch)."""

    def __init__(self, ctx: Ctx, workers: int = 3) -> None:
        self.ctx = ctx
        self.pool = concurrent.futures.ThreadPoolExecutor(max_workers=workers)
        self.workers = workers
        self.inflight: List[Tuple[Any, List[Case]]] = []

    def submit(self, cases: List[Case]) -> None:
        self.inflight.append((self.pool.submit(self.ctx.model, _lines(cases)), cases))
        while len(self.inflight) > self.workers:
            self._drain_one()

    def _drain_one(self) -> None:
        fut, cases = self.inflight.pop(0)
        _compare(self.ctx, cases, fut.result())

    def finish(self) -> None:
        try:
            while self.inflight:
                self._drain_one()
        finally:
            self.pool.shutdown(wait=True)


def _run(ctx: Ctx, with_model: bool) -> None:
    batches = _Batches(ctx) if with_model else None
    t0 = time.time()
    try:
        _run_inner(ctx, batches)
    finally:
        if batches is not None:
            batches.pool.shutdown(wait=True)
    ctx.extra_cov.setdefault("timing_s", {})["correspond+oracle" if with_model else "oracle-alone"] = round(time.time() - t0, 1)
    ctx.extra_cov["timing_s"]["since_start"] = round(time.time() - ctx.t0, 1)


def _run_inner(ctx: Ctx, batches: Optional[_Batches]) -> None:
    pending: List[Case] = []
    nlines = 0
    k = 0
    cpp_pick: List[Case] = []
    n_enum = sum(count_flows(n, True, below) for n, below in enum_plan(ctx))
    # sample for the compiled C++: the corpus, ~n_cpp_enum evenly spread enumerated flows, the first random ones
    n_cpp_enum, n_cpp_random = (30, 20) if ctx.tier == "quick" else (110, 90)
    stride = max(1, n_enum // n_cpp_enum)
    seen_enum = 0
    n_random = 0
    for f in ALL_FEATURES:
        ctx.hit(f, 0)
    for flow, stream, given in inputs(ctx):
        case, failures = evaluate(ctx, flow, stream, given)
        feats = features(flow)
        ctx.count(case.wire, nontrivial=("has-condition" in feats), stream=stream)
        for f in feats:
            ctx.hit(f)
        tn = trailing_noops(case.stages[1])  # after _remove_redundant_labels_in_place
        if tn >= 1:
            ctx.hit("trailing-noop")
        if tn >= 2:
            ctx.hit("trailing-noop-block")
        if k % 997 == 0:
            ctx.sample({"flow": case.wire, "subroutines": case.stages[-1], "oracles": case.oracles[:4]})
        k += 1
        for f in failures:
            ctx.fail(f["input"], f["what"], f["sig"])
        if not ctx.searching:
            if stream == "corpus":
                cpp_pick.append(case)
            elif stream.startswith("enumerated"):
                if seen_enum % stride == stride // 2:
                    cpp_pick.append(case)
                seen_enum += 1
            elif n_random < n_cpp_random:
                cpp_pick.append(case)
                n_random += 1
        if batches is not None:
            pending.append(case)
            nlines += _nlines(case)
            if nlines >= 100000:
                batches.submit(pending)
                pending, nlines = [], 0
    if batches is not None:
        if pending:
            batches.submit(pending)
        batches.finish()
    if cpp_pick:
        cpp_check(ctx, cpp_pick)


def correspond(ctx: Ctx) -> None:
    counts = {f"{n}" + ("" if below else "-slim"): count_flows(n, True, below) for n, below in enum_plan(ctx)}
    ctx.extra_cov["rule"] = (
        "flows = corpus + ALL structured flows with <= 4 nodes (every node at every depth counts; kinds c, y, IfTrue/IfFalse "
        "without or_else, IfTrue/IfFalse with or_else (possibly the empty list), For with/without init, While; If bodies "
        "non-empty; codes numbered in pre-order) + thorough: all 5-node flows whose nodes below the top level are not "
        "IfFalse / For-with-init (the duplicated polarity/init variants; all kinds at the top level); counts per size %s "
        "+ seeded random flows of 5..15 nodes, depth <= 4, 40%% of them ending with a command. "
        "For every flow: the outcome sequences of the decision tree of the structured run up to length %d (a prefix is "
        "extended only while the run on it is exhausted); at most %d per flow (16 in the quick tier and for 5-node flows), "
        "sampled beyond, always the empty one and the all-T / all-F / alternating leaves; the first 4 (8) of them also go "
        "through runflat 0..3 of the model. Evaluations count flows; "
        "non-trivial = the flow has at least one condition node (if/for/while); distinct by wire text. "
        "traces_validated = stage comparisons + (flow, outcome sequence) pairs compared with run/runsub(/runflat0..3) "
        "+ traces of the g++-compiled C++ which cpp/yielding.py emits for a sample of the flows (corpus + evenly spread "
        "enumerated + first random ones; about 65 flows quick, 215 thorough)."
        % (counts, MAX_ORACLE, MAX_TRACES)
    )
    ctx.extra_cov["enumerated_flow_counts"] = {str(k): v for k, v in counts.items()}
    _run(ctx, True)


def oracle(ctx: Ctx) -> None:
    # The oracle clauses are evaluated on every correspondence input in _run; when the driver is
    # not available (broken build) or while searching it runs alone.
    if not ctx.driver_ok or ctx.searching:
        _run(ctx, False)


def replay(ctx: Ctx, data: Dict[str, Any]) -> Any:
    inp = data["failure"]["input"] if "failure" in data else data
    wire = inp["flow"]
    given = list(inp.get("oracles", []))
    flow = parse_flow(wire)
    res: Dict[str, Any] = {"flow": wire_seq(flow)}
    try:
        case, failures = evaluate(ctx, flow, "replay", given, record=False)
    except KeyboardInterrupt:
        raise
    except BaseException as e:  # noqa  (e.g. @require of the If constructors)
        res["impl"] = crash_name(e)
        if ctx.driver_ok:
            res["model"] = {"wf": ctx.model([f"wf {wire}"])[0]}
        return res
    show_orcs = given if given else case.oracles
    res["impl"] = {"stages": dict(zip(STAGES, case.stages))}
    traces = {}
    for o, want, got in zip(case.oracles, case.want, case.got):
        if o in show_orcs:
            traces[o or "-"] = {"structured": fmt(*want), "machine": got if isinstance(got, str) else fmt(*got)}
    res["traces"] = traces
    res["oracle"] = [
        {"sig": f["sig"], "what": f["what"], "oracles": f["input"]["oracles"]}
        for f in failures
        if not f["input"]["oracles"] or f["input"]["oracles"][0] in show_orcs
    ]
    if shutil.which("g++") is not None:
        nf, nd = len(ctx.failures), len(ctx.disagreements)
        cpp_check(ctx, [case], only=show_orcs)
        res["cpp"] = {
            "compiled": ctx.extra_cov.get("cpp_compiled"),
            "oracle": [{"sig": f["sig"], "what": f["what"], "oracles": f["input"]["oracles"]} for f in ctx.failures[nf:]],
            "differs_from_interpreter": [{"oracles": d["input"]["oracles"], "cpp": d["impl"], "interpreter": d["model"]} for d in ctx.disagreements[nd:]],
        }
    if ctx.driver_ok:
        lines = ["stages " + case.wire, "wf " + case.wire]
        for o in show_orcs:
            ow = o or "-"
            lines += [f"run {case.wire} {ow}", f"runsub {case.wire} {ow}"] + [f"runflat {k} {case.wire} {ow}" for k in range(4)]
        outs = ctx.model(lines)
        parts = outs[0].split("#")
        model: Dict[str, Any] = {"stages": dict(zip(STAGES, parts)) if len(parts) == len(STAGES) else outs[0], "wf": outs[1], "traces": {}}
        for n, o in enumerate(show_orcs):
            b = 2 + 6 * n
            model["traces"][o or "-"] = {"run": outs[b], "runsub": outs[b + 1], "runflat": outs[b + 2 : b + 6]}
        res["model"] = model
    return res


# --------------------------------------------------------------------------- the real emitted C++ (thorough)

_CPP_PRELUDE = r"""
#include <cstdio>
#include <stdexcept>
#include <string>
namespace common {
inline void Append(std::string&) {}
template <class H, class... T> void Append(std::string& r, H h, T... t) { r += std::string(h); Append(r, t...); }
template <class... A> std::string Concat(A... a) { std::string r; Append(r, a...); return r; }
}
struct Exhausted {};
static unsigned state_ = 0;
static const char* orc_ = "";
static std::string log_;
static void EMIT(int n) { log_ += "c" + std::to_string(n) + ","; }
static bool COND(int n) {
  char ch = *orc_;
  if (ch == 0) throw Exhausted();
  ++orc_;
  log_ += "?" + std::to_string(n) + ch + ",";
  return ch == 'T';
}
"""

_CPP_JOB = "struct Job { void (*fn)(); const char* orc; int calls; };\n"

_CPP_MAIN = r"""
int main() {
  for (const Job& job : jobs) {
    state_ = 0; orc_ = job.orc; log_.clear();
    for (int k = 0; k < job.calls; ++k) {
      try { job.fn(); log_ += "|"; }
      catch (const std::logic_error&) { log_ += "L"; break; }
      catch (const Exhausted&) { log_ += "X"; break; }
    }
    std::printf("%s\n", log_.c_str());
  }
  return 0;
}
"""


def _cpp_expect(events: List[str], status: str, empty: bool) -> str:
    """Log of the C++ driver predicted from a trace: yields and clean returns are `|`."""
    s = "".join("|" if e == "y" else e + "," for e in events)
    if status == "E":
        return s + ("||" if empty else "|L")  # the call after the end finds the invalidated state
    return s + {"!invalidState": "L", "X": "X"}.get(status, "?")


def cpp_check(ctx: Ctx, cases: List[Case], only: Optional[Sequence[str]] = None) -> None:
    """Compile the C++ really emitted by ``cpp/yielding.py::generate_execute_body`` for a sample of
    flows and compare its behaviour with the interpreter of the subroutines and the structured run."""
    gxx = shutil.which("g++")
    if gxx is None:
        ctx.note("g++ not found: the emitted C++ was not compiled")
        return
    from aas_core_codegen.common import Identifier
    from aas_core_codegen.cpp import yielding as cpp_yielding

    funcs: List[str] = []
    compiled: List[Case] = []
    jobs: List[str] = []
    expect: List[Tuple[Case, str, str, List[str]]] = []  # case, oracle, predicted from machine, acceptable logs from structured
    for k, c in enumerate(cases):
        objs = build_seq(c.flow, cmd=lambda n: f"EMIT({n});", cond=lambda n: f"COND({n})")
        try:
            body = cpp_yielding.generate_execute_body(objs, Identifier("state_"))
        except KeyboardInterrupt:
            raise
        except BaseException as e:  # noqa
            ctx.fail({"flow": c.wire, "oracles": []}, f"generate_execute_body raised {crash_name(e)}",
                     f"C26:{crash_name(e)}:generate_execute_body:last={last_kind(c.flow)}")
            continue
        funcs.append(f"static void exec_{k}() {{\n{body}\n}}\n")
        compiled.append(c)
        if only is not None:
            picked = [i for i, o in enumerate(c.oracles) if o in only]
        else:
            picked = [i for i, w in enumerate(c.want) if w[1] != "X"][:6] + [i for i, w in enumerate(c.want) if w[1] == "X"][:2]
        for i in picked:
            got, want = c.got[i], c.want[i]
            if isinstance(got, str) or got[1] not in ("E", "X", "!invalidState"):
                continue
            calls = got[0].count("y") + 2
            jobs.append(f'{{exec_{k}, "{c.oracles[i]}", {calls}}},')
            kind = last_kind(c.flow)
            ws = want[1] if (want[1] != "E" or kind in ("cmd", "empty")) else "!invalidState"
            ok_logs = [_cpp_expect(want[0], ws, len(c.flow) == 0)]
            if ws != want[1]:
                # same leniency as clause (b): a clean return at the end instead of the throw keeps the property
                ok_logs.append(_cpp_expect(want[0], want[1], len(c.flow) == 0))
            expect.append((c, c.oracles[i], _cpp_expect(got[0], got[1], len(c.flow) == 0), ok_logs))
    if not jobs:
        return
    d = ctx.scratch()
    src = d / "c26_machines.cpp"
    src.write_text(
        _CPP_PRELUDE + "\n".join(funcs) + _CPP_JOB + "static const Job jobs[] = {\n" + "\n".join(jobs) + "\n};\n" + _CPP_MAIN
    )
    exe = d / "c26_machines"
    cmd = [gxx, "-std=c++11", "-O0", "-w"]
    proc = subprocess.run(cmd + ["-o", str(exe), str(src)], stdout=subprocess.PIPE, stderr=subprocess.STDOUT, timeout=900)
    if proc.returncode != 0:
        culprit, log = cases[0], proc.stdout.decode(errors="replace")
        one = d / "c26_one.cpp"
        for c, fn in zip(compiled, funcs):  # find the first flow whose body does not compile
            one.write_text(_CPP_PRELUDE + fn + "int main() { return 0; }\n")
            p1 = subprocess.run(cmd + ["-c", "-o", str(d / "c26_one.o"), str(one)], stdout=subprocess.PIPE, stderr=subprocess.STDOUT, timeout=300)
            if p1.returncode != 0:
                culprit, log = c, p1.stdout.decode(errors="replace")
                break
        ctx.fail({"flow": culprit.wire, "oracles": []}, "the emitted C++ does not compile: " + log[:600],
                 f"C26:cpp:compile:last={last_kind(culprit.flow)}")
        return
    try:
        run = subprocess.run([str(exe)], stdout=subprocess.PIPE, stderr=subprocess.PIPE, timeout=120)
    except subprocess.TimeoutExpired:
        ctx.fail({"flow": cases[0].wire, "oracles": []}, "the emitted C++ machines do not terminate", "C26:cpp:timeout")
        return
    outs = run.stdout.decode("ascii", "replace").split("\n")[:-1]
    if run.returncode != 0 or len(outs) != len(expect):
        ctx.fail({"flow": cases[0].wire, "oracles": []}, f"C++ driver exited {run.returncode} with {len(outs)} of {len(expect)} lines", "C26:cpp:run")
        return
    for (c, o, from_machine, from_structured), got in zip(expect, outs):
        ctx.traces_validated += 1
        ctx.hit("cpp-trace")
        inp = {"flow": c.wire, "oracles": [o]}
        if got != from_machine:
            ctx.disagree("cpp-vs-interpreter", inp, got, from_machine)
        if got not in from_structured:
            ctx.fail(inp, f"compiled C++ state machine logs {got!r}, the structured flow predicts {from_structured[0]!r}",
                     f"C26:cpp:trace:last={last_kind(c.flow)}")
    ctx.extra_cov["cpp_compiled"] = {"flows": len(funcs), "traces": len(expect)}
