"""C15 — schema constraint inference: extractor, correspondence with Model.Len / Model.Infer, direct oracle."""
from __future__ import annotations

import ast
import pathlib
from typing import Any, Dict, Iterator, List, Optional, Sequence, Tuple

from harness import extract
from harness.core import Ctx, corpus, crash_name
from harness.extract import ExtractError, HEADER, _class, _func, _parse

ID = "C15"
GEN = ["Len"]

# --------------------------------------------------------------------------- extractor (Gen/Len.lean)

_OPS = {"LT": "lt", "LE": "le", "GT": "gt", "GE": "ge", "EQ": "eq", "NE": "ne"}
_KINDS = {"_MinLength": "min", "_MaxLength": "max", "_ExactLength": "exact"}


def _is_not_none(node: ast.AST) -> Optional[str]:
    if (
        isinstance(node, ast.Compare)
        and len(node.ops) == 1
        and isinstance(node.ops[0], ast.IsNot)
        and isinstance(node.left, ast.Name)
        and isinstance(node.comparators[0], ast.Constant)
        and node.comparators[0].value is None
    ):
        return node.left.id
    return None


def _chain_rows(first: ast.If, returns: bool = False) -> List[Tuple[str, Optional[Tuple[str, int]]]]:
    """The rows of an ``if node.op is <op>: ... elif ...: ... else: assert_never(node.op)`` ladder whose branches are
    ``constraint = <Kind>(node=node, value=constant (+|-) k)`` / ``pass`` — or, with ``returns`` (the ladder is the body of a
    helper whose result is assigned to ``constraint``), ``return <Kind>(...)`` / ``return None``."""
    rows: List[Tuple[str, Optional[Tuple[str, int]]]] = []
    cur: ast.stmt = first
    while True:
        if not isinstance(cur, ast.If):
            raise ExtractError("operator chain: expected if/elif")
        t = cur.test
        if not (
            isinstance(t, ast.Compare)
            and len(t.ops) == 1
            and isinstance(t.ops[0], ast.Is)
            and ast.unparse(t.left) == "node.op"
            and ast.unparse(t.comparators[0]).startswith("parse_tree.Comparator.")
        ):
            raise ExtractError(f"operator chain: unexpected test {ast.unparse(t)}")
        opname = ast.unparse(t.comparators[0]).rsplit(".", 1)[1]
        if opname not in _OPS:
            raise ExtractError(f"unknown comparator {opname}")
        body = [s for s in cur.body if not (isinstance(s, ast.Expr) and isinstance(s.value, ast.Constant))]
        if len(body) != 1:
            raise ExtractError(f"operator chain: branch {opname} has {len(body)} statements")
        st = body[0]
        if returns and isinstance(st, ast.Return):
            # `return <expr>` in the helper stands for `constraint = <expr>` at the call
            if st.value is None or (isinstance(st.value, ast.Constant) and st.value.value is None):
                st = ast.Pass()
            else:
                st = ast.Assign(targets=[ast.Name(id="constraint", ctx=ast.Store())], value=st.value)
        elif returns:
            raise ExtractError(f"branch {opname} of the helper: unexpected statement {ast.unparse(st)[:80]}")
        if isinstance(st, ast.Pass):
            rows.append((_OPS[opname], None))
        elif (
            isinstance(st, ast.Assign)
            and len(st.targets) == 1
            and isinstance(st.targets[0], ast.Name)
            and st.targets[0].id == "constraint"
            and isinstance(st.value, ast.Call)
            and isinstance(st.value.func, ast.Name)
            and st.value.func.id in _KINDS
        ):
            kws = {k.arg: k.value for k in st.value.keywords}
            if set(kws) != {"node", "value"} or st.value.args:
                raise ExtractError(f"branch {opname}: unexpected constructor arguments")
            v = kws["value"]
            if isinstance(v, ast.Name) and v.id == "constant":
                delta = 0
            elif (
                isinstance(v, ast.BinOp)
                and isinstance(v.left, ast.Name)
                and v.left.id == "constant"
                and isinstance(v.right, ast.Constant)
                and type(v.right.value) is int
                and isinstance(v.op, (ast.Add, ast.Sub))
            ):
                delta = v.right.value if isinstance(v.op, ast.Add) else -v.right.value
            else:
                raise ExtractError(f"branch {opname}: value {ast.unparse(v)} is not `constant (+|-) k`")
            rows.append((_OPS[opname], (_KINDS[st.value.func.id], delta)))
        else:
            raise ExtractError(f"branch {opname}: unexpected statement {ast.unparse(st)[:80]}")
        if len(cur.orelse) != 1:
            raise ExtractError("operator chain does not end in a single else/elif")
        nxt = cur.orelse[0]
        if isinstance(nxt, ast.If):
            cur = nxt
            continue
        if isinstance(nxt, ast.Expr) and ast.unparse(nxt.value) == "assert_never(node.op)":
            return rows
        raise ExtractError(f"operator chain ends in {ast.unparse(nxt)[:60]}")


def _lean_int(i: int) -> str:
    return str(i) if i >= 0 else f"({i})"


def _lean_rows(rows: Sequence[Tuple[str, Optional[Tuple[str, int]]]]) -> str:
    out = []
    for op, r in rows:
        out.append(f"(.{op}, none)" if r is None else f"(.{op}, some (.{r[0]}, {_lean_int(r[1])}))")
    return "[" + ", ".join(out) + "]"


def gen_Len(repo: pathlib.Path) -> str:
    mod = _parse(repo, "aas_core_codegen/infer_for_schema/_len.py")
    fn = _func(mod, "_match_len_constraint_on_member_or_name")
    side_of_len: Optional[str] = None
    side_of_const: Optional[str] = None
    tables: Dict[str, List[Any]] = {}
    for st in fn.body:
        if isinstance(st, ast.Assign) and len(st.targets) == 1 and isinstance(st.targets[0], ast.Name):
            tgt, val = st.targets[0].id, ast.unparse(st.value)
            if tgt == "len_on_member_or_name":
                if val not in ("_match_len_on_member_or_name(node.left)", "_match_len_on_member_or_name(node.right)"):
                    raise ExtractError(f"unexpected len matcher call {val}")
                side_of_len = val[val.rindex(".") + 1 : -1]
            if tgt == "constant":
                if val not in ("_match_int_constant(node.left)", "_match_int_constant(node.right)"):
                    raise ExtractError(f"unexpected constant matcher call {val}")
                side_of_const = val[val.rindex(".") + 1 : -1]
        if isinstance(st, ast.If) and isinstance(st.test, ast.BoolOp) and isinstance(st.test.op, ast.And):
            names = sorted(filter(None, (_is_not_none(v) for v in st.test.values)))
            if names != ["constant", "len_on_member_or_name"]:
                continue
            if {side_of_len, side_of_const} != {"left", "right"}:
                raise ExtractError(f"len side {side_of_len!r} / constant side {side_of_const!r}")
            # the ladder stands at the start of the block, or is the whole body of a module-level helper whose result
            # is assigned to `constraint` there (the parameters are read as the arguments of the call)
            chain: Any = st.body[0] if st.body else None
            in_helper = False
            if (
                isinstance(chain, ast.Assign)
                and len(chain.targets) == 1
                and isinstance(chain.targets[0], ast.Name)
                and chain.targets[0].id == "constraint"
            ):
                helper = extract.helper_body_at_call(mod, chain.value)
                if helper is not None and len(helper) == 1:
                    chain, in_helper = helper[0], True
            if not isinstance(chain, ast.If):
                raise ExtractError("no operator chain at the start of the matching block")
            key = "lenOnLeft" if side_of_len == "left" else "constOnLeft"
            if key in tables:
                raise ExtractError(f"two blocks for {key}")
            tables[key] = _chain_rows(chain, returns=in_helper)
            tail = st.body[1:]
            if not (
                len(tail) == 1
                and isinstance(tail[0], ast.If)
                and ast.unparse(tail[0].test) == "constraint is not None"
                and len(tail[0].body) == 1
                and isinstance(tail[0].body[0], ast.Return)
            ):
                raise ExtractError("matching block does not end in `if constraint is not None: return ...`")
    if set(tables) != {"lenOnLeft", "constOnLeft"}:
        raise ExtractError(f"operator chains found: {sorted(tables)}")

    # LenConstraint.__init__ pre-condition
    tmod = _parse(repo, "aas_core_codegen/infer_for_schema/_types.py")
    cls = _class(tmod, "LenConstraint")
    init = next((n for n in cls.body if isinstance(n, ast.FunctionDef) and n.name == "__init__"), None)
    if init is None:
        raise ExtractError("LenConstraint.__init__ not found")
    reqs = [d for d in init.decorator_list if isinstance(d, ast.Call) and ast.unparse(d.func) in ("require", "icontract.require")]
    if len(reqs) != 1 or not reqs[0].args or not isinstance(reqs[0].args[0], ast.Lambda):
        raise ExtractError(f"LenConstraint.__init__ has {len(reqs)} @require decorators")
    body = reqs[0].args[0].body
    ok = (
        isinstance(body, ast.BoolOp)
        and isinstance(body.op, ast.Or)
        and len(body.values) == 2
        and ast.unparse(body.values[0]) == "not (min_value is not None and max_value is not None)"
        and isinstance(body.values[1], ast.Compare)
    )
    if not ok:
        raise ExtractError(f"unexpected LenConstraint pre-condition: {ast.unparse(body)}")
    cmp_ = body.values[1]
    if not (
        isinstance(cmp_.left, ast.Constant)
        and type(cmp_.left.value) is int
        and len(cmp_.ops) == 2
        and isinstance(cmp_.ops[0], (ast.Lt, ast.LtE))
        and isinstance(cmp_.ops[1], ast.LtE)
        and [ast.unparse(c) for c in cmp_.comparators] == ["min_value", "max_value"]
    ):
        raise ExtractError(f"unexpected LenConstraint pre-condition: {ast.unparse(cmp_)}")
    return (
        "import AasVerif.Model.LenBase\n"
        + HEADER.format(src="aas_core_codegen/infer_for_schema/_len.py, _types.py")
        + "namespace AasVerif.Gen.Len\nopen AasVerif.Len\n"
        + "/-- operator chain of `_match_len_constraint_on_member_or_name` for `len(x) op constant` -/\n"
        + f"def lenOnLeft : List Row := {_lean_rows(tables['lenOnLeft'])}\n"
        + "/-- operator chain for `constant op len(x)` -/\n"
        + f"def constOnLeft : List Row := {_lean_rows(tables['constOnLeft'])}\n"
        + "/-- `LenConstraint.__init__` requires `minLower (<|<=) min_value <= max_value` when both are given -/\n"
        + f"def minLower : Int := {_lean_int(cmp_.left.value)}\n"
        + f"def minLowerStrict : Bool := {'true' if isinstance(cmp_.ops[0], ast.Lt) else 'false'}\n"
        + "end AasVerif.Gen.Len\n"
    )


# --------------------------------------------------------------------------- direct calls of the implementation

OPS = ["lt", "le", "gt", "ge", "eq", "ne"]
_PY = {
    "lt": lambda a, b: a < b,
    "le": lambda a, b: a <= b,
    "gt": lambda a, b: a > b,
    "ge": lambda a, b: a >= b,
    "eq": lambda a, b: a == b,
    "ne": lambda a, b: a != b,
}
_DUMMY = ast.parse("0")


def _call(f: Any, *a: Any) -> Any:
    try:
        return f(*a)
    except BaseException as e:  # noqa
        return crash_name(e)


def impl_cmp(op: str, side: str, c: int) -> Any:
    """`_match_len_constraint_on_member_or_name` on `len(self.x) op c` (side L) or `c op len(self.x)` (side R)."""
    from aas_core_codegen.infer_for_schema import _len
    from aas_core_codegen.parse import tree as pt

    ln = pt.FunctionCall(
        name=pt.Name("len", _DUMMY), args=[pt.Member(pt.Name("self", _DUMMY), "x", _DUMMY)], original_node=_DUMMY
    )
    k = pt.Constant(c, _DUMMY)
    node = pt.Comparison(
        left=ln if side == "L" else k, op=pt.Comparator[op.upper()], right=k if side == "L" else ln, original_node=_DUMMY
    )
    r = _call(_len._match_len_constraint_on_member_or_name, node)
    if isinstance(r, str):
        return r
    if r is None:
        return "none"
    kind = {"_MinLength": "min", "_MaxLength": "max", "_ExactLength": "exact"}[type(r.constraint).__name__]
    return f"{kind} {int(r.constraint.value)}"


def _mk_bound(b: Tuple[str, int]) -> Any:
    from aas_core_codegen.infer_for_schema import _len

    cls = {"m": _len._MinLength, "M": _len._MaxLength, "e": _len._ExactLength}[b[0]]
    return cls(node=None, value=b[1])


def _enc_opt(v: Optional[int]) -> str:
    return "N" if v is None else str(int(v))


def _enc_lenc(c: Any) -> str:
    return "N" if c is None else f"{_enc_opt(c.min_value)}:{_enc_opt(c.max_value)}"


def impl_reduce(bs: Sequence[Tuple[str, int]]) -> str:
    from aas_core_codegen.infer_for_schema import _len

    r = _call(lambda: _len._reduce_constraints([_mk_bound(b) for b in bs]))
    if isinstance(r, str):
        return r
    c, errors = r
    return "err" if errors is not None else "ok " + _enc_lenc(c)


Lc = Optional[Tuple[Optional[int], Optional[int]]]


def impl_merge(a: Lc, b: Lc) -> Optional[str]:
    """None when an argument cannot be constructed (it violates the pre-condition of LenConstraint itself)."""
    from aas_core_codegen.infer_for_schema import _inline, _types

    try:
        ca = None if a is None else _types.LenConstraint(a[0], a[1])
        cb = None if b is None else _types.LenConstraint(b[0], b[1])
    except BaseException:  # noqa
        return None
    r = _call(_inline._merge_len_constraints, ca, cb)
    if isinstance(r, str):
        return r
    if isinstance(r, tuple):
        return "err" if r[1] is not None else "ok " + _enc_lenc(r[0])
    return "ok " + _enc_lenc(r)  # signature before the error channel was introduced


class _FakeEnum:
    def __init__(self, n: int) -> None:
        self.literals = [_FakeLit(i) for i in range(n)]
        self.literal_id_set = frozenset(id(x) for x in self.literals)
        self.name = "Fake"


class _FakeLit:
    def __init__(self, i: int) -> None:
        self.i = i
        self.value = f"v{i}"
        self.name = f"V{i}"


def _prim_lits(vals: Sequence[int]) -> List[Any]:
    from aas_core_codegen import intermediate

    return [intermediate.PrimitiveSetLiteral(value=f"v{v}", a_type=intermediate.PrimitiveType.STR, parsed=None) for v in vals]


def _enc_nats(vs: Sequence[int]) -> str:
    return "[]" if len(vs) == 0 else ".".join(str(v) for v in vs)


def impl_intersect(lists: Sequence[Sequence[int]], enum: bool) -> str:
    from aas_core_codegen import intermediate
    from aas_core_codegen.infer_for_schema import _set, _types

    def go() -> str:
        if enum:
            en = _FakeEnum(12)
            cs = [_types.SetOfEnumerationLiteralsConstraint(en, [en.literals[v] for v in l]) for l in lists]
            r = _set.intersect_set_of_enumeration_literals_constraints(cs)
            return "ok " + _enc_nats([x.i for x in r.literals])
        cs2 = [_types.SetOfPrimitivesConstraint(intermediate.PrimitiveType.STR, _prim_lits(l)) for l in lists]
        r2 = _set.intersect_set_of_primitives_constraints(cs2)
        return "ok " + _enc_nats([int(x.value[1:]) for x in r2.literals])

    return _call(go)


def impl_mergeset(a: Sequence[int], b: Sequence[int], enum: bool) -> str:
    from aas_core_codegen import intermediate
    from aas_core_codegen.infer_for_schema import _inline, _types

    def go() -> str:
        if enum:
            en = _FakeEnum(12)
            r = _inline._merge_set_of_enumeration_literals_constraints(
                _types.SetOfEnumerationLiteralsConstraint(en, [en.literals[v] for v in a]),
                _types.SetOfEnumerationLiteralsConstraint(en, [en.literals[v] for v in b]),
            )
            if isinstance(r, tuple):  # (constraint, error message) since the repair of C15-F1
                if r[1] is not None:
                    return "err"
                r = r[0]
            return _enc_nats([x.i for x in r.literals])
        r2 = _inline._merge_set_of_primitives_constraints(
            _types.SetOfPrimitivesConstraint(intermediate.PrimitiveType.STR, _prim_lits(a)),
            _types.SetOfPrimitivesConstraint(intermediate.PrimitiveType.STR, _prim_lits(b)),
        )
        if isinstance(r2, tuple):
            if r2[1] is not None:
                return "err"
            r2 = r2[0]
        return _enc_nats([int(x.value[1:]) for x in r2.literals])

    return _call(go)


def impl_mergepats(a: Sequence[int], b: Sequence[int]) -> str:
    from aas_core_codegen.infer_for_schema import _inline, _types

    def go() -> str:
        r = _inline._merge_pattern_constraints(
            [_types.PatternConstraint(f"p{v}") for v in a], [_types.PatternConstraint(f"p{v}") for v in b]
        )
        return _enc_nats([int(x.pattern[1:]) for x in r])

    return _call(go)


# --------------------------------------------------------------------------- direct oracles (from the property text)


def holds(b: Tuple[str, int], n: int) -> bool:
    return {"m": b[1] <= n, "M": n <= b[1], "e": n == b[1]}[b[0]]


def admits(enc: str, n: int) -> bool:
    """`enc` is the canonical `lo:hi` of an inferred range (or N)."""
    if enc == "N":
        return True
    lo, hi = enc.split(":")
    return (lo == "N" or int(lo) <= n) and (hi == "N" or n <= int(hi))


def judge_cmp(op: str, side: str, c: int, got: str) -> List[Tuple[str, str]]:
    if got.startswith("crash:"):
        return [(f"C15:cmp:{got}", f"length comparison matcher raised {got[6:]}")]
    if got == "none":
        return [] if op == "ne" else [(f"C15:cmp:ignored:{op}:{side}", f"`{op}` with the length on side {side} is not recognised")]
    if op == "ne":
        return [("C15:cmp:ne-misread", f"`!=` was read as {got}")]
    kind, v = got.split(" ")
    b = ({"min": "m", "max": "M", "exact": "e"}[kind], int(v))
    for n in range(0, max(c, 0) + 4):
        truth = _PY[op](n, c) if side == "L" else _PY[op](c, n)
        if holds(b, n) != truth:
            return [(f"C15:cmp:misread:{op}:{side}", f"bound {got} differs from the comparison at length {n} (constant {c})")]
    return []


def judge_reduce(bs: Sequence[Tuple[str, int]], got: str) -> List[Tuple[str, str]]:
    if got.startswith("crash:"):
        return [(f"C15:reduce:{got}", f"_reduce_constraints raised {got[6:]}")]
    top = max([abs(v) for _, v in bs] + [0]) + 3
    sat = [n for n in range(0, top) if all(holds(b, n) for b in bs)]
    if got == "err":
        return [("C15:reduce:spurious-error", f"satisfiable bounds (e.g. by length {sat[0]}) reported as contradicting")] if sat else []
    rng = got[3:]
    adm = [n for n in range(0, top) if admits(rng, n)]
    if not sat:
        return [("C15:reduce:unsat-not-reported", f"unsatisfiable bounds reduced to {rng} without an error")]
    if adm != sat:
        n = sorted(set(adm) ^ set(sat))[0]
        return [("C15:reduce:wrong-range", f"range {rng} differs from the conjunction of the bounds at length {n}")]
    return []


def judge_merge(a: Lc, b: Lc, got: str) -> List[Tuple[str, str]]:
    if got.startswith("crash:"):
        return [(f"C15:merge:{got}", f"_merge_len_constraints raised {got[6:]}")]

    def enc(x: Lc) -> str:
        return "N" if x is None else f"{_enc_opt(x[0])}:{_enc_opt(x[1])}"

    top = max([abs(v) for x in (a, b) if x for v in x if v is not None] + [0]) + 3
    both = [n for n in range(0, top) if admits(enc(a), n) and admits(enc(b), n)]
    if got == "err":
        return [("C15:merge:spurious-error", "compatible ranges reported as contradicting")] if both else []
    adm = [n for n in range(0, top) if admits(got[3:], n)]
    if not both:
        return [("C15:merge:unsat-not-reported", f"contradicting ranges merged to {got[3:]} without an error")]
    if adm != both:
        return [("C15:merge:wrong-range", f"merged range {got[3:]} is not the conjunction at length {sorted(set(adm) ^ set(both))[0]}")]
    return []


def judge_intersect(lists: Sequence[Sequence[int]], got: str, what: str) -> List[Tuple[str, str]]:
    if got.startswith("crash:"):
        return [(f"C15:{what}:{got}", f"{what} raised {got[6:]}")] if len(lists) >= 1 else []
    res = [] if got[3:] == "[]" else [int(x) for x in got[3:].split(".")]
    want = set(lists[0]).intersection(*[set(l) for l in lists[1:]])
    if set(res) != want:
        x = sorted(set(res) ^ want)[0]
        dup = any(len(set(l)) != len(l) for l in lists)
        return [(f"C15:{what}:wrong-members" + (":duplicates" if dup else ""), f"literal {x} is wrongly {'kept' if x in res else 'dropped'}")]
    return []


def judge_mergeset(a: Sequence[int], b: Sequence[int], got: str) -> List[Tuple[str, str]]:
    """The merge of two literal sets: the common literals, and an error exactly when there is none."""
    common = set(a) & set(b)
    if got == "err":
        return [("C15:mergeset:spurious-error", f"literal {sorted(common)[0]} is common to both sets but a contradiction is reported")] if common else []
    if got.startswith("crash:"):
        return judge_intersect([a, b], got, "mergeset")
    if not common:
        return [("C15:mergeset:unsat-not-reported", f"sets without a common literal merged to {got} without an error")]
    return judge_intersect([a, b], "ok " + got, "mergeset")


def judge_mergepats(a: Sequence[int], b: Sequence[int], got: str) -> List[Tuple[str, str]]:
    if got.startswith("crash:"):
        return [(f"C15:mergepats:{got}", f"_merge_pattern_constraints raised {got[6:]}")]
    res = [] if got == "[]" else [int(x) for x in got.split(".")]
    if set(res) != set(a) | set(b):
        return [("C15:mergepats:conjunction-changed", "merged pattern list is not the union of both lists")]
    if len(set(res)) != len(res):
        return [("C15:mergepats:duplicates", "merged pattern list repeats a pattern")]
    return []


# --------------------------------------------------------------------------- direct streams

import itertools  # noqa: E402


def _bounds_str(bs: Sequence[Tuple[str, int]]) -> str:
    return "[]" if not bs else ",".join(f"{k}{v}" for k, v in bs)


def _lc_str(x: Lc) -> str:
    return "N" if x is None else f"{_enc_opt(x[0])}:{_enc_opt(x[1])}"


def _lists_str(ls: Sequence[Sequence[int]]) -> str:
    return "-" if not ls else ";".join(_enc_nats(l) for l in ls)


def direct_inputs(ctx: Ctx) -> Iterator[Dict[str, Any]]:
    """Requests as dicts {fn, ...}; corpus first, then enumerated, then seeded random."""
    for c in corpus(ID):
        if c.get("fn") in ("cmp", "reduce", "merge", "intersect", "mergeset", "mergepats"):
            yield dict(c, stream="corpus")
    for op in OPS:
        for side in "LR":
            for c in range(-3, 71):
                yield {"fn": "cmp", "op": op, "side": side, "c": c, "stream": "cmp-enumerated"}
    small = [-1, 0, 1, 2, 4]
    bounds = [(k, v) for k in "mMe" for v in small]
    for n in range(0, 4):
        for bs in itertools.product(bounds, repeat=n):
            yield {"fn": "reduce", "bs": list(bs), "stream": "reduce-enumerated"}
    b4 = [(k, v) for k in "mMe" for v in ([-1, 0, 1, 3] if ctx.tier == "quick" else [-2, -1, 0, 1, 3, 70])]
    for bs in itertools.product(b4, repeat=4):
        yield {"fn": "reduce", "bs": list(bs), "stream": "reduce-enumerated"}
    for _ in range(ctx.n(3000, 150000)):
        n = ctx.rng.randint(1, 9)
        lo = ctx.rng.choice([-3, 0, 0, 5, 30, 66])
        bs = [(ctx.rng.choice("mMe" if ctx.rng.random() < 0.4 else "mM"), ctx.rng.randint(lo, lo + 4)) for _ in range(n)]
        yield {"fn": "reduce", "bs": bs, "stream": "reduce-random"}
    vals: List[Optional[int]] = [None, 0, 1, 2, 3, 5]
    lcs: List[Lc] = [None] + [(lo, hi) for lo in vals for hi in vals if lo is None or hi is None or lo <= hi]
    for a in lcs:
        for b in lcs:
            yield {"fn": "merge", "a": a, "b": b, "stream": "merge-enumerated"}
    for _ in range(ctx.n(500, 20000)):
        def rnd() -> Lc:
            if ctx.rng.random() < 0.1:
                return None
            lo = ctx.rng.choice([None, ctx.rng.randint(0, 70)])
            hi = ctx.rng.choice([None, ctx.rng.randint(0, 70)])
            if lo is not None and hi is not None and lo > hi:
                lo, hi = hi, lo
            return (lo, hi)
        yield {"fn": "merge", "a": rnd(), "b": rnd(), "stream": "merge-random"}
    short = [list(t) for n in range(0, 3) for t in itertools.product([0, 1, 2], repeat=n)]
    for enum in (False, True):
        yield {"fn": "intersect", "lists": [], "enum": enum, "stream": "set-enumerated"}
        for k in (1, 2, 3):
            for ls in itertools.product(short, repeat=k):
                yield {"fn": "intersect", "lists": [list(l) for l in ls], "enum": enum, "stream": "set-enumerated"}
        for a in short + [[0, 0, 1], [1, 2, 2, 0]]:
            for b in short + [[0, 0, 1], [2, 2]]:
                yield {"fn": "mergeset", "a": a, "b": b, "enum": enum, "stream": "set-enumerated"}
    for a in short + [[0, 0, 1], [3, 1, 3]]:
        for b in short + [[1, 1], [2, 3, 0]]:
            yield {"fn": "mergepats", "a": a, "b": b, "stream": "set-enumerated"}
    for _ in range(ctx.n(600, 30000)):
        def rl() -> List[int]:
            return [ctx.rng.randint(0, 6) for _ in range(ctx.rng.randint(0, 7))]
        r = ctx.rng.random()
        if r < 0.5:
            yield {"fn": "intersect", "lists": [rl() for _ in range(ctx.rng.randint(1, 5))], "enum": ctx.rng.random() < 0.5, "stream": "set-random"}
        elif r < 0.8:
            yield {"fn": "mergeset", "a": rl(), "b": rl(), "enum": ctx.rng.random() < 0.5, "stream": "set-random"}
        else:
            yield {"fn": "mergepats", "a": rl(), "b": rl(), "stream": "set-random"}


def direct_line(q: Dict[str, Any]) -> str:
    fn = q["fn"]
    if fn == "cmp":
        return f"cmp {q['op']} {q['side']} {q['c']}"
    if fn == "reduce":
        return "reduce " + _bounds_str([tuple(b) for b in q["bs"]])
    if fn == "merge":
        return f"merge {_lc_str(q['a'] and tuple(q['a']))} {_lc_str(q['b'] and tuple(q['b']))}"
    if fn == "intersect":
        return "intersect " + _lists_str(q["lists"])
    if fn == "mergeset":
        return f"mergeset {_enc_nats(q['a'])} {_enc_nats(q['b'])}"
    if fn == "mergepats":
        return f"mergepats {_enc_nats(q['a'])} {_enc_nats(q['b'])}"
    raise ValueError(fn)


def direct_impl(q: Dict[str, Any]) -> Optional[str]:
    fn = q["fn"]
    if fn == "cmp":
        return impl_cmp(q["op"], q["side"], q["c"])
    if fn == "reduce":
        return impl_reduce([tuple(b) for b in q["bs"]])
    if fn == "merge":
        return impl_merge(q["a"] and tuple(q["a"]), q["b"] and tuple(q["b"]))
    if fn == "intersect":
        r = impl_intersect(q["lists"], q["enum"])
        return "crash:require" if r == "crash:ViolationError" and not q["lists"] else r
    if fn == "mergeset":
        return impl_mergeset(q["a"], q["b"], q["enum"])
    if fn == "mergepats":
        return impl_mergepats(q["a"], q["b"])
    raise ValueError(fn)


def direct_judge(q: Dict[str, Any], got: str) -> List[Tuple[str, str]]:
    fn = q["fn"]
    if fn == "cmp":
        return judge_cmp(q["op"], q["side"], q["c"], got)
    if fn == "reduce":
        return judge_reduce([tuple(b) for b in q["bs"]], got)
    if fn == "merge":
        return judge_merge(q["a"] and tuple(q["a"]), q["b"] and tuple(q["b"]), got)
    if fn == "intersect":
        return [] if not q["lists"] else judge_intersect(q["lists"], got, "intersect")
    if fn == "mergeset":
        return judge_mergeset(q["a"], q["b"], got)
    if fn == "mergepats":
        return judge_mergepats(q["a"], q["b"], got)
    raise ValueError(fn)


def _strip(q: Dict[str, Any]) -> Dict[str, Any]:
    return {k: v for k, v in q.items() if k != "stream"}


def run_direct(ctx: Ctx, with_model: bool) -> None:
    qs = list(direct_inputs(ctx))
    outs = [direct_impl(q) for q in qs]
    keep = [(q, o) for q, o in zip(qs, outs) if o is not None]
    mouts = ctx.model([direct_line(q) for q, _ in keep]) if with_model else []
    for k, (q, got) in enumerate(keep):
        ctx.count(_strip(q), nontrivial=q["fn"] != "cmp" and len(q.get("bs", q.get("lists", [1, 2]))) > 1, stream=q["stream"])
        if q["fn"] in ("mergeset", "mergepats"):
            ctx.hit(f"{q['fn']}:" + ("crash" if got.startswith("crash:") else "err" if got == "err" else "empty" if got == "[]" else "non-empty"))
        else:
            ctx.hit(f"{q['fn']}:{got.split(' ')[0].split(':')[0]}")
        if q["fn"] == "reduce" and got.startswith("ok"):
            lo, hi = got[3:].split(":")
            ctx.hit("reduce:" + ("exact" if lo == hi and lo != "N" else "range" if "N" not in (lo, hi) else "half-open"))
        if k % 1499 == 0:
            ctx.sample({"request": direct_line(q), "impl": got})
        if with_model:
            ctx.traces_validated += 1
            if _norm(mouts[k]) != _norm(got):
                ctx.disagree(q["fn"], _strip(q), got, mouts[k])
        for sig, what in direct_judge(q, got):
            ctx.fail(_strip(q), what, sig)


# --------------------------------------------------------------------------- meta-model texts

import re as _re  # noqa: E402
import types as _types_mod  # noqa: E402

PATTERN_FUNCS = [
    ("matches_as", "^a+$"),
    ("matches_ab", "^[ab]*$"),
    ("matches_short", "^.{0,3}$"),
]
HEADER_TEXT = '''\
@verification
def matches_as(text: str) -> bool:
    return match("^a+$", text) is not None


@verification
def matches_ab(text: str) -> bool:
    return match("^[ab]*$", text) is not None


@verification
def matches_short(text: str) -> bool:
    prefix = "^"
    return match(f"{prefix}.{{0,3}}$", text) is not None


@verification
def is_nice(text: str) -> bool:
    return len(text) > 2


class Color(Enum):
    Red = "RED"
    Green = "GREEN"
    Blue = "BLUE"


Set_ab: Set[str] = constant_set(values=["a", "b", "ab"])
Set_bc: Set[str] = constant_set(values=["b", "c", "b", "aaaa"])
Set_c: Set[str] = constant_set(values=["c"])
Set_int: Set[int] = constant_set(values=[1, 2])
Set_warm: Set[Color] = constant_set(values=[Color.Red, Color.Green])
Set_cold: Set[Color] = constant_set(values=[Color.Blue, Color.Green])
Some_text: str = constant_str(value="a")
'''
FOOTER_TEXT = '''

__version__ = "dummy"
__xml_namespace__ = "https://dummy.com"
'''
STR_SETS = ["Set_ab", "Set_bc", "Set_c"]
ENUM_SETS = ["Set_warm", "Set_cold"]

CP_NAMES = ["Small_text", "Tiny_text", "Some_blob"]
CLASS_NAMES = ["Base_thing", "Mid_thing", "Leaf_thing", "Other_thing"]
PROP_NAMES = ["alpha", "beta", "gamma", "kappa", "eps", "zeta", "eta", "theta"]


def _cmp_text(rng: Any, subject: str, tight: bool = True) -> str:
    """A single comparison of `len(subject)` with a constant, either operand order."""
    op = rng.choice(["<", "<=", "==", ">", ">=", "!="] if rng.random() < 0.15 else ["<", "<=", ">", ">=", "==", "<=", ">="])
    lower = op in (">", ">=")
    if rng.random() < 0.5:
        # constant on the right
        c = rng.choice([0, 1, 2] if lower else [3, 4, 5, 8] if op != "==" else [0, 2, 3]) if tight else rng.randint(-1, 9)
        return f"len({subject}) {op} {c}"
    flipped = {"<": ">", "<=": ">=", ">": "<", ">=": "<=", "==": "==", "!=": "!="}[op]
    c = rng.choice([0, 1, 2] if lower else [3, 4, 5, 8] if op != "==" else [0, 2, 3]) if tight else rng.randint(-1, 9)
    return f"{c} {flipped} len({subject})"


def _guard(rng: Any, prop: str, body: str) -> str:
    if rng.random() < 0.5:
        return f"self.{prop} is None or {body}"
    return f"not (self.{prop} is not None) or {body}"


def _paren(s: str) -> str:
    return f"({s})"


def gen_invariant(rng: Any, props: List[Tuple[str, str]]) -> str:
    """One invariant body over the visible properties [(name, type text)]."""
    def pick(pred: Any) -> Optional[str]:
        c = [n for n, t in props if pred(t)]
        return rng.choice(c) if c else None

    def base(t: str) -> str:
        return t[9:-1] if t.startswith("Optional[") else t

    lengthable = lambda t: base(t) in ("str", "bytearray", "Small_text", "Tiny_text", "Some_blob") or base(t).startswith("List[")  # noqa: E731
    stringy = lambda t: base(t) in ("str", "Small_text", "Tiny_text")  # noqa: E731
    enumy = lambda t: base(t) == "Color"  # noqa: E731
    anyp = rng.choice(props)[0]
    other = rng.choice(props)[0]
    p = pick(lengthable) or anyp
    s = pick(stringy) or anyp
    s2 = pick(stringy) or anyp
    e = pick(enumy)
    f, g = rng.choice(PATTERN_FUNCS)[0], rng.choice(PATTERN_FUNCS)[0]
    S, T = rng.choice(STR_SETS), rng.choice(STR_SETS)
    r = rng.random()
    tight = rng.random() < 0.85
    if r < 0.30:
        c = _cmp_text(rng, f"self.{p}", tight)
        k = rng.random()
        if k < 0.45:
            return c
        if k < 0.80:
            return _guard(rng, p, c)
        if k < 0.90:
            return _guard(rng, other, c)  # guard on (possibly) another property
        if k < 0.95:
            return f"{c} and {_cmp_text(rng, f'self.{p}', tight)}"
        if k < 0.975:
            return f"not ({c})"
        return f"self.{p} is None or {c} or {_cmp_text(rng, f'self.{p}', tight)}"
    if r < 0.55:
        k = rng.random()
        if k < 0.30:
            return f"{f}(self.{s})"
        if k < 0.45:
            return f"{f}(self.{s}) and {g}(self.{s2})"
        if k < 0.60:
            return _guard(rng, s, f"{f}(self.{s})")
        if k < 0.70:
            return _guard(rng, other, f"{f}(self.{s})")
        if k < 0.80:
            return _guard(rng, s, _paren(f"{f}(self.{s}) and {g}(self.{s2})"))
        if k < 0.86:
            return f"is_nice(self.{s})"
        if k < 0.92:
            return f"not {f}(self.{s})"
        if k < 0.96:
            return f"{f}(self.{s}) or {g}(self.{s})"
        return f"{_cmp_text(rng, f'self.{s}', tight)} and {f}(self.{s})"
    if r < 0.80:
        k = rng.random()
        if e is not None and k < 0.35:
            E = rng.choice(ENUM_SETS)
            kk = rng.random()
            if kk < 0.5:
                return f"self.{e} in {E}"
            if kk < 0.75:
                return _guard(rng, e, f"self.{e} in {E}")
            return f"self.{e} in {E} and self.{e} in {rng.choice(ENUM_SETS)}"
        if k < 0.50:
            return f"self.{s} in {S}"
        if k < 0.62:
            return f"self.{s} in {S} and self.{s2} in {T}"
        if k < 0.74:
            return _guard(rng, s, f"self.{s} in {S}")
        if k < 0.82:
            return _guard(rng, other, f"self.{s} in {S}")
        if k < 0.90:
            return _guard(rng, s, _paren(f"self.{s} in {S} and self.{s2} in {T}"))
        if k < 0.93:
            return f"self.{s} in Unknown_set"
        if k < 0.95:
            return f"self.{s} in Some_text"
        if k < 0.97:
            return f"not (self.{s} in {S})"
        if k < 0.985:
            return f"self.{s} in Set_int"
        return f"self.{s} in Set_warm"
    if r < 0.84:
        return f"len(self.missing) < 3" if rng.random() < 0.3 else f"self.missing in {S}" if rng.random() < 0.5 else f"{f}(self.missing)"
    if r < 0.92:
        return f"len(self.{p}) < len(self.{other})" if rng.random() < 0.5 else f"len(self.{p}) + 1 < 5"
    return f"self.{anyp} is not None" if rng.random() < 0.5 else f"self.{anyp} is None or self.{other} is None"


def gen_cp_invariant(rng: Any, stringy: bool) -> str:
    r = rng.random()
    f, g = rng.choice(PATTERN_FUNCS)[0], rng.choice(PATTERN_FUNCS)[0]
    if r < 0.55 or not stringy:
        c = _cmp_text(rng, "self", rng.random() < 0.85)
        k = rng.random()
        if k < 0.85:
            return c
        if k < 0.93:
            return f"{c} and {_cmp_text(rng, 'self')}"
        return f"not ({c})"
    k = rng.random()
    if k < 0.5:
        return f"{f}(self)"
    if k < 0.75:
        return f"{f}(self) and {g}(self)"
    if k < 0.85:
        return f"not {f}(self)"
    if k < 0.92:
        return f"is_nice(self)"
    return f"{f}(self) and {_cmp_text(rng, 'self')}"


def gen_source(rng: Any) -> str:
    """A small meta-model text: constrained primitives, 1-4 classes in inheritance chains, invariants."""
    out = [HEADER_TEXT]
    desc = [0]

    def invs(bodies: List[str]) -> str:
        lines = []
        for b in bodies:
            desc[0] += 1
            lines.append(f'@invariant(\n    lambda self: {b},\n    "Constraint {desc[0]}"\n)\n')
        return "".join(lines)

    # constrained primitives (always defined so that the property types resolve)
    n_inv = lambda: rng.choice([0, 0, 1, 1, 2, 3])  # noqa: E731
    out.append("\n" + invs([gen_cp_invariant(rng, True) for _ in range(n_inv())]) + "class Small_text(str):\n    pass\n")
    out.append("\n" + invs([gen_cp_invariant(rng, True) for _ in range(n_inv())]) + "class Tiny_text(Small_text):\n    pass\n")
    out.append("\n" + invs([gen_cp_invariant(rng, False) for _ in range(n_inv())]) + "class Some_blob(bytearray):\n    pass\n")

    n_classes = rng.randint(1, 4)
    type_pool = [
        "str", "str", "Optional[str]", "bytearray", "List[str]", "Optional[List[str]]", "Small_text", "Tiny_text",
        "Optional[Small_text]", "List[Small_text]", "Some_blob", "Color", "Optional[Color]", "int",
    ]
    names = list(PROP_NAMES)
    rng.shuffle(names)
    classes: List[Dict[str, Any]] = []
    for i in range(n_classes):
        parents: List[int] = []
        if i > 0 and rng.random() < 0.8:
            parents.append(rng.randrange(i))
            if i > 1 and rng.random() < 0.15:
                j = rng.randrange(i)
                # a second parent only if unrelated (no shared ancestor, so no property is inherited twice)
                def anc(k: int) -> set:
                    s = {k}
                    for q in classes[k]["parents"]:
                        s |= anc(q)
                    return s
                if not (anc(j) & anc(parents[0])):
                    parents.append(j)
        own = [(names.pop(), rng.choice(type_pool)) for _ in range(rng.randint(0 if parents else 1, 2)) if names]
        inherited: List[Tuple[str, str]] = []
        for q in parents:
            inherited += classes[q]["all"]
        allp = inherited + own
        if not allp:
            own = [(names.pop(), "str")]
            allp = own
        classes.append({"parents": parents, "own": own, "all": allp})
    for i, c in enumerate(classes):
        bodies = [gen_invariant(rng, c["all"]) for _ in range(rng.choice([0, 1, 1, 2, 2, 3, 4]))]
        req = [(n, t) for n, t in c["all"] if not t.startswith("Optional[")]
        opt = [(n, t) for n, t in c["all"] if t.startswith("Optional[")]
        args = ", ".join(["self"] + [f"{n}: {t}" for n, t in req] + [f"{n}: {t} = None" for n, t in opt])
        body = []
        for q in c["parents"]:
            pa = ", ".join(["self"] + [f"{n}={n}" for n, _ in classes[q]["all"]])
            body.append(f"        {CLASS_NAMES[q]}.__init__({pa})\n")
        for n, _ in c["own"]:
            body.append(f"        self.{n} = {n}\n")
        if not body:
            body.append("        pass\n")
        bases = ", ".join(CLASS_NAMES[q] for q in c["parents"])
        out.append(
            "\n"
            + invs(bodies)
            + f"class {CLASS_NAMES[i]}{'(' + bases + ')' if bases else ''}:\n"
            + "".join(f"    {n}: {t}\n" for n, t in c["own"])
            + f"\n    def __init__({args}) -> None:\n"
            + "".join(body)
        )
    out.append(FOOTER_TEXT)
    return "\n".join(out)


# --------------------------------------------------------------------------- front end + wire encoding


def front_end(source: str) -> Tuple[Optional[Any], str]:
    """(symbol table, '') or (None, stage at which the text was rejected)."""
    from aas_core_codegen import intermediate, parse

    try:
        atok, exc = parse.source_to_atok(source=source)
        if exc is not None:
            return None, "syntax"
        pst, err = parse.atok_to_symbol_table(atok=atok)
        if err is not None:
            return None, "parse"
        st, err = intermediate.translate(parsed_symbol_table=pst, atok=atok)
        if err is not None:
            return None, "intermediate"
        return st, ""
    except BaseException as e:  # noqa
        return None, "front-end-" + crash_name(e)


PRIM_INDEX = {"BOOL": 0, "INT": 1, "FLOAT": 2, "STR": 3, "BYTEARRAY": 4}


class Wire:
    """Interns identifiers, type-annotation objects, patterns and literals; renders the request tokens."""

    def __init__(self) -> None:
        self.idents: Dict[str, int] = {"self": 0, "len": 1}
        self.annos: Dict[int, int] = {}
        self.anno_objs: List[Any] = []
        self.pats: Dict[str, int] = {}
        self.lits: Dict[Any, int] = {}
        self.lit_objs: List[Any] = []

    def ident(self, s: str) -> int:
        return self.idents.setdefault(str(s), len(self.idents))

    def anno(self, o: Any) -> int:
        if id(o) not in self.annos:
            self.annos[id(o)] = 100 + len(self.annos)
            self.anno_objs.append(o)
        return self.annos[id(o)]

    def pat(self, p: str) -> int:
        return self.pats.setdefault(p, len(self.pats))

    def lit(self, key: Any, obj: Any) -> int:
        if key not in self.lits:
            self.lits[key] = len(self.lits)
            self.lit_objs.append(obj)
        return self.lits[key]

    def prim_lit(self, l: Any) -> int:
        return self.lit(("p", type(l.value).__name__, repr(l.value)), l)

    def enum_lit(self, l: Any) -> int:
        return self.lit(("e", id(l)), l)

    def expr(self, n: Any) -> List[str]:
        from aas_core_codegen.parse import tree as pt

        if isinstance(n, pt.Name):
            return ["N", str(self.ident(n.identifier))]
        if isinstance(n, pt.Member):
            return ["M"] + self.expr(n.instance) + [str(self.ident(n.name))]
        if isinstance(n, pt.Constant):
            if isinstance(n.value, int):
                return ["C", str(int(n.value))]
            return ["X", "0"]
        if isinstance(n, pt.IsNone):
            return ["IN"] + self.expr(n.value)
        if isinstance(n, pt.IsNotNone):
            return ["INN"] + self.expr(n.value)
        if isinstance(n, pt.Not):
            return ["NOT"] + self.expr(n.operand)
        if isinstance(n, pt.And):
            return ["AND", str(len(n.values))] + [t for v in n.values for t in self.expr(v)]
        if isinstance(n, pt.Or):
            return ["OR", str(len(n.values))] + [t for v in n.values for t in self.expr(v)]
        if isinstance(n, pt.Implication):
            return ["IMP"] + self.expr(n.antecedent) + self.expr(n.consequent)
        if isinstance(n, pt.Comparison):
            return ["CMP", n.op.name.lower()] + self.expr(n.left) + self.expr(n.right)
        if isinstance(n, pt.FunctionCall):
            return ["CALL", str(self.ident(n.name.identifier)), str(len(n.args))] + [t for a in n.args for t in self.expr(a)]
        if isinstance(n, pt.IsIn):
            return ["ISIN"] + self.expr(n.member) + self.expr(n.container)
        return ["X", "1"]

    def ty(self, t: Any) -> List[str]:
        from aas_core_codegen import intermediate as im

        if isinstance(t, im.PrimitiveTypeAnnotation):
            return ["P", str(self.anno(t)), str(PRIM_INDEX[t.a_type.name])]
        if isinstance(t, im.OurTypeAnnotation):
            ot = t.our_type
            kind = 0 if isinstance(ot, im.ConstrainedPrimitive) else 1 if isinstance(ot, im.Enumeration) else 2
            return ["O", str(self.anno(t)), str(kind), str(self.ident(ot.name))]
        if isinstance(t, im.ListTypeAnnotation):
            return ["L", str(self.anno(t))] + self.ty(t.items)
        if isinstance(t, im.OptionalTypeAnnotation):
            return ["T", str(self.anno(t))] + self.ty(t.value)
        raise ValueError(f"unknown type annotation {t!r}")

    def invs(self, owner: Any) -> List[str]:
        out = [str(len(owner.invariants))]
        for inv in owner.invariants:
            out += [str(self.ident(inv.specified_for.name))] + self.expr(inv.body)
        return out

    def table(self, st: Any) -> str:
        from aas_core_codegen import intermediate as im

        t = ["MM", str(len(st.constrained_primitives))]
        for cp in st.constrained_primitives:
            t += [str(self.ident(cp.name)), str(len(cp.inheritances))] + [str(self.ident(p.name)) for p in cp.inheritances]
            t += [str(PRIM_INDEX[cp.constrainee.name])] + self.invs(cp)
        t.append(str(len(st.classes)))
        for cls in st.classes:
            t += [str(self.ident(cls.name)), str(len(cls.inheritances))] + [str(self.ident(p.name)) for p in cls.inheritances]
            t.append(str(len(cls.properties)))
            for prop in cls.properties:
                t += [str(self.ident(prop.name))] + self.ty(prop.type_annotation)
            t += self.invs(cls)
        t.append(str(len(st.constants_by_name)))
        for name, c in st.constants_by_name.items():
            t.append(str(self.ident(name)))
            if isinstance(c, im.ConstantSetOfPrimitives):
                t += ["S", str(PRIM_INDEX[c.a_type.name]), str(len(c.literals))] + [str(self.prim_lit(l)) for l in c.literals]
            elif isinstance(c, im.ConstantSetOfEnumerationLiterals):
                t += ["E", str(self.ident(c.enumeration.name)), str(len(c.literals))] + [str(self.enum_lit(l)) for l in c.literals]
            else:
                t.append("C")
        pv = [v for v in st.verification_functions if isinstance(v, im.PatternVerification)]
        by_name = {v.name: v for v in pv}  # later definitions win, as in map_pattern_verifications_by_name
        t.append(str(len(by_name)))
        for name, v in by_name.items():
            t += [str(self.ident(name)), str(self.pat(v.pattern))]
        t.append(str(len(st.our_types_topologically_sorted)))
        t += [str(self.ident(o.name)) for o in st.our_types_topologically_sorted]
        return ",".join(t)

    # canonical dump of the implementation's result: {cls: {anno: (len, pats, prims, enums)}}
    def dump(self, by_class: Any) -> Dict[int, Dict[int, Any]]:
        out: Dict[int, Dict[int, Any]] = {}
        for cls, by_value in by_class.items():
            d: Dict[int, Any] = {}
            for anno, c in by_value.items():
                d[self.anno(anno)] = (
                    _enc_lenc(c.len_constraint),
                    None if c.patterns is None else tuple(sorted({self.pat(p.pattern) for p in c.patterns})),
                    None if c.set_of_primitives is None else (
                        PRIM_INDEX[c.set_of_primitives.a_type.name],
                        tuple(sorted({self.prim_lit(l) for l in c.set_of_primitives.literals})),
                    ),
                    None if c.set_of_enumeration_literals is None else (
                        self.ident(c.set_of_enumeration_literals.enumeration.name),
                        tuple(sorted({self.enum_lit(l) for l in c.set_of_enumeration_literals.literals})),
                    ),
                )
            out[self.ident(cls.name)] = d
        return out


def parse_model_dump(s: str) -> Dict[int, Dict[int, Any]]:
    def nats(x: str) -> Tuple[int, ...]:
        return () if x == "[]" else tuple(sorted({int(v) for v in x.split(".")}))

    def st(x: str) -> Any:
        if x == "N":
            return None
        t, l = x.split(":")
        return (int(t), nats(l))

    out: Dict[int, Dict[int, Any]] = {}
    if s == "":
        return out
    for part in s.split("/"):
        cid, rest = part.split(">")
        d: Dict[int, Any] = {}
        for ent in filter(None, rest.split(";")):
            k, v = ent.split("=")
            ln, pats, prims, enums = v.split("~")
            d[int(k)] = (ln, None if pats == "N" else nats(pats), st(prims), st(enums))
        out[int(cid)] = d
    return out


def impl_infer(st: Any, wire: Wire) -> Tuple[str, Any, Any]:
    """('ok', canonical dump, raw result) | ('err', messages, None) | ('crash:<Type>', None, None)"""
    from aas_core_codegen import infer_for_schema

    try:
        by_class, errors = infer_for_schema.infer_constraints_by_class(symbol_table=st)
    except BaseException as e:  # noqa
        return crash_name(e), None, None
    if errors is not None:
        return "err", [str(e.message)[:160] for e in errors], None
    return "ok", wire.dump(by_class), by_class


# --------------------------------------------------------------------------- direct oracle on a meta-model text
#
# Written from the statement of C15: for every class, property and candidate value, the inferred constraints
# admit the value  <=>  all *recognised* invariants (of the class, its ancestors and the constrained primitives
# of the property's type), evaluated as Python on an instance holding the value, are true.  Recognised forms
# (per kind; everything else must be ignored):
#   length   `len(self.p) OP c` / `c OP len(self.p)`, OP in < <= == > >=, optionally guarded by
#            `self.p is None or ...` / `not (self.p is not None) or ...` on the SAME property;
#   pattern  `f(self.p)` with f a pattern verification function, or a conjunction containing such calls
#            (each call counts), optionally guarded (same property);
#   set      `self.p in S` with S a constant set, or a conjunction of them, optionally guarded (same property);
#   on constrained primitives: `len(self) OP c`, `f(self)`, conjunctions of `f(self)`.


class _Sized:
    def __init__(self, n: int) -> None:
        self.n = n

    def __len__(self) -> int:
        return self.n


def _is_self_attr(n: ast.AST) -> Optional[str]:
    if isinstance(n, ast.Attribute) and isinstance(n.value, ast.Name) and n.value.id == "self":
        return n.attr
    return None


def _int_const(n: ast.AST) -> Optional[int]:
    if isinstance(n, ast.Constant) and type(n.value) is int:
        return n.value
    if isinstance(n, ast.UnaryOp) and isinstance(n.op, ast.USub) and isinstance(n.operand, ast.Constant) and type(n.operand.value) is int:
        return -n.operand.value
    return None


class MMOracle:
    def __init__(self, source: str) -> None:
        import enum
        import typing

        self.tree = ast.parse(source)
        ns: Dict[str, Any] = {
            "invariant": lambda *a, **k: (lambda cls: cls),
            "verification": lambda f: f,
            "abstract": lambda c: c,
            "match": _re.match,
            "constant_set": lambda values, description=None, superset_of=None: list(values),
            "constant_str": lambda value, description=None: value,
            "Enum": enum.Enum,
            "DBC": object,
            "Optional": typing.Optional,
            "List": typing.List,
            "Set": typing.Set,
        }
        # The meta-model text is ordinary Python, except that the front end (which never executes it) accepts a class
        # declared BEFORE its base.  Only functions, constants and enumerations are needed to evaluate an invariant
        # body, so the other classes are left out of the executed module.
        executed = ast.Module(
            body=[n for n in self.tree.body if not isinstance(n, ast.ClassDef) or any(isinstance(b, ast.Name) and b.id == "Enum" for b in n.bases)],
            type_ignores=[],
        )
        exec(compile(executed, "<meta-model>", "exec"), ns)
        self.ns = ns
        self.pattern_funcs: set = set()
        self.const_sets: Dict[str, str] = {}  # name -> element type text
        self.classes: Dict[str, Dict[str, Any]] = {}
        for node in self.tree.body:
            if isinstance(node, ast.FunctionDef):
                last = node.body[-1]
                if (
                    isinstance(last, ast.Return)
                    and isinstance(last.value, ast.Compare)
                    and isinstance(last.value.left, ast.Call)
                    and isinstance(last.value.left.func, ast.Name)
                    and last.value.left.func.id == "match"
                    and isinstance(last.value.ops[0], ast.IsNot)
                ):
                    self.pattern_funcs.add(node.name)
            elif isinstance(node, ast.AnnAssign) and isinstance(node.value, ast.Call) and isinstance(node.value.func, ast.Name):
                if node.value.func.id == "constant_set" and isinstance(node.annotation, ast.Subscript):
                    self.const_sets[node.target.id] = ast.unparse(node.annotation.slice)  # type: ignore
            elif isinstance(node, ast.ClassDef):
                bases = [b.id for b in node.bases if isinstance(b, ast.Name)]
                invs = []
                for d in node.decorator_list:
                    if isinstance(d, ast.Call) and isinstance(d.func, ast.Name) and d.func.id == "invariant" and isinstance(d.args[0], ast.Lambda):
                        invs.append(d.args[0].body)
                props = [(s.target.id, s.annotation) for s in node.body if isinstance(s, ast.AnnAssign) and isinstance(s.target, ast.Name)]
                self.classes[node.name] = {"bases": bases, "invs": invs, "props": props}

    # ---- structure
    def kind(self, name: str) -> str:
        """'enum' | 'cp:<str|bytearray|...>' | 'class'"""
        c = self.classes[name]
        for b in c["bases"]:
            if b == "Enum":
                return "enum"
            if b in ("str", "bytearray", "int", "float", "bool"):
                return "cp:" + b
            if b in self.classes and self.kind(b).startswith("cp:"):
                return self.kind(b)
        return "class"

    def ancestors(self, name: str) -> List[str]:
        out = [name]
        for b in self.classes[name]["bases"]:
            if b in self.classes:
                out += [a for a in self.ancestors(b) if a not in out]
        return out

    def visible_props(self, name: str) -> Dict[str, ast.AST]:
        d: Dict[str, ast.AST] = {}
        for a in reversed(self.ancestors(name)):
            for n, t in self.classes[a]["props"]:
                d[n] = t
        return d

    @staticmethod
    def beneath_optional(t: ast.AST) -> ast.AST:
        while isinstance(t, ast.Subscript) and isinstance(t.value, ast.Name) and t.value.id == "Optional":
            t = t.slice
        return t

    def prim_of(self, t: ast.AST) -> Optional[str]:
        """Underlying primitive of a (non-optional) type: str/bytearray/int/..., 'list', 'enum:<name>' or None."""
        if isinstance(t, ast.Subscript) and isinstance(t.value, ast.Name) and t.value.id == "List":
            return "list"
        if isinstance(t, ast.Name):
            if t.id in ("str", "bytearray", "int", "float", "bool"):
                return t.id
            if t.id in self.classes:
                k = self.kind(t.id)
                return k[3:] if k.startswith("cp:") else "enum:" + t.id if k == "enum" else None
        return None

    # ---- recognised atoms
    @staticmethod
    def split_guard(body: ast.AST) -> Tuple[Optional[str], Optional[ast.AST], ast.AST]:
        if isinstance(body, ast.BoolOp) and isinstance(body.op, ast.Or) and len(body.values) == 2:
            g = body.values[0]
            if isinstance(g, ast.Compare) and len(g.ops) == 1 and isinstance(g.ops[0], ast.Is) and isinstance(g.comparators[0], ast.Constant) and g.comparators[0].value is None:
                p = _is_self_attr(g.left)
                if p is not None:
                    return p, g, body.values[1]
            if isinstance(g, ast.UnaryOp) and isinstance(g.op, ast.Not):
                h = g.operand
                if isinstance(h, ast.Compare) and len(h.ops) == 1 and isinstance(h.ops[0], ast.IsNot) and isinstance(h.comparators[0], ast.Constant) and h.comparators[0].value is None:
                    p = _is_self_attr(h.left)
                    if p is not None:
                        return p, g, body.values[1]
        return None, None, body

    @staticmethod
    def len_subject(n: ast.AST) -> Optional[ast.AST]:
        if isinstance(n, ast.Call) and isinstance(n.func, ast.Name) and n.func.id == "len" and len(n.args) == 1 and not n.keywords:
            return n.args[0]
        return None

    def len_cmp(self, core: ast.AST) -> Optional[ast.AST]:
        """the subject of a recognised length comparison"""
        if isinstance(core, ast.Compare) and len(core.ops) == 1 and isinstance(core.ops[0], (ast.Lt, ast.LtE, ast.Eq, ast.Gt, ast.GtE)):
            l, r = core.left, core.comparators[0]
            if self.len_subject(l) is not None and _int_const(r) is not None:
                return self.len_subject(l)
            if _int_const(l) is not None and self.len_subject(r) is not None:
                return self.len_subject(r)
        return None

    def class_atoms(self, body: ast.AST) -> List[Tuple[str, str, str, Optional[str]]]:
        """[(property, kind, python source of the atom incl. its guard, set name)] recognised in one class invariant"""
        gp, gnode, core = self.split_guard(body)
        atoms: List[Tuple[str, str, ast.AST, Optional[str]]] = []
        subj = self.len_cmp(core)
        if subj is not None and _is_self_attr(subj) is not None:
            atoms.append((_is_self_attr(subj), "len", core, None))  # type: ignore
        parts = core.values if isinstance(core, ast.BoolOp) and isinstance(core.op, ast.And) else [core]
        for part in parts:
            if isinstance(part, ast.Call) and isinstance(part.func, ast.Name) and part.func.id in self.pattern_funcs and len(part.args) == 1 and not part.keywords:
                q = _is_self_attr(part.args[0])
                if q is not None:
                    atoms.append((q, "pattern", part, None))
            if isinstance(part, ast.Compare) and len(part.ops) == 1 and isinstance(part.ops[0], ast.In):
                q = _is_self_attr(part.left)
                s = part.comparators[0]
                if q is not None and isinstance(s, ast.Name) and s.id in self.const_sets:
                    atoms.append((q, "set", part, s.id))
        out = []
        for q, kind, node, sname in atoms:
            if gp is not None and q != gp:
                continue  # guarded by another property: only a conditional constraint, must be ignored
            src = ast.unparse(node) if gnode is None else f"({ast.unparse(gnode)}) or ({ast.unparse(node)})"
            out.append((q, kind, src, sname))
        return out

    def cp_atoms(self, name: str) -> List[Tuple[str, str]]:
        """[(kind, python source over `self`)] of a constrained primitive and its ancestors"""
        out: List[Tuple[str, str]] = []
        for a in self.ancestors(name):
            for body in self.classes[a]["invs"]:
                subj = self.len_cmp(body)
                if subj is not None and isinstance(subj, ast.Name) and subj.id == "self":
                    out.append(("len", ast.unparse(body)))
                parts = body.values if isinstance(body, ast.BoolOp) and isinstance(body.op, ast.And) else [body]
                for part in parts:
                    if (
                        isinstance(part, ast.Call) and isinstance(part.func, ast.Name) and part.func.id in self.pattern_funcs
                        and len(part.args) == 1 and isinstance(part.args[0], ast.Name) and part.args[0].id == "self"
                    ):
                        out.append(("pattern", ast.unparse(part)))
        return out

    def ev(self, src: str, self_value: Any) -> bool:
        try:
            return eval("lambda self: " + src, self.ns)(self_value) is True
        except BaseException:  # noqa
            return False

    def atoms_for(self, cls: str, prop: str, depth: int) -> List[Tuple[str, Any, Optional[str]]]:
        """[(kind, predicate on a value, set name)] for the value at nesting `depth` of `prop` as seen in `cls`"""
        preds: List[Tuple[str, Any, Optional[str]]] = []
        t = self.beneath_optional(self.visible_props(cls)[prop])
        if depth == 0:
            for a in self.ancestors(cls):
                for body in self.classes[a]["invs"]:
                    for q, kind, src, sname in self.class_atoms(body):
                        if q == prop:
                            preds.append((kind, (lambda v, src=src: self.ev(src, _types_mod.SimpleNamespace(**{prop: v}))), sname))
        for _ in range(depth):
            if not (isinstance(t, ast.Subscript) and isinstance(t.value, ast.Name) and t.value.id == "List"):
                return []
            t = self.beneath_optional(t.slice)
        if isinstance(t, ast.Name) and t.id in self.classes and self.kind(t.id).startswith("cp:"):
            for kind, src in self.cp_atoms(t.id):
                preds.append((kind, (lambda v, src=src: self.ev(src, v)), None))
        return preds

    def type_at(self, cls: str, prop: str, depth: int) -> Optional[ast.AST]:
        t = self.beneath_optional(self.visible_props(cls)[prop])
        for _ in range(depth):
            if not (isinstance(t, ast.Subscript) and isinstance(t.value, ast.Name) and t.value.id == "List"):
                return None
            t = self.beneath_optional(t.slice)
        return t

    def candidates(self, t: ast.AST) -> List[Any]:
        p = self.prim_of(t)
        if p == "str":
            out: List[Any] = []
            for n in range(0, 10):
                out += ["a" * n, "b" * n, ("ab" * n)[:n]]
            return list(dict.fromkeys(out + ["c", "ab", "aaaa", "zz", "RED"]))
        if p == "bytearray":
            return [bytearray(n) for n in range(0, 10)]
        if p == "list":
            return [["x"] * n for n in range(0, 10)]
        if p == "int":
            return [-1, 0, 1, 2, 3]
        if p is not None and p.startswith("enum:"):
            return list(self.ns[p[5:]])
        return []

    def justified_errors(self) -> List[str]:
        """Reasons for which an error report is legitimate."""
        why = []
        for cname, c in self.classes.items():
            if self.kind(cname) != "class":
                continue
            vis = self.visible_props(cname)
            for body in c["invs"]:
                for q, kind, _src, sname in self.class_atoms(body):
                    if kind in ("len", "set") and q not in vis:
                        why.append(f"{cname}: recognised {kind} invariant on the unknown property {q}")
                    elif kind == "set":
                        elem = self.const_sets[sname]  # type: ignore
                        p = self.prim_of(self.beneath_optional(vis[q]))
                        want = "enum:" + elem if elem in self.classes else elem
                        if p != want:
                            why.append(f"{cname}.{q}: member of a set of {elem} but typed {ast.unparse(vis[q])}")
        return why

    def len_unsat(self) -> List[str]:
        out = []
        for cname in self.classes:
            k = self.kind(cname)
            if k == "enum":
                continue
            if k.startswith("cp:"):
                preds = [f for kind, f in [(kk, (lambda v, src=src: self.ev(src, v))) for kk, src in self.cp_atoms(cname)] if kind == "len"]
                if preds and not any(all(f(_Sized(n)) for f in preds) for n in range(0, 80)):
                    out.append(cname)
                continue
            for prop in self.visible_props(cname):
                for depth in (0, 1):
                    preds = [f for kind, f, _ in self.atoms_for(cname, prop, depth) if kind == "len"]
                    if preds and not any(all(f(_Sized(n)) for f in preds) for n in range(0, 80)):
                        out.append(f"{cname}.{prop}" + "[]" * depth)
        return out


def _set_unsat(orc: "MMOracle") -> List[str]:
    """Properties (as seen in a class) whose recognised membership invariants no literal satisfies."""
    out = []
    for cname in orc.classes:
        if orc.kind(cname) != "class":
            continue
        for prop in orc.visible_props(cname):
            preds = orc.atoms_for(cname, prop, 0)
            set_preds = [f for kind, f, _ in preds if kind == "set"]
            if set_preds:
                universe = [x for sname in sorted({s for k, _, s in preds if k == "set"}) for x in orc.ns[sname]]
                if not any(all(f(x) for f in set_preds) for x in universe):
                    out.append(f"{cname}.{prop}")
    return out


def admit_dims(c: Any, v: Any) -> Dict[str, bool]:
    """Which of the inferred length range / pattern list / literal set (infer_for_schema.Constraints or None) admit v."""
    dims = {"len": True, "pattern": True, "set": True}
    if c is None:
        return dims
    try:
        if c.len_constraint is not None:
            lc = c.len_constraint
            if (lc.min_value is not None and len(v) < lc.min_value) or (lc.max_value is not None and len(v) > lc.max_value):
                dims["len"] = False
    except BaseException:  # noqa
        dims["len"] = False
    try:
        if c.patterns is not None:
            for p in c.patterns:
                if _re.match(p.pattern, v) is None:
                    dims["pattern"] = False
    except BaseException:  # noqa
        dims["pattern"] = False
    try:
        if c.set_of_primitives is not None:
            if not any(type(l.value) is type(v) and l.value == v for l in c.set_of_primitives.literals):
                dims["set"] = False
        if c.set_of_enumeration_literals is not None:
            if not any(l.name == getattr(v, "name", None) for l in c.set_of_enumeration_literals.literals):
                dims["set"] = False
    except BaseException:  # noqa
        dims["set"] = False
    return dims


def admit_value(c: Any, v: Any) -> Tuple[bool, str]:
    """Do the inferred constraints `c` admit the value? (+ the first rejecting dimension)"""
    dims = admit_dims(c, v)
    for k in ("len", "pattern", "set"):
        if not dims[k]:
            return False, k
    return True, ""


def judge_mm(source: str, st: Any, verdict: str, raw: Any) -> List[Tuple[str, str]]:
    from aas_core_codegen import intermediate as im

    if verdict.startswith("crash:"):
        return [(f"C15:mm:{verdict}", f"infer_constraints_by_class raised {verdict[6:]}")]
    orc = MMOracle(source)
    unsat = orc.len_unsat()
    if verdict == "err":
        if unsat or orc.justified_errors() or _set_unsat(orc):
            return []
        return [("C15:mm:spurious-error", "errors reported although the recognised constraints are satisfiable")]
    bad: List[Tuple[str, str]] = []
    if unsat:
        bad.append(("C15:mm:unsat-not-reported:len", f"recognised length invariants of {unsat[0]} are unsatisfiable but no error is reported"))
    for cls in st.classes:
        by_value = raw.get(cls, {})
        for prop in cls.properties:
            for depth in (0, 1):
                t = orc.type_at(cls.name, prop.name, depth)
                if t is None:
                    continue
                anno = im.beneath_optional(prop.type_annotation)
                for _ in range(depth):
                    anno = im.beneath_optional(anno.items)
                c = by_value.get(anno, None)
                preds = orc.atoms_for(cls.name, prop.name, depth)
                where = f"{cls.name}.{prop.name}" + "[]" * depth
                set_preds = [f for kind, f, _ in preds if kind == "set"]
                if set_preds:
                    universe = [x for sname in {s for k, _, s in preds if k == "set"} for x in orc.ns[sname]]
                    if not any(all(f(x) for f in set_preds) for x in universe):
                        bad.append(("C15:mm:unsat-not-reported:set", f"no literal satisfies all the set invariants of {where} but no error is reported"))
                for v in orc.candidates(t):
                    adm, dim = admit_value(c, v)
                    failing = [kind for kind, f, _ in preds if not f(v)]
                    if adm and failing:
                        bad.append((f"C15:mm:constraint-missed:{failing[0]}", f"{where}: value {v!r} violates a recognised {failing[0]} invariant but the inferred constraints admit it"))
                        break
                    if not adm and not failing:
                        bad.append((f"C15:mm:misread:{dim}", f"{where}: value {v!r} satisfies all recognised invariants but the inferred {dim} constraint rejects it"))
                        break
                    # the three inferred parts one by one ("the inferred length range, pattern list and literal set admit a
                    # value exactly when all recognised length, pattern and membership invariants hold"): a lost bound must
                    # not hide behind a pattern that happens to reject the same values
                    dims = admit_dims(c, v)
                    part = next((k for k in ("len", "pattern", "set") if dims[k] != (k not in failing)), None)
                    if part is not None and dims[part]:
                        bad.append((f"C15:mm:constraint-missed:{part}", f"{where}: value {v!r} violates a recognised {part} invariant but the inferred {part} constraint admits it (another part rejects it)"))
                        break
                    if part is not None:
                        bad.append((f"C15:mm:misread:{part}", f"{where}: value {v!r} satisfies all recognised {part} invariants but the inferred {part} constraint rejects it"))
                        break
    return bad


# --------------------------------------------------------------------------- meta-model streams

_SKELETON_PROPS = [
    ("alpha", "str"), ("beta", "Optional[str]"), ("gamma", "List[str]"), ("kappa", "Small_text"),
    ("eta", "Optional[Color]"), ("zeta", "bytearray"), ("theta", "List[Tiny_text]"),
]

FORMS = [
    # recognised length forms, both operand orders, all operators, around zero
    *[f"len(self.alpha) {op} {c}" for op in ["<", "<=", "==", ">", ">=", "!="] for c in (0, 3)],
    *[f"{c} {op} len(self.alpha)" for op in ["<", "<=", "==", ">", ">=", "!="] for c in (0, 3)],
    "len(self.alpha) < 0", "len(self.alpha) >= -2", "len(self.alpha) == -1", "len(self.gamma) <= 2", "len(self.zeta) >= 1",
    "self.beta is None or len(self.beta) < 5", "not (self.beta is not None) or 2 <= len(self.beta)",
    # near misses
    "self.beta is None or len(self.alpha) < 5", "not (self.beta is not None) or len(self.alpha) < 5",
    "len(self.alpha) > 1 and len(self.alpha) < 4", "not (len(self.alpha) < 4)", "self.beta is None or len(self.beta) < 2 or len(self.beta) > 4",
    "len(self.alpha) < len(self.gamma)", "len(self.alpha) + 1 < 5", "len(self.missing) < 3", "len(self.kappa) <= 2", "len(self.kappa) >= 9",
    # patterns
    "matches_as(self.alpha)", "matches_as(self.alpha) and matches_ab(self.alpha)", "matches_as(self.alpha) and matches_ab(self.beta)",
    "self.beta is None or matches_as(self.beta)", "self.beta is None or matches_as(self.alpha)",
    "not (self.beta is not None) or (matches_as(self.beta) and matches_short(self.alpha))", "is_nice(self.alpha)",
    "not matches_as(self.alpha)", "matches_as(self.alpha) or matches_ab(self.alpha)", "matches_as(self.missing)",
    "len(self.alpha) < 3 and matches_as(self.alpha)", "matches_short(self.kappa)",
    # sets
    "self.alpha in Set_ab", "self.alpha in Set_ab and self.alpha in Set_bc", "self.alpha in Set_ab and self.beta in Set_bc",
    "self.beta is None or self.beta in Set_bc", "self.beta is None or self.alpha in Set_bc",
    "self.beta is None or (self.beta in Set_ab and self.alpha in Set_bc)", "self.alpha in Unknown_set", "self.alpha in Some_text",
    "not (self.alpha in Set_ab)", "self.alpha in Set_int", "self.alpha in Set_warm", "self.eta in Set_warm",
    "self.eta is None or (self.eta in Set_warm and self.eta in Set_cold)", "self.missing in Set_ab", "self.gamma in Set_ab", "self.kappa in Set_bc",
    "self.alpha in Set_ab and self.alpha in Set_c",
]

PAIRS = [
    # (parent invariants, child invariants)
    (["len(self.alpha) <= 3"], ["len(self.alpha) >= 5"]),
    (["len(self.alpha) >= 0"], ["len(self.alpha) <= 5"]),
    (["len(self.alpha) == 5"], ["self.alpha is None or len(self.alpha) == 5"]),
    (["len(self.alpha) == 5"], ["len(self.alpha) == 4"]),
    (["len(self.alpha) > 1"], ["len(self.alpha) < 4"]),
    (["len(self.kappa) >= 2"], ["len(self.kappa) <= 2"]),
    (["len(self.kappa) >= 9"], []),
    (["matches_as(self.alpha)"], ["matches_as(self.alpha) and matches_ab(self.alpha)"]),
    (["self.alpha in Set_ab"], ["self.alpha in Set_bc"]),
    (["self.alpha in Set_bc"], ["self.alpha in Set_bc", "self.alpha in Set_ab"]),
    (["self.eta in Set_warm"], ["self.eta in Set_cold"]),
    (["self.alpha in Set_ab"], ["self.alpha in Set_c"]),
    (["len(self.theta) < 3", "len(self.gamma) >= 1"], ["len(self.theta) >= 1", "matches_ab(self.alpha)"]),
]

CP_VARIANTS = [
    ([], []),
    (["len(self) <= 6"], ["len(self) >= 1"]),
    (["len(self) >= 1", "matches_ab(self)"], ["matches_as(self) and matches_short(self)", "len(self) != 2"]),
    (["len(self) <= 3"], ["len(self) >= 5"]),
    (["len(self) == 0"], []),
    (["len(self) > 1 and len(self) < 3", "not matches_as(self)", "is_nice(self)"], ["3 >= len(self)", "len(self) >= 0"]),
    (["len(self) < 0"], []),
]


def skeleton_source(parent_invs: Sequence[str], child_invs: Sequence[str], small: Sequence[str] = (), tiny: Sequence[str] = ()) -> str:
    k = [0]

    def invs(bodies: Sequence[str]) -> str:
        s = ""
        for b in bodies:
            k[0] += 1
            s += f'@invariant(\n    lambda self: {b},\n    "Constraint {k[0]}"\n)\n'
        return s

    req = [(n, t) for n, t in _SKELETON_PROPS if not t.startswith("Optional[")]
    opt = [(n, t) for n, t in _SKELETON_PROPS if t.startswith("Optional[")]
    args = ", ".join(["self"] + [f"{n}: {t}" for n, t in req] + [f"{n}: {t} = None" for n, t in opt])
    return (
        HEADER_TEXT
        + "\n\n" + invs(small) + "class Small_text(str):\n    pass\n"
        + "\n\n" + invs(tiny) + "class Tiny_text(Small_text):\n    pass\n"
        + "\n\nclass Some_blob(bytearray):\n    pass\n"
        + "\n\n" + invs(parent_invs) + "class Base_thing:\n"
        + "".join(f"    {n}: {t}\n" for n, t in _SKELETON_PROPS)
        + f"\n    def __init__({args}) -> None:\n"
        + "".join(f"        self.{n} = {n}\n" for n, _ in _SKELETON_PROPS)
        + "\n\n" + invs(child_invs) + "class Leaf_thing(Base_thing):\n"
        + f"    def __init__({args}) -> None:\n"
        + f"        Base_thing.__init__({', '.join(['self'] + [f'{n}={n}' for n, _ in _SKELETON_PROPS])})\n"
        + FOOTER_TEXT
    )


# --------------------------------------------------------------------------- inheritance: DAGs of classes, chains of constrained primitives
#
# `infer_constraints_by_class` stacks, in topological order, the constraints of EVERY direct parent onto the class's
# own ones (keyed by the type-annotation object of the inherited property), and `_infer_constraints_by_constrained_
# primitive` does the same along the chains of constrained primitives, which the front end accepts in any declaration
# order.  The inputs below put recognised constraints of every kind on one inherited property at several places of a
# DAG (both parents of a diamond, a grand-parent reached through one parent only, a third parent, the class itself),
# consistent as well as contradicting, and declare chains of constrained primitives in every order.

STD_CPS: List[Tuple[str, str, List[str]]] = [
    ("Small_text", "str", ["len(self) <= 6"]),
    ("Tiny_text", "Small_text", ["len(self) >= 1"]),
    ("Some_blob", "bytearray", []),
]


def inherit_source(classes: Sequence[Dict[str, Any]], cps: Sequence[Tuple[str, str, Sequence[str]]] = STD_CPS, cps_last: bool = False) -> str:
    """classes = [{name, parents, props: [(name, type text)], invs: [body], abstract?}] in declaration order (parents
    first: a constructor can only be in-lined that way); cps = [(name, base, [body])] in ANY declaration order.
    Constructors are written canonically (call every parent that has properties with keywords, assign the own ones)."""
    k = [0]

    def invs(bodies: Sequence[str]) -> str:
        text = ""
        for b in bodies:
            k[0] += 1
            text += f'@invariant(\n    lambda self: {b},\n    "Constraint {k[0]}"\n)\n'
        return text

    by = {c["name"]: c for c in classes}

    def visible(n: str) -> List[Tuple[str, str]]:
        res: List[Tuple[str, str]] = []
        for q in by[n]["parents"]:
            for x in visible(q):
                if x not in res:
                    res.append(x)
        return res + [tuple(x) for x in by[n]["props"]]  # type: ignore

    cp_text = ["\n" + invs(bodies) + f"class {name}({base}):\n    pass\n" for name, base, bodies in cps]
    cls_text = []
    for c in classes:
        allp = visible(c["name"])
        req = [(n, t) for n, t in allp if not t.startswith("Optional[")]
        opt = [(n, t) for n, t in allp if t.startswith("Optional[")]
        args = ", ".join(["self"] + [f"{n}: {t}" for n, t in req] + [f"{n}: {t} = None" for n, t in opt])
        body = []
        for q in c["parents"]:
            pv = visible(q)
            if pv:
                body.append(f"        {q}.__init__({', '.join(['self'] + [f'{n}={n}' for n, _ in pv])})\n")
        for n, _ in c["props"]:
            body.append(f"        self.{n} = {n}\n")
        bases = ", ".join(c["parents"])
        cls_text.append(
            "\n"
            + ("@abstract\n" if c.get("abstract") else "")
            + invs(c["invs"])
            + f"class {c['name']}{'(' + bases + ')' if bases else ''}:\n"
            + "".join(f"    {n}: {t}\n" for n, t in c["props"])
            + (f"\n    def __init__({args}) -> None:\n" + "".join(body) if allp else "    pass\n")
        )
    parts = [HEADER_TEXT] + (cls_text + cp_text if cps_last else cp_text + cls_text) + [FOOTER_TEXT]
    return "\n".join(parts)


# one inherited property constrained at several places: T = the common root, L / R = the two lines of descent that
# meet again, D = the class where they meet (own invariants).  `err` marks the combinations that must be reported.
KITS: List[Dict[str, Any]] = [
    # lengths of `alpha: str`
    {"L": ["len(self.alpha) >= 2"], "R": ["len(self.alpha) <= 5"]},
    {"L": ["len(self.alpha) <= 3"], "R": ["len(self.alpha) >= 5"], "err": True},
    {"L": ["len(self.alpha) == 4"], "R": ["4 == len(self.alpha)"]},
    {"L": ["len(self.alpha) == 2"], "R": ["len(self.alpha) >= 3"], "err": True},
    {"T": ["len(self.alpha) >= 1"], "L": ["len(self.alpha) >= 2"], "R": ["3 <= len(self.alpha)"], "D": ["len(self.alpha) <= 7"]},
    {"L": ["len(self.alpha) <= 3"], "D": ["len(self.alpha) >= 5"], "err": True},
    {"R": ["len(self.alpha) <= 3"], "D": ["len(self.alpha) >= 5"], "err": True},
    {"T": ["len(self.alpha) <= 3"], "D": ["len(self.alpha) >= 5"], "err": True},
    {"L": ["len(self.alpha) >= 2"], "R": ["len(self.alpha) <= 1"], "D": ["len(self.alpha) <= 4"], "err": True},
    {"L": ["len(self.alpha) <= 3"], "R": ["len(self.alpha) >= 5"], "D": ["len(self.alpha) >= 1"], "err": True},
    {"L": ["len(self.alpha) <= 6"], "R": ["len(self.alpha) <= 4"], "D": ["len(self.alpha) <= 5"]},
    {"T": ["len(self.alpha) >= 1"], "L": ["len(self.alpha) <= 6"]},
    {"T": ["len(self.alpha) >= 1"], "R": ["len(self.alpha) <= 6"]},
    {"L": ["len(self.alpha) > 1 and len(self.alpha) < 9", "len(self.alpha) >= 3"], "R": ["len(self.alpha) != 4", "len(self.alpha) < 6"]},
    # optional, list, byte array
    {"L": ["self.beta is None or len(self.beta) >= 2"], "R": ["not (self.beta is not None) or len(self.beta) <= 5"]},
    {"L": ["self.beta is None or len(self.beta) <= 1"], "R": ["self.beta is None or 3 <= len(self.beta)"], "err": True},
    {"L": ["len(self.gamma) >= 1"], "R": ["len(self.gamma) <= 2"], "D": ["len(self.gamma) >= 2"]},
    {"L": ["len(self.zeta) >= 1"], "R": ["len(self.zeta) == 3"]},
    # patterns
    {"L": ["matches_as(self.alpha)"], "R": ["matches_short(self.alpha)"]},
    {"L": ["matches_ab(self.alpha)"], "R": ["matches_ab(self.alpha)"], "D": ["matches_as(self.alpha)"]},
    {"T": ["matches_ab(self.alpha)"], "L": ["matches_as(self.alpha)"], "D": ["matches_short(self.alpha)"]},
    {"L": ["self.beta is None or matches_as(self.beta)"], "R": ["self.beta is None or (matches_ab(self.beta) and matches_short(self.beta))"]},
    # constant sets
    {"L": ["self.alpha in Set_ab"], "R": ["self.alpha in Set_bc"]},
    {"L": ["self.alpha in Set_ab"], "R": ["self.alpha in Set_ab"], "D": ["self.alpha in Set_bc"]},
    {"T": ["self.alpha in Set_bc"], "R": ["self.alpha in Set_ab"]},
    {"L": ["self.alpha in Set_ab"], "R": ["self.alpha in Set_c"]},  # no common literal: must be reported (former finding C15-F1)
    {"L": ["self.eta in Set_warm"], "R": ["self.eta is None or self.eta in Set_cold"]},
    # different kinds meet on one property
    {"L": ["len(self.alpha) >= 2"], "R": ["matches_as(self.alpha)"], "D": ["self.alpha in Set_bc"]},
    {"L": ["matches_ab(self.alpha)"], "R": ["len(self.alpha) <= 3"]},
    {"L": ["self.alpha in Set_ab"], "R": ["len(self.alpha) >= 2"]},
    # properties typed by constrained primitives (Small_text: len <= 6, Tiny_text: additionally len >= 1), lists of them
    {"L": ["len(self.kappa) >= 2"], "R": ["len(self.kappa) <= 4"]},
    {"L": ["len(self.kappa) >= 2"], "R": ["len(self.kappa) >= 9"], "err": True},
    {"L": ["matches_as(self.kappa)"], "R": ["len(self.kappa) >= 2"]},
    {"L": ["len(self.theta) <= 2"], "R": ["len(self.theta) >= 1"]},
    # different properties (nothing to merge)
    {"L": ["len(self.alpha) >= 2"], "R": ["self.beta is None or len(self.beta) <= 5"]},
]


def _cls(name: str, parents: Sequence[str], invs: Sequence[str] = (), props: Sequence[Tuple[str, str]] = (), abstract: bool = False) -> Dict[str, Any]:
    return {"name": name, "parents": list(parents), "props": [tuple(x) for x in props], "invs": list(invs), "abstract": abstract}


def dag_shapes(kit: Dict[str, Any]) -> Dict[str, List[Dict[str, Any]]]:
    T, L, R, D = (list(kit.get(x, [])) for x in "TLRD")
    top = _cls("Top_thing", [], T, _SKELETON_PROPS, abstract=True)
    return {
        # both parents constrain the property of the common root
        "diamond": [top, _cls("Left_thing", ["Top_thing"], L), _cls("Right_thing", ["Top_thing"], R), _cls("Leaf_thing", ["Left_thing", "Right_thing"], D)],
        "diamond-rev": [top, _cls("Left_thing", ["Top_thing"], L), _cls("Right_thing", ["Top_thing"], R), _cls("Leaf_thing", ["Right_thing", "Left_thing"], D)],
        # a grand-parent (through a silent parent) and a parent
        "grand": [top, _cls("Left_thing", ["Top_thing"], L), _cls("Right_thing", ["Top_thing"], R), _cls("Mid_thing", ["Left_thing"], [], [("iota", "str")]),
                  _cls("Leaf_thing", ["Mid_thing", "Right_thing"], D)],
        # the join is itself inherited further; the redundant edge repeats a grand-parent as a parent
        "below": [top, _cls("Left_thing", ["Top_thing"], L), _cls("Right_thing", ["Top_thing"], R), _cls("Mid_thing", ["Left_thing", "Right_thing"], []),
                  _cls("Leaf_thing", ["Mid_thing", "Left_thing"], D)],
        # three parents; the first one is silent
        "triple": [top, _cls("Other_thing", ["Top_thing"], []), _cls("Left_thing", ["Top_thing"], L), _cls("Right_thing", ["Top_thing"], R),
                   _cls("Leaf_thing", ["Other_thing", "Left_thing", "Right_thing"], D)],
        # one line of descent only (parent and grand-parent of a chain), beside an unrelated second parent
        "unrelated": [top, _cls("Left_thing", ["Top_thing"], L + R), _cls("Other_thing", [], ["len(self.rho) >= 1"], [("rho", "str"), ("sigma", "Optional[Small_text]")]),
                      _cls("Leaf_thing", ["Left_thing", "Other_thing"], D + ["len(self.rho) <= 4", "self.sigma is None or len(self.sigma) >= 2"])],
    }


CP_KITS: List[Tuple[str, List[List[str]], bool]] = [
    # (constrainee, invariants per level from the root down, must be reported)
    ("str", [["len(self) >= 1"], ["len(self) <= 7"], ["matches_ab(self)"], ["len(self) >= 2"]], False),
    ("str", [["matches_ab(self)"], [], ["len(self) <= 5"], ["matches_as(self) and matches_short(self)"]], False),
    ("str", [["len(self) <= 3"], [], ["len(self) >= 5"], []], True),
    ("str", [["len(self) >= 1", "len(self) <= 8"], ["2 <= len(self)"], ["len(self) >= 3"], ["len(self) == 3"]], False),
    ("bytearray", [["len(self) >= 1"], [], ["len(self) < 6"], ["len(self) >= 2"]], False),
]
CHAIN_NAMES = ["Code_a", "Code_b", "Code_c", "Code_d"]


def cp_chain_source(kit: int, length: int, order: Sequence[int], holder_first: bool, diamond: bool = False, naming: int = 0) -> str:
    """A chain Code_a <- Code_b <- ... of `length` constrained primitives declared in the order `order` (indices into
    the chain), used as property, optional property, list item and optional list of a class.  `diamond`: the last one
    inherits from the two before it, which both inherit from the first (needs length 4)."""
    base, levels, _ = CP_KITS[kit]
    # the names must not be correlated with the chain: alphabetical = root first (0), leaf first (1), mixed (2)
    names = CHAIN_NAMES[:length]
    names = names if naming % 3 == 0 else names[::-1] if naming % 3 == 1 else names[1::2] + names[0::2]
    parents = [base] + names[: length - 1]
    if diamond:
        parents = [base, names[0], names[0], f"{names[1]}, {names[2]}"]
    cps = [(names[i], parents[i], levels[i]) for i in order]
    last, mid = names[-1], names[max(0, length - 2)]
    holder = _cls(
        "Holder_thing", [], [f"len(self.direct) <= 6", "self.perhaps is None or len(self.perhaps) >= 1"],
        [("direct", last), ("perhaps", f"Optional[{last}]"), ("items", f"List[{last}]"), ("middle", mid), ("perhaps_items", f"Optional[List[{mid}]]"), ("first", names[0])],
    )
    user = _cls("User_thing", ["Holder_thing"], ["len(self.items) >= 1"] + ([] if base != "str" else ["matches_ab(self.middle)"]))
    return inherit_source([holder, user], cps, cps_last=holder_first)


def inherit_enumerated(ctx: Ctx) -> Iterator[Tuple[str, str]]:
    """Seed-independent: every kit on both orders of the diamond's base list, every third kit on each other shape;
    chains of 2-4 constrained primitives: the first kit in EVERY declaration order, the others in every order of three
    and every fourth order of four; diamonds of constrained primitives in six orders."""
    for i, kit in enumerate(KITS):
        shapes = dag_shapes(kit)
        for j, name in enumerate(["diamond", "diamond-rev", "grand", "below", "triple", "unrelated"]):
            if j < 2 or (i + j) % 3 == 0 or (ctx.tier != "quick"):
                yield inherit_source(shapes[name]), "mm-inherit-enumerated"
    for kit in range(len(CP_KITS)):
        n = 0
        for length in (2, 3, 4):
            for order in itertools.permutations(range(length)):
                n += 1
                if kit == 0 or length == 3 or (length == 4 and n % 4 == kit % 4) or ctx.tier != "quick":
                    yield cp_chain_source(kit, length, order, holder_first=(n % 2 == 0), naming=n + kit), "mm-cpchain-enumerated"
    for kit in (0, 2, 3):
        for k, order in enumerate(([0, 1, 2, 3], [3, 2, 1, 0], [3, 0, 1, 2], [1, 3, 2, 0], [2, 1, 3, 0], [0, 3, 1, 2])):
            yield cp_chain_source(kit, 4, order, holder_first=False, diamond=True, naming=k), "mm-cpchain-enumerated"


def gen_inherit_source(rng: Any) -> str:
    """Seeded: a DAG of 3-6 classes (every class after the first gets 1-3 earlier parents, so diamonds and unrelated
    parents both occur), own properties with unique names, random recognised forms / near misses over the visible
    properties; 2-4 constrained primitives in a chain or a diamond, declared in a shuffled order."""
    n_cp = rng.randint(2, 4)
    names = CHAIN_NAMES[:n_cp]
    rng.shuffle(names)  # alphabetical order unrelated to the chain
    stringy = rng.random() < 0.8
    parents = ["str" if stringy else "bytearray"] + names[: n_cp - 1]
    if n_cp == 4 and rng.random() < 0.3:
        parents = [parents[0], names[0], names[0], f"{names[1]}, {names[2]}"]
    cps = [(names[i], parents[i], [gen_cp_invariant(rng, stringy) for _ in range(rng.choice([0, 1, 1, 2]))]) for i in range(n_cp)]
    if rng.random() < 0.7:
        rng.shuffle(cps)
    cps += list(STD_CPS)
    type_pool = [
        "str", "str", "Optional[str]", "bytearray", "List[str]", "Small_text", "Optional[Tiny_text]", "Color", "Optional[Color]",
        names[-1], f"Optional[{names[-1]}]", f"List[{names[-1]}]", names[n_cp // 2], f"Optional[List[{names[0]}]]",
    ]
    if not stringy:
        type_pool = [t for t in type_pool if "Code_" not in t] + [names[-1], f"List[{names[-1]}]", f"Optional[{names[1]}]"]
    pool = list(PROP_NAMES) + ["rho", "sigma", "tau", "phi"]
    rng.shuffle(pool)
    cnames = ["Top_thing", "Left_thing", "Right_thing", "Mid_thing", "Other_thing", "Leaf_thing"]
    classes: List[Dict[str, Any]] = []
    visible: Dict[str, List[Tuple[str, str]]] = {}
    for i in range(rng.randint(3, 6)):
        k = 0 if i == 0 else rng.choice([1, 1, 2, 2, 3]) if rng.random() < 0.9 else 0
        ps = sorted(rng.sample(range(i), min(k, i)))
        if rng.random() < 0.5:
            ps.reverse()
        own = [(pool.pop(), rng.choice(type_pool)) for _ in range(rng.randint(2, 3) if not ps else rng.choice([0, 0, 1])) if pool]
        vis: List[Tuple[str, str]] = []
        for q in ps:
            vis += [x for x in visible[cnames[q]] if x not in vis]
        vis += own
        visible[cnames[i]] = vis
        bodies = [gen_invariant(rng, vis) for _ in range(rng.choice([0, 0, 1, 1, 2]))] if vis else []
        # favour the recognised plain forms on INHERITED properties, so that the lines of descent interact
        inherited = [x for x in vis if x not in own]
        if inherited and rng.random() < 0.7:
            q, t = rng.choice(inherited)
            bt = t[9:-1] if t.startswith("Optional[") else t
            guard = (lambda b: f"self.{q} is None or {b}") if t.startswith("Optional[") else (lambda b: b)
            if bt == "Color":
                bodies.append(guard(f"self.{q} in {rng.choice(ENUM_SETS)}"))
            elif bt in ("str", "Small_text", "Tiny_text") or (bt.startswith("Code_") and stringy):
                bodies.append(guard(rng.choice([_cmp_text(rng, f"self.{q}"), f"{rng.choice(PATTERN_FUNCS)[0]}(self.{q})", f"self.{q} in {rng.choice(STR_SETS)}" if bt == "str" else _cmp_text(rng, f"self.{q}")])))
            else:
                bodies.append(guard(_cmp_text(rng, f"self.{q}")))
        classes.append(_cls(cnames[i], [cnames[q] for q in ps], bodies, own, abstract=rng.random() < 0.3))
    return inherit_source(classes, cps, cps_last=rng.random() < 0.3)


def mm_inputs(ctx: Ctx) -> Iterator[Tuple[str, str]]:
    for c in corpus(ID):
        if c.get("fn") == "mm":
            yield c["source"], "mm-corpus"
    for f in FORMS:
        yield skeleton_source([f], []), "mm-enumerated"
        yield skeleton_source([], [f]), "mm-enumerated"
    for p, c in PAIRS:
        yield skeleton_source(p, c), "mm-enumerated"
        yield skeleton_source(p + c, []), "mm-enumerated"
    for s, t in CP_VARIANTS:
        yield skeleton_source(["len(self.kappa) >= 1"], ["len(self.theta) <= 4"], s, t), "mm-enumerated"
    yield from inherit_enumerated(ctx)
    for _ in range(ctx.n(500, 12000)):
        yield gen_source(ctx.rng), "mm-random"
    for _ in range(ctx.n(110, 2500)):
        yield gen_inherit_source(ctx.rng), "mm-inherit-random"


def _norm(x: str) -> str:
    return "crash" if x.startswith("crash:") else x


def _shape_tags(st: Any) -> List[str]:
    """Which inheritance situations a symbol table contains (for the coverage record)."""
    tags = set()
    constrained = lambda c: any(i.specified_for is c for i in c.invariants)  # noqa: E731
    for cls in st.classes:
        if len(cls.inheritances) >= 2:
            lines = [{id(p)} | set(p.ancestor_id_set) for p in cls.inheritances]
            shared = any(lines[i] & lines[j] for i in range(len(lines)) for j in range(i))
            tags.add("class-diamond" if shared else "class-unrelated-parents")
            n = sum(1 for p in cls.inheritances if constrained(p) or any(constrained(a) for a in p.ancestors))
            if shared and n >= 2:
                tags.add("class-two-constrained-lines-of-descent")
        if len(cls.ancestors) >= 2 and len(cls.inheritances) == 1:
            tags.add("class-chain>=3")
    order = {id(cp): i for i, cp in enumerate(st.constrained_primitives)}
    for cp in st.constrained_primitives:
        depth = len(cp.ancestors)
        if depth >= 2:
            tags.add("cp-chain>=3")
        if any(order[id(p)] > order[id(cp)] for p in cp.inheritances):
            tags.add("cp-declared-before-parent")
            if depth >= 2:
                tags.add("cp-declared-before-parent-with-grand-parent")
        if len(cp.inheritances) >= 2:
            tags.add("cp-multiple-parents")
    return sorted(tags)


def run_mm(ctx: Ctx, with_model: bool, sources: Optional[Sequence[Tuple[str, str]]] = None) -> List[Dict[str, Any]]:
    items = []
    for src, stream in (sources if sources is not None else mm_inputs(ctx)):
        st, why = front_end(src)
        if st is None:
            ctx.hit("mm:rejected-by-front-end:" + why)
            ctx.count(src, nontrivial=False, stream=stream)
            continue
        wire = Wire()
        try:
            line = "infer " + wire.table(st)
        except ValueError as e:
            ctx.hit("mm:unencodable")
            ctx.note(f"symbol table not encodable: {e}")
            continue
        verdict, dump, raw = impl_infer(st, wire)
        items.append({"src": src, "stream": stream, "st": st, "line": line, "verdict": verdict, "dump": dump, "raw": raw})
        for tag in _shape_tags(st):
            ctx.hit(f"mm:shape:{tag}:{_norm(verdict)}")
    mouts = ctx.model([it["line"] for it in items]) if with_model else []
    results = []
    for k, it in enumerate(items):
        ctx.count(it["src"], nontrivial="@invariant" in it["src"], stream=it["stream"])
        ctx.hit("mm:" + _norm(it["verdict"]))
        res: Dict[str, Any] = {"impl": it["verdict"], "impl_result": it["dump"]}
        if it["verdict"] == "ok":
            n = sum(len(d) for d in it["dump"].values())
            ctx.hit("mm:ok:with-constraints" if n else "mm:ok:no-constraints")
            for d in it["dump"].values():
                for ln, pats, prims, enums in d.values():
                    for name, present in (("len", ln != "N"), ("patterns", pats is not None), ("prims", prims is not None), ("enums", enums is not None)):
                        if present:
                            ctx.hit("mm:inferred:" + name)
        if k % 97 == 0:
            ctx.sample({"invariants": _re.findall(r"lambda self: (.*),\n", it["src"])[:6], "impl": it["verdict"], "result": str(it["dump"])[:300]})
        if with_model:
            ctx.traces_validated += 1
            m = mouts[k]
            res["model"] = m
            if it["verdict"] == "ok":
                same = m.startswith("ok ") and parse_model_dump(m[3:]) == it["dump"]
                same = same or (m == "ok" and it["dump"] == {})
            else:
                same = _norm(m) == _norm(it["verdict"])
            if not same:
                ctx.disagree("infer_constraints_by_class", {"fn": "mm", "source": it["src"]}, f"{it['verdict']} {it['dump']}", m)
        verdicts = judge_mm(it["src"], it["st"], it["verdict"], it["raw"])
        res["oracle"] = verdicts
        for sig, what in verdicts:
            ctx.fail({"fn": "mm", "source": it["src"]}, what, sig)
        results.append(res)
    return results


def correspond(ctx: Ctx) -> None:
    ctx.extra_cov["rule"] = (
        "direct calls: every operator x side x constant in [-3,70]; all bound lists of length <=3 over 15 bounds and of "
        "length 4 over 12 (quick) / 18 (thorough) bounds + seeded random longer lists; all pairs of 29 small ranges + random; "
        "all tuples of <=3 literal lists of length <=2 over 3 values (with repetitions) for both set kinds + random; "
        "meta-models: one skeleton text per recognised form / near miss (parent and child position), parent/child pairs, "
        "constrained-primitive variants; inheritance: 35 kits (one inherited property constrained by two lines of descent, "
        "the root and the join: every constraint kind, consistent and contradicting) on both base-list orders of a diamond "
        "and on a third (quick) / all (thorough) of four further DAG shapes (grand-parent + parent, join inherited further "
        "with a redundant edge, three parents, unrelated second parent); chains of 2-4 constrained primitives in every "
        "declaration order (first kit; the other four in every order of three and a quarter of the orders of four; all in "
        "thorough), diamonds of constrained primitives, each used as property, optional property, list item and optional "
        "list; then seeded random texts (1-4 classes, chains, 14 property types) and seeded random DAGs of 3-6 classes over "
        "shuffled chains/diamonds of constrained primitives. "
        "non-trivial = more than one bound/list resp. a text with at least one invariant; distinct by request value"
    )
    ctx.assumptions.append(
        "C15: the symbol-table encoder (Wire) and the recognised-form classifier of the oracle (MMOracle) are trusted; "
        "the stacking order of infer_constraints_by_class and the self-forms of constrained primitives are validated by "
        "correspondence and the oracle, not proved"
    )
    run_direct(ctx, True)
    run_mm(ctx, True)


def oracle(ctx: Ctx) -> None:
    # The direct oracles run on every correspondence input (run_direct / run_mm); alone when the driver is
    # unavailable or while searching with a larger budget.
    if not ctx.driver_ok or ctx.searching:
        run_direct(ctx, False)
        run_mm(ctx, False)


def replay(ctx: Ctx, data: Dict[str, Any]) -> Any:
    inp = data["failure"]["input"] if "failure" in data else data.get("input", data)
    if inp.get("fn") == "mm":
        res = run_mm(ctx, ctx.driver_ok, [(inp["source"], "replay")])
        return res[0] if res else {"impl": "rejected by the front end"}
    q = dict(inp, stream="replay")
    got = direct_impl(q)
    out: Dict[str, Any] = {"request": direct_line(q), "impl": got, "oracle": direct_judge(q, got) if got is not None else []}
    if ctx.driver_ok:
        out["model"] = ctx.model([direct_line(q)])[0]
    return out
