"""C15 — schema constraint inference: extractor, correspondence with Model.Len / Model.Infer, direct oracle."""
from __future__ import annotations

import ast
import pathlib
from typing import Any, Dict, Iterator, List, Optional, Sequence, Tuple

from harness.core import Ctx, corpus, crash_name
from harness.extract import ExtractError, HEADER, _class, _func, _parse

ID = "C15"
GEN = ["Len"]

# --------------------------------------------------------------------------- extractor (Gen/Len.lean)

_OPS = {"LT": "lt", "LE": "le", "GT": "gt", "GE": "ge", "EQ": "eq", "NE": "ne"}
_KINDS = {"_MinLength": "min", "_MaxLength": "max", "_ExactLength": "exact"}


def _is_not_none(node: ast.AST) -> Optional[str]:
    if (
        isinstance(node, ast.Compare)
        and len(node.ops) == 1
        and isinstance(node.ops[0], ast.IsNot)
        and isinstance(node.left, ast.Name)
        and isinstance(node.comparators[0], ast.Constant)
        and node.comparators[0].value is None
    ):
        return node.left.id
    return None


def _chain_rows(first: ast.If) -> List[Tuple[str, Optional[Tuple[str, int]]]]:
    rows: List[Tuple[str, Optional[Tuple[str, int]]]] = []
    cur: ast.stmt = first
    while True:
        if not isinstance(cur, ast.If):
            raise ExtractError("operator chain: expected if/elif")
        t = cur.test
        if not (
            isinstance(t, ast.Compare)
            and len(t.ops) == 1
            and isinstance(t.ops[0], ast.Is)
            and ast.unparse(t.left) == "node.op"
            and ast.unparse(t.comparators[0]).startswith("parse_tree.Comparator.")
        ):
            raise ExtractError(f"operator chain: unexpected test {ast.unparse(t)}")
        opname = ast.unparse(t.comparators[0]).rsplit(".", 1)[1]
        if opname not in _OPS:
            raise ExtractError(f"unknown comparator {opname}")
        body = [s for s in cur.body if not (isinstance(s, ast.Expr) and isinstance(s.value, ast.Constant))]
        if len(body) != 1:
            raise ExtractError(f"operator chain: branch {opname} has {len(body)} statements")
        st = body[0]
        if isinstance(st, ast.Pass):
            rows.append((_OPS[opname], None))
        elif (
            isinstance(st, ast.Assign)
            and len(st.targets) == 1
            and isinstance(st.targets[0], ast.Name)
            and st.targets[0].id == "constraint"
            and isinstance(st.value, ast.Call)
            and isinstance(st.value.func, ast.Name)
            and st.value.func.id in _KINDS
        ):
            kws = {k.arg: k.value for k in st.value.keywords}
            if set(kws) != {"node", "value"} or st.value.args:
                raise ExtractError(f"branch {opname}: unexpected constructor arguments")
            v = kws["value"]
            if isinstance(v, ast.Name) and v.id == "constant":
                delta = 0
            elif (
                isinstance(v, ast.BinOp)
                and isinstance(v.left, ast.Name)
                and v.left.id == "constant"
                and isinstance(v.right, ast.Constant)
                and type(v.right.value) is int
                and isinstance(v.op, (ast.Add, ast.Sub))
            ):
                delta = v.right.value if isinstance(v.op, ast.Add) else -v.right.value
            else:
                raise ExtractError(f"branch {opname}: value {ast.unparse(v)} is not `constant (+|-) k`")
            rows.append((_OPS[opname], (_KINDS[st.value.func.id], delta)))
        else:
            raise ExtractError(f"branch {opname}: unexpected statement {ast.unparse(st)[:80]}")
        if len(cur.orelse) != 1:
            raise ExtractError("operator chain does not end in a single else/elif")
        nxt = cur.orelse[0]
        if isinstance(nxt, ast.If):
            cur = nxt
            continue
        if isinstance(nxt, ast.Expr) and ast.unparse(nxt.value) == "assert_never(node.op)":
            return rows
        raise ExtractError(f"operator chain ends in {ast.unparse(nxt)[:60]}")


def _lean_int(i: int) -> str:
    return str(i) if i >= 0 else f"({i})"


def _lean_rows(rows: Sequence[Tuple[str, Optional[Tuple[str, int]]]]) -> str:
    out = []
    for op, r in rows:
        out.append(f"(.{op}, none)" if r is None else f"(.{op}, some (.{r[0]}, {_lean_int(r[1])}))")
    return "[" + ", ".join(out) + "]"


def gen_Len(repo: pathlib.Path) -> str:
    mod = _parse(repo, "aas_core_codegen/infer_for_schema/_len.py")
    fn = _func(mod, "_match_len_constraint_on_member_or_name")
    side_of_len: Optional[str] = None
    side_of_const: Optional[str] = None
    tables: Dict[str, List[Any]] = {}
    for st in fn.body:
        if isinstance(st, ast.Assign) and len(st.targets) == 1 and isinstance(st.targets[0], ast.Name):
            tgt, val = st.targets[0].id, ast.unparse(st.value)
            if tgt == "len_on_member_or_name":
                if val not in ("_match_len_on_member_or_name(node.left)", "_match_len_on_member_or_name(node.right)"):
                    raise ExtractError(f"unexpected len matcher call {val}")
                side_of_len = val[val.rindex(".") + 1 : -1]
            if tgt == "constant":
                if val not in ("_match_int_constant(node.left)", "_match_int_constant(node.right)"):
                    raise ExtractError(f"unexpected constant matcher call {val}")
                side_of_const = val[val.rindex(".") + 1 : -1]
        if isinstance(st, ast.If) and isinstance(st.test, ast.BoolOp) and isinstance(st.test.op, ast.And):
            names = sorted(filter(None, (_is_not_none(v) for v in st.test.values)))
            if names != ["constant", "len_on_member_or_name"]:
                continue
            if {side_of_len, side_of_const} != {"left", "right"}:
                raise ExtractError(f"len side {side_of_len!r} / constant side {side_of_const!r}")
            if not st.body or not isinstance(st.body[0], ast.If):
                raise ExtractError("no operator chain at the start of the matching block")
            key = "lenOnLeft" if side_of_len == "left" else "constOnLeft"
            if key in tables:
                raise ExtractError(f"two blocks for {key}")
            tables[key] = _chain_rows(st.body[0])
            tail = st.body[1:]
            if not (
                len(tail) == 1
                and isinstance(tail[0], ast.If)
                and ast.unparse(tail[0].test) == "constraint is not None"
                and len(tail[0].body) == 1
                and isinstance(tail[0].body[0], ast.Return)
            ):
                raise ExtractError("matching block does not end in `if constraint is not None: return ...`")
    if set(tables) != {"lenOnLeft", "constOnLeft"}:
        raise ExtractError(f"operator chains found: {sorted(tables)}")

    # LenConstraint.__init__ pre-condition
    tmod = _parse(repo, "aas_core_codegen/infer_for_schema/_types.py")
    cls = _class(tmod, "LenConstraint")
    init = next((n for n in cls.body if isinstance(n, ast.FunctionDef) and n.name == "__init__"), None)
    if init is None:
        raise ExtractError("LenConstraint.__init__ not found")
    reqs = [d for d in init.decorator_list if isinstance(d, ast.Call) and ast.unparse(d.func) in ("require", "icontract.require")]
    if len(reqs) != 1 or not reqs[0].args or not isinstance(reqs[0].args[0], ast.Lambda):
        raise ExtractError(f"LenConstraint.__init__ has {len(reqs)} @require decorators")
    body = reqs[0].args[0].body
    ok = (
        isinstance(body, ast.BoolOp)
        and isinstance(body.op, ast.Or)
        and len(body.values) == 2
        and ast.unparse(body.values[0]) == "not (min_value is not None and max_value is not None)"
        and isinstance(body.values[1], ast.Compare)
    )
    if not ok:
        raise ExtractError(f"unexpected LenConstraint pre-condition: {ast.unparse(body)}")
    cmp_ = body.values[1]
    if not (
        isinstance(cmp_.left, ast.Constant)
        and type(cmp_.left.value) is int
        and len(cmp_.ops) == 2
        and isinstance(cmp_.ops[0], (ast.Lt, ast.LtE))
        and isinstance(cmp_.ops[1], ast.LtE)
        and [ast.unparse(c) for c in cmp_.comparators] == ["min_value", "max_value"]
    ):
        raise ExtractError(f"unexpected LenConstraint pre-condition: {ast.unparse(cmp_)}")
    return (
        "import AasVerif.Model.LenBase\n"
        + HEADER.format(src="aas_core_codegen/infer_for_schema/_len.py, _types.py")
        + "namespace AasVerif.Gen.Len\nopen AasVerif.Len\n"
        + "/-- operator chain of `_match_len_constraint_on_member_or_name` for `len(x) op constant` -/\n"
        + f"def lenOnLeft : List Row := {_lean_rows(tables['lenOnLeft'])}\n"
        + "/-- operator chain for `constant op len(x)` -/\n"
        + f"def constOnLeft : List Row := {_lean_rows(tables['constOnLeft'])}\n"
        + "/-- `LenConstraint.__init__` requires `minLower (<|<=) min_value <= max_value` when both are given -/\n"
        + f"def minLower : Int := {_lean_int(cmp_.left.value)}\n"
        + f"def minLowerStrict : Bool := {'true' if isinstance(cmp_.ops[0], ast.Lt) else 'false'}\n"
        + "end AasVerif.Gen.Len\n"
    )
