"""C28 — the smoke tool agrees with the real front end / inference / C# generation.

Gen: stage skeleton of smoke.main.execute and the error plumbing of _smoke_transpile_to_csharp.
Correspondence: real smoke rc + reporting stage vs Model.Smoke on the first failing stage computed
by running the real stages separately.  Oracle: statement of C28 incl. the recorded cases.
"""
from __future__ import annotations

import io
import pathlib
from typing import Any, Dict, Iterator, List, Optional, Tuple

from harness.core import REPO, Ctx, corpus, crash_name

ID = "C28"
GEN = ["Smoke", "ExitPaths"]
LEAN_PROPS = ["AasVerif.Props.C28"]

HEADLINE_TO_STAGE = [
    ("Failed to parse the meta-model", "parse.source_to_atok"),
    ("One or more unexpected imports", "parse.check_expected_imports"),
    ("Failed to construct the symbol table", "parse.atok_to_symbol_table"),
    ("Failed to translate the parsed symbol table", "intermediate.translate"),
    ("Failed to infer the constraints", "infer_for_schema.infer_constraints_by_class"),
    ("Failed to smoke-transpile", "_smoke_transpile_to_csharp"),
]


def run_smoke(path: pathlib.Path) -> Dict[str, Any]:
    import aas_core_codegen.smoke.main as sm

    err = io.StringIO()
    try:
        rc = sm.execute(model_path=path, stderr=err)
        return {"rc": rc, "stderr": err.getvalue(), "exc": None}
    except BaseException as e:  # noqa
        return {"rc": None, "stderr": err.getvalue(), "exc": crash_name(e)}


def stages_separately(path: pathlib.Path) -> Dict[str, Any]:
    """Runs the real stages one by one (independent of smoke/main.py). Returns the first failing stage."""
    from aas_core_codegen import infer_for_schema, intermediate, parse, specific_implementations
    from aas_core_codegen.common import Stripped
    from aas_core_codegen.csharp import common as csharp_common, lib as csharp_lib

    out: Dict[str, Any] = {"first_failing": None, "csharp_failing_calls": [], "exc": None}
    try:
        text = path.read_text(encoding="utf-8")
        atok, exc = parse.source_to_atok(source=text)
        if exc:
            out["first_failing"] = "parse.source_to_atok"
            return out
        if parse.check_expected_imports(atok=atok):
            out["first_failing"] = "parse.check_expected_imports"
            return out
        pst, error = parse.atok_to_symbol_table(atok=atok)
        if error is not None:
            out["first_failing"] = "parse.atok_to_symbol_table"
            return out
        st, error = intermediate.translate(parsed_symbol_table=pst, atok=atok)
        if error is not None:
            out["first_failing"] = "intermediate.translate"
            return out
        _, errors = infer_for_schema.infer_constraints_by_class(symbol_table=st)
        if errors is not None:
            out["first_failing"] = "infer_for_schema.infer_constraints_by_class"
            return out
        verified, errs = csharp_lib.verify_for_types(st)
        bad = []
        if errs is not None:
            bad.append("csharp_lib.verify_for_types")
        else:
            # the complete snippet set of the C# target for this model, under the keys which the C# generators look up
            # (harness.mm_run.snippets_for: collected from the ImplementationKey(...) call sites of aas_core_codegen/csharp/**,
            # NOT from the smoke tool): "C# generation of what smoke covers succeeds when all the snippets are there"
            from harness import mm

            dummy = Stripped("DUMMY IMPLEMENTATION")
            spec = {
                specific_implementations.ImplementationKey(key): dummy
                for key in mm.snippets_for("csharp", st)
                if key.endswith(".cs")
            }
            ns = csharp_common.NamespaceIdentifier("DummyNamespace")
            _, e1 = csharp_lib.generate_types(symbol_table=verified, namespace=ns, spec_impls=spec)
            if e1 is not None:
                bad.append("csharp_lib.generate_types")
            _, e2 = csharp_lib.generate_verification(symbol_table=st, namespace=ns, spec_impls=spec)
            if e2 is not None:
                bad.append("csharp_lib.generate_verification")
        out["csharp_failing_calls"] = bad
        if bad:
            out["first_failing"] = "_smoke_transpile_to_csharp"
    except BaseException as e:  # noqa
        out["exc"] = crash_name(e)
    return out


def report_shape_ok(err: str) -> bool:
    lines = err.split("\n")
    return (
        len(lines) >= 3
        and lines[-1] == ""
        and lines[0].endswith(":")
        and lines[1].startswith("* ")
        and all(ln.startswith("* ") or ln.startswith("  ") or ln.strip() == "" for ln in lines[1:-1])
    )


SPECIFIC_TAIL = '\n\n__version__ = "dummy"\n__xml_namespace__ = "https://dummy.com"\n'


def implementation_specific_models() -> List[Tuple[str, str]]:
    """Seed independent: everything that can be marked implementation-specific (class, constructor, method, verification
    function), alone and together -- smoke supplies dummy snippets for these, the generators look them up."""
    holder = "class Holder:\n    thing: Thing\n\n    def __init__(self, thing: Thing) -> None:\n        self.thing = thing\n"
    parts = {
        "class": "@implementation_specific\nclass Thing:\n    val: str\n\n    def __init__(self, val: str) -> None:\n        self.val = val\n\n\n" + holder,
        "constructor": "class Thing:\n    @implementation_specific\n    def __init__(self) -> None:\n        pass\n\n\n" + holder,
        "method": (
            "class Thing:\n    val: str\n\n    def __init__(self, val: str) -> None:\n        self.val = val\n\n"
            "    @implementation_specific\n    def compute(self) -> str:\n        pass\n\n\n" + holder
        ),
        "verification": (
            "@verification\n@implementation_specific\ndef is_fine(text: str) -> bool:\n    pass\n\n\n"
            "@invariant(lambda self: is_fine(self.val), \"Val is fine.\")\n"
            "class Thing:\n    val: str\n\n    def __init__(self, val: str) -> None:\n        self.val = val\n\n\n" + holder
        ),
    }
    out = [("specific_" + k, v + SPECIFIC_TAIL) for k, v in parts.items()]
    both = parts["class"].replace("Thing", "Special").replace("Holder", "Special_holder").replace("thing", "special") + "\n\n" + parts["method"]
    out.append(("specific_class_and_method", both + SPECIFIC_TAIL))
    return out


SMALL_VALID = (
    'class Something:\n    """Represent something."""\n\n    val: str\n    """Hold a value."""\n\n'
    "    def __init__(self, val: str) -> None:\n        self.val = val\n" + SPECIFIC_TAIL
)


def csharp_failing_models() -> List[Tuple[str, str]]:
    """Seed independent: models which the front end and the inference accept and on which each of the C# calls the smoke
    tool makes (verify_for_types, generate_types, generate_verification) reports errors: names which collide only after the
    C# naming conversion (properties, classes, enumeration literals, a class against its interface, methods), and invariant
    constructs which only the C# transpiler refuses."""
    def cls(name: str, props: List[str]) -> str:
        fields = "".join(f"    {p}: int\n" for p in props)
        args = ", ".join(f"{p}: int" for p in props)
        body = "".join(f"        self.{p} = {p}\n" for p in props)
        return f"class {name}:\n{fields}\n    def __init__(self, {args}) -> None:\n{body}\n\n"

    out = [
        ("csharp_colliding_properties", cls("Something", ["some_prop", "Some_prop"]) + SPECIFIC_TAIL),
        ("csharp_colliding_properties_abbreviation", cls("Something", ["some_URL", "some_Url"]) + SPECIFIC_TAIL),
        ("csharp_colliding_classes", cls("Some_thing", ["x"]) + cls("Some_Thing", ["y"]) + SPECIFIC_TAIL),
        ("csharp_class_vs_interface", "@abstract\n" + cls("Thing", ["x"]) + cls("Concrete_thing(Thing)", []) .replace("def __init__(self, ) -> None:\n", "def __init__(self, x: int) -> None:\n        Thing.__init__(self, x)\n") + cls("IThing", ["y"]) + SPECIFIC_TAIL),
        ("csharp_colliding_literals", 'class Color(Enum):\n    Red_one = "r1"\n    Red_One = "r2"\n\n\n' + cls("Something", ["x"]) + SPECIFIC_TAIL),
        ("csharp_colliding_enum_and_class", 'class Some_thing(Enum):\n    A = "a"\n\n\n' + cls("Some_Thing", ["x"]) + SPECIFIC_TAIL),
        ("csharp_len_of_class", '@invariant(lambda self: len(self.other) > 0, "Other is long.")\nclass Something:\n    other: Other\n\n    def __init__(self, other: Other) -> None:\n        self.other = other\n\n\n' + cls("Other", ["x"]) + SPECIFIC_TAIL),
    ]
    return out


def deep_models() -> List[Tuple[str, str]]:
    """Seed independent: invariants nested around the depths where the front end still succeeds but a later stage (inference,
    C# generation) may run out of stack: whatever happens, smoke ends with 0 or with 1 and a report."""
    out = []
    for depth in list(range(120, 340, 15)) + [500, 1200]:
        inv = "not (" * depth + "len(self.val) > 0" + ")" * depth
        out.append((f"deep_not_{depth}", f'@invariant(lambda self: {inv}, "Val is fine.")\n' + SMALL_VALID))
    for terms in (150, 400, 1200):
        inv = " + ".join(["len(self.val)"] * terms) + " > 0"
        out.append((f"deep_sum_{terms}", f'@invariant(lambda self: {inv}, "Val is fine.")\n' + SMALL_VALID))
    return out


def byte_variants() -> List[Tuple[str, bytes]]:
    """Seed independent: one small valid model as bytes in every way a file can differ from plain UTF-8 with LF: the smoke
    tool must see the file as the front end of the generators (run.load_model) sees it."""
    t = SMALL_VALID
    b = t.encode("utf-8")
    return [
        ("bytes_plain", b),
        ("bytes_utf8_bom", b"\xef\xbb\xbf" + b),
        ("bytes_utf8_bom_twice", b"\xef\xbb\xbf\xef\xbb\xbf" + b),
        ("bytes_utf16_bom", t.encode("utf-16")),
        ("bytes_utf16_le", t.encode("utf-16-le")),
        ("bytes_utf32", t.encode("utf-32")),
        ("bytes_crlf", t.replace("\n", "\r\n").encode("utf-8")),
        ("bytes_cr", t.replace("\n", "\r").encode("utf-8")),
        ("bytes_latin1_in_docstring", t.replace("something.", "som\u00e9thing.").encode("latin-1")),
        ("bytes_utf8_in_docstring", t.replace("something.", "som\u00e9thing \U0001f600.").encode("utf-8")),
        ("bytes_coding_cookie_latin1", b"# -*- coding: latin-1 -*-\n" + t.replace("something.", "som\u00e9thing.").encode("latin-1")),
        ("bytes_nul_at_end", b + b"\x00"),
        ("bytes_nul_inside", b.replace(b"Hold", b"Ho\x00ld")),
        ("bytes_form_feed_first", b"\x0c\n" + b),
        ("bytes_ctrl_z_at_end", b + b"\x1a"),
        ("bytes_lone_surrogate_utf8", t.replace("something.", "something \ud800.").encode("utf-8", "surrogatepass")),
        ("bytes_no_final_newline", b.rstrip(b"\n")),
        ("bytes_trailing_spaces_and_tabs", b + b" \t \n\t"),
    ]


def models(ctx: Ctx, scratch: pathlib.Path) -> Iterator[Tuple[str, pathlib.Path]]:
    td = REPO / "dev" / "test_data"
    for c in corpus(ID):
        p = scratch / (c["name"] + ".py")
        p.write_text(c["text"])
        yield "corpus", p
    for p in sorted(td.glob("smoke/**/meta_model.py")):
        yield "recorded", p
    fixtures = sorted(td.glob("**/meta_model.py"))
    fixtures = [p for p in fixtures if "smoke" not in p.parts]
    if ctx.tier == "quick":
        # a seed-independent spread over all fixture families + a seeded sample
        fam: Dict[str, List[pathlib.Path]] = {}
        for p in fixtures:
            fam.setdefault("/".join(p.relative_to(td).parts[:3]), []).append(p)
        chosen = [ps[0] for ps in fam.values()]
        rest = [p for p in fixtures if p not in chosen]
        ctx.rng.shuffle(rest)
        fixtures = chosen + rest[:40]
    for p in fixtures:
        yield "fixture", p
    for p in sorted((td / "common_meta_models").glob("*.py")):
        if p.name.startswith("aas_core_meta") and ctx.tier == "quick":
            continue
        yield "common", p
    for name, text in [
        ("syntax_error", "class A(:\n"),
        ("empty", ""),
        ("import_os", "import os\n__version__='1'\n__xml_namespace__='https://x.com'\n"),
    ] + implementation_specific_models() + deep_models() + csharp_failing_models():
        p = scratch / (name + ".py")
        p.write_text(text)
        yield "synthetic", p
    for name, data in byte_variants():
        p = scratch / (name + ".py")
        p.write_bytes(data)
        yield "bytes", p


def _run(ctx: Ctx, with_model: bool) -> None:
    scratch = ctx.scratch()
    rows = []
    for stream, path in models(ctx, scratch):
        sm = run_smoke(path)
        sep = stages_separately(path)
        rows.append((stream, path, sm, sep))
    if with_model:
        outs = ctx.model([f"rc {r[3]['first_failing'] or '-'}" for r in rows])
        touts = ctx.model([f"transpile {','.join(r[3]['csharp_failing_calls']) or '-'}" for r in rows])
    for k, (stream, path, sm, sep) in enumerate(rows):
        key = str(path.relative_to(REPO)) if str(path).startswith(str(REPO)) else path.name
        ctx.count(key, nontrivial=True, stream=stream)
        ctx.hit("first-failing:" + str(sep["first_failing"]))
        if k % 20 == 0:
            ctx.sample({"model": key, "smoke_rc": sm["rc"], "first_failing_stage": sep["first_failing"], "stderr": sm["stderr"][:160]})
        if sm["exc"] is not None:
            # a run which ends in a traceback has neither of the two outcomes the statement allows (0, or 1 with a report)
            ctx.hit("smoke-raises")
            ctx.fail({"model": key}, f"smoke raised {sm['exc']} instead of exiting with 0 or with 1 and a report", "C28:smoke-raises:" + str(sm["exc"]).split(":")[-1])
            continue
        if sep["exc"] is not None:
            # a stage which raises when run on its own has failed: smoke must not exit 0 (it may report it as it likes)
            ctx.hit("stage-raises")
            if sm["rc"] == 0:
                ctx.fail({"model": key}, f"smoke exits 0 although a stage run on its own raises {sep['exc']}", "C28:rc0-but-stage-raises")
            if sm["rc"] == 1 and not report_shape_ok(sm["stderr"]):
                ctx.fail({"model": key}, f"smoke exits 1 without a proper report: {sm['stderr'][:200]!r}", "C28:no-report")
            continue
        reported = next((st for h, st in HEADLINE_TO_STAGE if sm["stderr"].startswith(h)), None)
        if with_model:
            want_rc, want_stage = outs[k].split(" ")
            got = f"{sm['rc']} {reported or '-'}"
            if got != outs[k]:
                ctx.disagree("smoke-decision", key, got, outs[k])
            if (touts[k] == "true") != (not sep["csharp_failing_calls"]):
                ctx.disagree("transpile-plumbing", key, sep["csharp_failing_calls"], touts[k])
            ctx.traces_validated += 1
        # ---- the statement of C28
        all_ok = sep["first_failing"] is None
        if sm["rc"] == 0 and not all_ok:
            ctx.fail({"model": key}, f"smoke exits 0 although stage {sep['first_failing']} fails", f"C28:rc0-but-{sep['first_failing']}")
        if sm["rc"] != 0 and all_ok:
            ctx.fail({"model": key}, f"smoke exits {sm['rc']} although all stages succeed: {sm['stderr'][:200]!r}", "C28:rc1-but-all-ok")
        if sm["rc"] not in (0, 1):
            ctx.fail({"model": key}, f"smoke exit status {sm['rc']!r}", "C28:status")
        if sm["rc"] == 1 and not report_shape_ok(sm["stderr"]):
            ctx.fail({"model": key}, f"smoke exits 1 without a proper report: {sm['stderr'][:200]!r}", "C28:no-report")
        if sm["rc"] == 0 and sm["stderr"] != "":
            ctx.fail({"model": key}, "smoke exits 0 but wrote to stderr", "C28:rc0-stderr")
        if stream == "recorded":
            exp = path.parent / "expected_stderr.txt"
            if exp.exists():
                got_txt = sm["stderr"].replace(str(path), "<meta_model.py>")
                if got_txt != exp.read_text(encoding="utf-8"):
                    ctx.fail(
                        {"model": key},
                        f"report differs from the recorded expectation {exp.relative_to(REPO)}",
                        "C28:recorded:" + path.parent.name,
                        {"got": got_txt[:600], "expected": exp.read_text(encoding='utf-8')[:600]},
                    )
                ctx.hit("recorded-compared")


def correspond(ctx: Ctx) -> None:
    ctx.extra_cov["rule"] = (
        "models = corpus + the recorded smoke cases + meta_model.py fixtures of dev/test_data (quick: one per family + 40 "
        "seeded; thorough: all 190+) + common meta-models + synthetic broken texts; every one is a distinct non-trivial case"
    )
    _run(ctx, True)


def oracle(ctx: Ctx) -> None:
    if not ctx.driver_ok or ctx.searching:
        _run(ctx, False)


def replay(ctx: Ctx, data: Dict[str, Any]) -> Any:
    inp = data["failure"]["input"] if "failure" in data else data
    p = REPO / inp["model"]
    if not p.exists():
        # a corpus or synthetic model: recorded by the name of its file
        scratch = ctx.scratch()
        texts = {c["name"] + ".py": c["text"] for c in corpus(ID)}
        texts.update({name + ".py": text for name, text in implementation_specific_models() + deep_models() + csharp_failing_models()})
        blobs = {name + ".py": data for name, data in byte_variants()}
        if inp["model"] in blobs:
            p = scratch / inp["model"]
            p.write_bytes(blobs[inp["model"]])
            return {"smoke": run_smoke(p), "stages": stages_separately(p)}
        if "text" in inp:
            texts[inp["model"]] = inp["text"]
        if inp["model"] not in texts:
            return {"error": f"model {inp['model']} not found"}
        p = scratch / inp["model"]
        p.write_text(texts[inp["model"]])
    return {"smoke": run_smoke(p), "stages": stages_separately(p)}
