"""C09 — the decidable slice: expression-level agreement of the TypeScript / Java / C++ transpilers with the shared
invariant language, and equality of the constants / enumeration literals / invariant descriptions the three SDKs expose.

NOT decided here (nothing of it can be built or run in this sandbox: no ``tsc``, no nlohmann/json, expat, tl::optional,
Jackson): JSON (de)serialization of the three SDKs and whole-SDK verification verdicts.

Streams
-------
* ``emit:<target>``  real transpiler output (``_InvariantTranspiler`` of each target, called as the generator calls it) for the
                     invariants of ``mm.random_mm`` models and of the fixtures, tokenised and compared with the rendering of the
                     model's ``TargetEmit.<Target>.transpile`` (structure, operators, parentheses); additionally the real text is
                     parsed by a precedence-climbing parser of the emitted sub-grammar and compared with the model's tree with
                     the parentheses stripped (every omitted parenthesis is justified by the target's grammar).
* oracle ``constants`` / ``descriptions`` / ``count``: see ``oracle``.
"""
from __future__ import annotations

import ast
import json
import re
from typing import Any, Dict, Iterator, List, Optional, Sequence, Tuple

from harness import expr_wire, mm
from harness.core import Ctx, corpus, crash_name, dec_text, enc_text

ID = "C09"
GEN: List[str] = ["TargetEmit"]

# --------------------------------------------------------------------------- Gen (translator half of the tie)

_KINDS = ["Member", "Index", "Comparison", "IsIn", "Implication", "MethodCall", "Name", "FunctionCall", "Constant", "IsNone",
          "IsNotNone", "Not", "And", "Or", "Add", "Sub", "JoinedStr", "Any", "All"]
_CMP_LEAN = {"LT": ".lt", "LE": ".le", "GT": ".gt", "GE": ".ge", "EQ": ".eq", "NE": ".ne"}

#: per target: (file, comparison map name, [(Lean name, function)], (file, function) of the invariant wrapper or None)
_TARGET_SITES: Dict[str, Any] = {
    "Ts": ("aas_core_codegen/typescript/transpilation.py", "_TYPESCRIPT_COMPARISON_MAP", [
        ("index", "transform_index"), ("comparison", "transform_comparison"), ("isIn", "transform_is_in"),
        ("implication", "transform_implication"), ("methodCall", "transform_method_call"), ("len", "_generate_len"),
        ("isNone", "transform_is_none"), ("isNotNone", "transform_is_not_none"), ("notOp", "transform_not"),
        ("andOr", "_transform_and_or_or"), ("addSub", "_transform_add_or_sub"), ("forEach", "_transform_any_or_all"),
    ], ("aas_core_codegen/typescript/lib/_generate_verification.py", "_transpile_invariant")),
    "Java": ("aas_core_codegen/java/transpilation.py", "_JAVA_COMPARISON_MAP", [
        ("index", "transform_index"), ("comparison", "transform_comparison"), ("isIn", "transform_is_in"),
        ("implication", "transform_implication"), ("methodCall", "transform_method_call"), ("len", "transform_function_call"),
        ("isNone", "transform_is_none"), ("isNotNone", "transform_is_not_none"), ("notOp", "transform_not"),
        ("andOp", "transform_and"), ("orOp", "transform_or"), ("addSub", "_transform_add_or_sub"),
        ("forEach", "_transform_any_or_all"),
    ], ("aas_core_codegen/java/lib/_generate_verification.py", "_transpile_invariant")),
    "Cpp": ("aas_core_codegen/cpp/transpilation.py", "_CPP_COMPARISON_MAP", [
        ("derefTbl", "_transform_and_value_if_necessary"), ("comparison", "transform_comparison"),
        ("implication", "transform_implication"), ("len", "transform_function_call"), ("isNone", "transform_is_none"),
        ("isNotNone", "transform_is_not_none"), ("notOp", "transform_not"), ("andOr", "_transform_and_or_or"),
        ("addSub", "_transform_add_or_sub"), ("forEach", "_transform_any_or_all"),
    ], None),
}


def _kind_names(t: ast.AST) -> Optional[List[str]]:
    if not isinstance(t, ast.Tuple) or not t.elts:
        return None
    names = []
    for e in t.elts:
        if not (isinstance(e, ast.Attribute) and isinstance(e.value, ast.Name) and e.value.id == "parse_tree" and e.attr in _KINDS):
            return None
        names.append(e.attr)
    return names


def _kind_tuple(fn: Any, what: str) -> List[str]:
    """The one tuple of ``parse_tree`` node classes of a function: assigned to ``no_parenthes…`` or inline in ``isinstance``."""
    from harness.extract import ExtractError

    found: List[List[str]] = []
    for node in ast.walk(fn):
        if isinstance(node, ast.Assign) and len(node.targets) == 1 and isinstance(node.targets[0], ast.Name) \
                and node.targets[0].id.startswith("no_parenthes"):
            names = _kind_names(node.value)
            if names is None:
                raise ExtractError(f"{what}: unexpected no-parentheses value {ast.dump(node.value)[:200]}")
            found.append(names)
        elif isinstance(node, ast.Call) and isinstance(node.func, ast.Name) and node.func.id == "isinstance" and len(node.args) == 2:
            names = _kind_names(node.args[1])
            if names is not None:
                found.append(names)
    if len(found) != 1:
        raise ExtractError(f"{what}: expected exactly one tuple of node classes, found {len(found)}")
    return found[0]


def gen_TargetEmit(repo: Any) -> str:
    from harness.extract import ExtractError, _class, _func, _parse

    out = ["import AasVerif.Model.Expr.Kind",
           "/-! GENERATED by harness/props/c09.py from aas_core_codegen/{typescript,java,cpp}/transpilation.py and",
           "{typescript,java}/lib/_generate_verification.py — do not edit. -/",
           "namespace AasVerif.Gen.TargetEmit", "open AasVerif.Expr"]
    for target, (rel, map_name, sites, top) in _TARGET_SITES.items():
        mod = _parse(repo, rel)
        cls = _class(mod, "Transpiler")
        out.append(f"namespace {target}")
        cmap = None
        for node in cls.body:
            if isinstance(node, ast.Assign) and isinstance(node.targets[0], ast.Name) and node.targets[0].id == map_name:
                cmap = node.value
        if not isinstance(cmap, ast.Dict):
            raise ExtractError(f"{map_name} not found as a dict literal")
        pairs = []
        for k, v in zip(cmap.keys, cmap.values):
            if not (isinstance(k, ast.Attribute) and k.attr in _CMP_LEAN and isinstance(v, ast.Constant) and isinstance(v.value, str)):
                raise ExtractError(f"unexpected entry in {map_name}: {ast.dump(k)}")
            pairs.append(f"(Cmp{_CMP_LEAN[k.attr]}, {json.dumps(v.value)})")
        out.append(f"/-- `Transpiler.{map_name}` -/")
        out.append("def comparisonMap : List (Cmp × String) := [" + ", ".join(pairs) + "]")
        for lean_name, fn_name in sites:
            names = _kind_tuple(_func(cls, fn_name), f"{target}.{fn_name}")
            out.append(f"/-- the \"no parentheses needed\" node classes of `{fn_name}` -/")
            out.append(f"def {lean_name} : List Kind := [" + ", ".join("." + n for n in names) + "]")
        if top is not None:
            names = _kind_tuple(_func(_parse(repo, top[0]), top[1]), f"{target}.{top[1]}")
            out.append(f"/-- the condition of the emitted `if` is not parenthesised in `{top[1]}` -/")
            out.append("def invariantTop : List Kind := [" + ", ".join("." + n for n in names) + "]")
        # every node class of the invariant language has a `transform_*` in the transpiler (or its base raises)
        handled = sorted(n.name for n in cls.body if isinstance(n, ast.FunctionDef) and n.name.startswith("transform_"))
        out.append("/-- the `transform_*` methods the transpiler class defines -/")
        out.append("def handlers : List String := [" + ", ".join(json.dumps(h) for h in handled) + "]")
        out.append(f"end {target}")
    out.append("end AasVerif.Gen.TargetEmit")
    return "\n".join(out) + "\n"
