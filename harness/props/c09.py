"""C09 — the decidable slice: expression-level agreement of the TypeScript / Java / C++ transpilers with the shared
invariant language, and equality of the constants / enumeration literals / invariant descriptions the three SDKs expose.

NOT decided here (nothing of it can be built or run in this sandbox: no ``tsc``, no nlohmann/json, expat, tl::optional,
Jackson): JSON (de)serialization of the three SDKs and whole-SDK verification verdicts.

Streams
-------
* ``emit:<target>``  real transpiler output (``_InvariantTranspiler`` of each target, called as the generator calls it) for the
                     invariants of ``mm.random_mm`` models and of the fixtures, tokenised and compared with the rendering of the
                     model's ``TargetEmit.<Target>.transpile`` (structure, operators, parentheses); additionally the real text is
                     parsed by a precedence-climbing parser of the emitted sub-grammar and compared with the model's tree with
                     the parentheses stripped (every omitted parenthesis is justified by the target's grammar).
* oracle ``constants`` / ``descriptions`` / ``count``: see ``oracle``.
"""
from __future__ import annotations

import ast
import json
import re
from typing import Any, Dict, Iterator, List, Optional, Sequence, Tuple

from harness import expr_wire, mm
from harness.core import Ctx, corpus, crash_name, dec_text, enc_text

ID = "C09"
GEN: List[str] = ["TargetEmit"]

# --------------------------------------------------------------------------- Gen (translator half of the tie)

_KINDS = ["Member", "Index", "Comparison", "IsIn", "Implication", "MethodCall", "Name", "FunctionCall", "Constant", "IsNone",
          "IsNotNone", "Not", "And", "Or", "Add", "Sub", "JoinedStr", "Any", "All"]
_CMP_LEAN = {"LT": ".lt", "LE": ".le", "GT": ".gt", "GE": ".ge", "EQ": ".eq", "NE": ".ne"}

#: per target: (file, comparison map name, [(Lean name, function)], (file, function) of the invariant wrapper or None)
_TARGET_SITES: Dict[str, Any] = {
    "Ts": ("aas_core_codegen/typescript/transpilation.py", "_TYPESCRIPT_COMPARISON_MAP", [
        ("index", "transform_index"), ("comparison", "transform_comparison"), ("isIn", "transform_is_in"),
        ("implication", "transform_implication"), ("methodCall", "transform_method_call"), ("len", "_generate_len"),
        ("isNone", "transform_is_none"), ("isNotNone", "transform_is_not_none"), ("notOp", "transform_not"),
        ("andOr", "_transform_and_or_or"), ("addSub", "_transform_add_or_sub"), ("forEach", "_transform_any_or_all"),
    ], ("aas_core_codegen/typescript/lib/_generate_verification.py", "_transpile_invariant")),
    "Java": ("aas_core_codegen/java/transpilation.py", "_JAVA_COMPARISON_MAP", [
        ("index", "transform_index"), ("comparison", "transform_comparison"), ("isIn", "transform_is_in"),
        ("implication", "transform_implication"), ("methodCall", "transform_method_call"), ("len", "transform_function_call"),
        ("isNone", "transform_is_none"), ("isNotNone", "transform_is_not_none"), ("notOp", "transform_not"),
        ("andOp", "transform_and"), ("orOp", "transform_or"), ("addSub", "_transform_add_or_sub"),
        ("forEach", "_transform_any_or_all"),
    ], ("aas_core_codegen/java/lib/_generate_verification.py", "_transpile_invariant")),
    "Cpp": ("aas_core_codegen/cpp/transpilation.py", "_CPP_COMPARISON_MAP", [
        ("derefTbl", "_transform_and_value_if_necessary"), ("comparison", "transform_comparison"),
        ("implication", "transform_implication"), ("len", "transform_function_call"), ("isNone", "transform_is_none"),
        ("isNotNone", "transform_is_not_none"), ("notOp", "transform_not"), ("andOr", "_transform_and_or_or"),
        ("addSub", "_transform_add_or_sub"), ("forEach", "_transform_any_or_all"),
    ], None),
}


def _kind_names(t: ast.AST) -> Optional[List[str]]:
    if not isinstance(t, ast.Tuple) or not t.elts:
        return None
    names = []
    for e in t.elts:
        if not (isinstance(e, ast.Attribute) and isinstance(e.value, ast.Name) and e.value.id == "parse_tree" and e.attr in _KINDS):
            return None
        names.append(e.attr)
    return names


def _kind_tuple(fn: Any, what: str) -> List[str]:
    """The one tuple of ``parse_tree`` node classes of a function: assigned to ``no_parenthes…`` or inline in ``isinstance``."""
    from harness.extract import ExtractError

    found: List[List[str]] = []
    for node in ast.walk(fn):
        if isinstance(node, ast.Assign) and len(node.targets) == 1 and isinstance(node.targets[0], ast.Name) \
                and node.targets[0].id.startswith("no_parenthes"):
            names = _kind_names(node.value)
            if names is None:
                raise ExtractError(f"{what}: unexpected no-parentheses value {ast.dump(node.value)[:200]}")
            found.append(names)
        elif isinstance(node, ast.Call) and isinstance(node.func, ast.Name) and node.func.id == "isinstance" and len(node.args) == 2:
            names = _kind_names(node.args[1])
            if names is not None:
                found.append(names)
    if len(found) != 1:
        raise ExtractError(f"{what}: expected exactly one tuple of node classes, found {len(found)}")
    return found[0]


def gen_TargetEmit(repo: Any) -> str:
    from harness.extract import ExtractError, _class, _func, _parse

    out = ["import AasVerif.Model.Expr.Kind",
           "/-! GENERATED by harness/props/c09.py from aas_core_codegen/{typescript,java,cpp}/transpilation.py and",
           "{typescript,java}/lib/_generate_verification.py — do not edit. -/",
           "namespace AasVerif.Gen.TargetEmit", "open AasVerif.Expr"]
    for target, (rel, map_name, sites, top) in _TARGET_SITES.items():
        mod = _parse(repo, rel)
        cls = _class(mod, "Transpiler")
        out.append(f"namespace {target}")
        cmap = None
        for node in cls.body:
            if isinstance(node, ast.Assign) and isinstance(node.targets[0], ast.Name) and node.targets[0].id == map_name:
                cmap = node.value
        if not isinstance(cmap, ast.Dict):
            raise ExtractError(f"{map_name} not found as a dict literal")
        pairs = []
        for k, v in zip(cmap.keys, cmap.values):
            if not (isinstance(k, ast.Attribute) and k.attr in _CMP_LEAN and isinstance(v, ast.Constant) and isinstance(v.value, str)):
                raise ExtractError(f"unexpected entry in {map_name}: {ast.dump(k)}")
            pairs.append(f"(Cmp{_CMP_LEAN[k.attr]}, {json.dumps(v.value)})")
        out.append(f"/-- `Transpiler.{map_name}` -/")
        out.append("def comparisonMap : List (Cmp × String) := [" + ", ".join(pairs) + "]")
        for lean_name, fn_name in sites:
            names = _kind_tuple(_func(cls, fn_name), f"{target}.{fn_name}")
            out.append(f"/-- the \"no parentheses needed\" node classes of `{fn_name}` -/")
            out.append(f"def {lean_name} : List Kind := [" + ", ".join("." + n for n in names) + "]")
        if top is not None:
            names = _kind_tuple(_func(_parse(repo, top[0]), top[1]), f"{target}.{top[1]}")
            out.append(f"/-- the condition of the emitted `if` is not parenthesised in `{top[1]}` -/")
            out.append("def invariantTop : List Kind := [" + ", ".join("." + n for n in names) + "]")
        # every node class of the invariant language has a `transform_*` in the transpiler (or its base raises)
        handled = sorted(n.name for n in cls.body if isinstance(n, ast.FunctionDef) and n.name.startswith("transform_"))
        out.append("/-- the `transform_*` methods the transpiler class defines -/")
        out.append("def handlers : List String := [" + ", ".join(json.dumps(h) for h in handled) + "]")
        out.append(f"end {target}")
    out.append("end AasVerif.Gen.TargetEmit")
    return "\n".join(out) + "\n"


# --------------------------------------------------------------------------- tokenizer + precedence-climbing parser
# One parser for the expression sub-grammar the three transpilers emit (TypeScript, Java, C++).  Generic trees:
#   ('id', name) ('lit', raw) ('paren', e) ('un', op, e) ('bin', op, l, r) ('nary', op, [e…]) ('member', e, name, sep)
#   ('call', f, [args]) ('lambda', var, body) ('tpl', [('l', raw) | ('v', tree)])

class ParseError(Exception):
    pass


_OPS = ["===", "!==", "==", "!=", "<=", ">=", "&&", "||", "->", "=>"]
_ID = re.compile(r"[A-Za-z_$][\w$]*(?:::[A-Za-z_$][\w$]*)*")
_NUM = re.compile(r"\d+(?:\.\d*)?(?:[eE][+-]?\d+)?[A-Za-z]*")


def tokenize(text: str) -> List[Tuple[str, Any]]:
    text = text.replace("std::numeric_limits<double>", "std::numeric_limits_double")
    out: List[Tuple[str, Any]] = []
    i, n = 0, len(text)
    while i < n:
        c = text[i]
        if c in " \t\r\n":
            i += 1
            continue
        if c == '"' or (c == "L" and i + 1 < n and text[i + 1] == '"'):
            j = i + (2 if c == "L" else 1)
            while j < n and text[j] != '"':
                j += 2 if text[j] == "\\" else 1
            if j >= n:
                raise ParseError("unterminated string literal")
            out.append(("str", text[i:j + 1]))
            i = j + 1
            continue
        if c == "`":
            parts: List[Tuple[str, Any]] = []
            j = i + 1
            chunk = ""
            while True:
                if j >= n:
                    raise ParseError("unterminated template literal")
                if text[j] == "`":
                    break
                if text[j] == "\\":
                    chunk += text[j:j + 2]
                    j += 2
                elif text[j] == "$" and j + 1 < n and text[j + 1] == "{":
                    depth, k = 1, j + 2
                    while k < n and depth > 0:
                        if text[k] == "{":
                            depth += 1
                        elif text[k] == "}":
                            depth -= 1
                        elif text[k] in "\"`":
                            raise ParseError("string inside a template substitution (not emitted by the transpiler)")
                        k += 1
                    if depth != 0:
                        raise ParseError("unterminated template substitution")
                    if chunk:
                        parts.append(("l", chunk))
                        chunk = ""
                    parts.append(("v", tokenize(text[j + 2:k - 1])))
                    j = k
                else:
                    chunk += text[j]
                    j += 1
            if chunk:
                parts.append(("l", chunk))
            out.append(("tpl", parts))
            i = j + 1
            continue
        m = _NUM.match(text, i)
        if m and c.isdigit():
            out.append(("num", m.group(0)))
            i = m.end()
            continue
        m = _ID.match(text, i)
        if m:
            out.append(("id", m.group(0)))
            i = m.end()
            continue
        for op in _OPS:
            if text.startswith(op, i):
                out.append(("op", op))
                i += len(op)
                break
        else:
            if c in "()[]{}.,;<>!+-*&":
                out.append(("op", c))
                i += 1
            else:
                raise ParseError(f"unexpected character {c!r}")
    return out


class Parser:
    """or < and < equality < relational < additive < unary < postfix; Java lambdas `x -> e`, TypeScript arrows `x => e`,
    C++ lambdas `[&](T x) -> bool { return e; }` as primaries."""

    def __init__(self, toks: List[Tuple[str, Any]], lang: str) -> None:
        self.t, self.p, self.lang = toks, 0, lang

    def peek(self, k: int = 0) -> Tuple[str, Any]:
        return self.t[self.p + k] if self.p + k < len(self.t) else ("end", None)

    def eat(self, kind: str, val: Any = None) -> Any:
        tk = self.peek()
        if tk[0] != kind or (val is not None and tk[1] != val):
            raise ParseError(f"expected {kind} {val!r}, got {tk!r} at {self.p}")
        self.p += 1
        return tk[1]

    def is_op(self, *vals: str) -> bool:
        tk = self.peek()
        return tk[0] == "op" and tk[1] in vals

    def expr(self) -> Any:
        return self.nary("||", lambda: self.nary("&&", self.equality))

    def nary(self, op: str, sub: Any) -> Any:
        first = sub()
        if not self.is_op(op):
            return first
        vals = [first]
        while self.is_op(op):
            self.p += 1
            vals.append(sub())
        return ("nary", op, vals)

    def left(self, ops: Sequence[str], sub: Any) -> Any:
        l = sub()
        while self.is_op(*ops):
            op = self.eat("op")
            l = ("bin", op, l, sub())
        return l

    def equality(self) -> Any:
        return self.left(("==", "!=", "===", "!=="), self.relational)

    def relational(self) -> Any:
        return self.left(("<", "<=", ">", ">="), self.additive)

    def additive(self) -> Any:
        return self.left(("+", "-"), self.unary)

    def unary(self) -> Any:
        if self.is_op("!", "-", "*"):
            op = self.eat("op")
            return ("un", op, self.unary())
        return self.postfix()

    def args(self) -> List[Any]:
        self.eat("op", "(")
        out: List[Any] = []
        if not self.is_op(")"):
            out.append(self.expr())
            while self.is_op(","):
                self.p += 1
                out.append(self.expr())
        self.eat("op", ")")
        return out

    def postfix(self) -> Any:
        e = self.primary()
        while True:
            if self.is_op(".") or (self.is_op("->") and self.lang == "cpp"):
                sep = self.eat("op")
                e = ("member", e, self.eat("id"), sep)
            elif self.is_op("("):
                e = ("call", e, self.args())
            else:
                return e

    def primary(self) -> Any:
        kind, val = self.peek()
        if kind in ("num", "str"):
            self.p += 1
            return ("lit", val)
        if kind == "tpl":
            self.p += 1
            parts: List[Any] = []
            for k, v in val:
                if k == "l":
                    parts.append(("l", v))
                else:
                    sub = Parser(v, self.lang)
                    tree = sub.expr()
                    if sub.peek()[0] != "end":
                        raise ParseError("trailing tokens in a template substitution")
                    parts.append(("v", tree))
            return ("tpl", parts)
        if kind == "id":
            nxt = self.peek(1)
            if (self.lang == "ts" and nxt == ("op", "=>")) or (self.lang == "java" and nxt == ("op", "->")):
                self.p += 2
                return ("lambda", val, self.expr())
            self.p += 1
            return ("id", val)
        if kind == "op" and val == "(":
            self.p += 1
            e = self.expr()
            self.eat("op", ")")
            return ("paren", e)
        if kind == "op" and val == "[" and self.lang == "cpp":
            self.eat("op", "[")
            self.eat("op", "&")
            self.eat("op", "]")
            self.eat("op", "(")
            var = None
            while not self.is_op(")"):
                tk = self.peek()
                if tk[0] == "end":
                    raise ParseError("unterminated lambda parameter list")
                var = tk[1] if tk[0] == "id" else var
                self.p += 1
            self.eat("op", ")")
            self.eat("op", "->")
            self.eat("id", "bool")
            self.eat("op", "{")
            self.eat("id", "return")
            body = self.expr()
            self.eat("op", ";")
            self.eat("op", "}")
            return ("lambda", var, body)
        raise ParseError(f"unexpected token {self.peek()!r} at {self.p}")


def parse_target(text: str, lang: str) -> Any:
    p = Parser(tokenize(text), lang)
    tree = p.expr()
    if p.peek()[0] != "end":
        raise ParseError(f"trailing tokens from {p.p}: {p.t[p.p:p.p + 4]}")
    return tree


def strip_parens(t: Any) -> Any:
    if isinstance(t, tuple):
        if t and t[0] == "paren":
            return strip_parens(t[1])
        return tuple(strip_parens(x) for x in t)
    if isinstance(t, list):
        return [strip_parens(x) for x in t]
    return t


def show_tree(t: Any) -> str:
    """A fully parenthesised rendering (for messages)."""
    k = t[0]
    if k in ("id", "lit"):
        return t[1]
    if k == "paren":
        return "(" + show_tree(t[1]) + ")"
    if k == "un":
        return t[1] + "⟨" + show_tree(t[2]) + "⟩"
    if k == "bin":
        return "⟨" + show_tree(t[2]) + " " + t[1] + " " + show_tree(t[3]) + "⟩"
    if k == "nary":
        return "⟨" + (" " + t[1] + " ").join(show_tree(x) for x in t[2]) + "⟩"
    if k == "member":
        return show_tree(t[1]) + t[3] + t[2]
    if k == "call":
        return show_tree(t[1]) + "(" + ", ".join(show_tree(x) for x in t[2]) + ")"
    if k == "lambda":
        return "λ" + str(t[1]) + "." + show_tree(t[2])
    if k == "tpl":
        return "`" + "".join(p[1] if p[0] == "l" else "${" + show_tree(p[1]) + "}" for p in t[1]) + "`"
    return repr(t)


# --------------------------------------------------------------------------- the three real transpilers + model input/output

LANGS = ("ts", "java", "cpp")
_PRIM_WIRE = {"BOOL": "bool", "INT": "int", "FLOAT": "float", "STR": "str", "BYTEARRAY": "bytearray", "LENGTH": "length", "NONE": "none"}


def _walk_tree(node: Any) -> Iterator[Any]:
    from harness.props.c08 import _tree_children

    yield node
    for c in _tree_children(node):
        yield from _walk_tree(c)


class Ambiguous(Exception):
    """Two different nodes with the same text need different annotations (the model keys by sub-expression)."""


class Target:
    """One target's real invariant transpiler on one symbol table, the encoding of what it reads for the model, and the
    rendering of the model's answer as a generic tree with the target's naming / literal functions."""

    def __init__(self, lang: str, st: Any) -> None:
        from aas_core_codegen import intermediate
        from aas_core_codegen.intermediate import type_inference as ti

        self.lang, self.st, self.I, self.ti = lang, st, intermediate, ti
        self.base_env = ti.populate_base_environment(symbol_table=st)
        if lang == "ts":
            from aas_core_codegen.typescript import common as cm, naming as nm
            from aas_core_codegen.typescript.lib import _generate_verification as gv
        elif lang == "java":
            from aas_core_codegen.java import common as cm, naming as nm
            from aas_core_codegen.java.lib import _generate_verification as gv
        else:
            from aas_core_codegen.cpp import common as cm, naming as nm
            from aas_core_codegen.cpp.lib import _generate_verification as gv
        self.cm, self.nm, self.gv = cm, nm, gv

    # ---- the real transpiler
    def env_for(self, owner: Any) -> Any:
        from aas_core_codegen.common import Identifier

        env = self.ti.MutableEnvironment(parent=self.base_env)
        env.set(identifier=Identifier("self"), type_annotation=self.ti.OurTypeAnnotation(our_type=owner))
        return env

    def real(self, owner: Any, inv: Any) -> Tuple[Optional[str], Any, Any, Any]:
        """(code | None, type_map, is_optional_map, error) — obtained the way ``_transpile_invariant`` obtains them."""
        env = self.env_for(owner)
        type_map, err = self.ti.infer_for_invariant(invariant=inv, environment=env)
        if err is not None:
            return None, None, None, err
        opt: Dict[Any, bool] = {}
        if self.lang == "ts":
            tr = self.gv._InvariantTranspiler(type_map=type_map, environment=env, symbol_table=self.st)
        elif self.lang == "java":
            from aas_core_codegen.java import optional as jopt

            oi = jopt.OptionalInferrer(environment=env, type_map=type_map)
            oi.transform(inv.body)
            if oi.errors:
                return None, type_map, None, oi.errors[0]
            opt = oi.is_optional_map
            tr = self.gv._InvariantTranspiler(type_map=type_map, is_optional_map=opt, environment=env, symbol_table=self.st)
        else:
            from aas_core_codegen.cpp import optionaling as copt

            oi = copt.Inferrer(environment=env, type_map=type_map)
            oi.transform(inv.body)
            if oi.errors:
                return None, type_map, None, oi.errors[0]
            opt = oi.is_optional_map
            if isinstance(owner, self.I.ConstrainedPrimitive):
                tr = self.gv._ConstrainedPrimitiveInvariantTranspiler(
                    type_map=type_map, is_optional_map=opt, environment=env, symbol_table=self.st, constrained_primitive=owner)
            else:
                tr = self.gv._ClassInvariantTranspiler(type_map=type_map, is_optional_map=opt, environment=env, symbol_table=self.st)
        code, err = tr.transform(inv.body)
        return (None if err is not None else str(code)), type_map, opt, err

    # ---- what the transpiler reads, for the model
    def _tag(self, t: Any) -> List[str]:
        ti, I = self.ti, self.I
        t = ti.beneath_optional(t)
        if isinstance(t, ti.PrimitiveTypeAnnotation):
            return ["p", _PRIM_WIRE[t.a_type.name]]
        if isinstance(t, ti.OurTypeAnnotation):
            if isinstance(t.our_type, I.Enumeration):
                return ["eo", enc_text(str(t.our_type.name))]
            if isinstance(t.our_type, I.ConstrainedPrimitive):
                return ["q", _PRIM_WIRE[t.our_type.constrainee.name]]
            return ["k"]
        if isinstance(t, ti.ListTypeAnnotation):
            return ["l"]
        if isinstance(t, ti.SetTypeAnnotation):
            return ["s"]
        if isinstance(t, ti.EnumerationAsTypeTypeAnnotation):
            return ["et", enc_text(str(t.enumeration.name))]
        return ["o"]

    def cfg(self, body: Any, type_map: Any, opt: Dict[Any, bool]) -> str:
        from harness.props.c08 import Emit

        base = Emit.__new__(Emit)
        base.st, base.I, base.ti = self.st, self.I, self.ti
        head = Emit.cfg(base, body, type_map)
        from aas_core_codegen.parse import tree as T

        # ``rawOpt`` (is the *inferred* type optional) depends on the narrowing context of an occurrence; the transpilers read
        # it only for the container of ``in`` (TypeScript) and for call arguments / formatted values (C++)
        sensitive: Dict[str, set] = {}
        for node in _walk_tree(body):
            kids: List[Any] = []
            if self.lang == "ts" and isinstance(node, T.IsIn):
                kids = [node.container]
            elif self.lang == "cpp" and isinstance(node, (T.FunctionCall, T.MethodCall)):
                kids = list(node.args)
            elif self.lang == "cpp" and isinstance(node, T.JoinedStr):
                kids = [v.value for v in node.values if not isinstance(v, str)]
            for kid in kids:
                if kid in type_map:
                    k = expr_wire.enc(mm.expr_from_project_tree(kid))
                    sensitive.setdefault(k, set()).add(isinstance(type_map[kid], self.ti.OptionalTypeAnnotation))
        anns: Dict[str, List[str]] = {}
        for node in _walk_tree(body):
            if node not in type_map:
                continue
            t = type_map[node]
            key = expr_wire.enc(mm.expr_from_project_tree(node))
            raw = isinstance(t, self.ti.OptionalTypeAnnotation)
            if key in sensitive:
                if len(sensitive[key]) > 1:
                    raise Ambiguous(key)
                raw = next(iter(sensitive[key]))
            val = self._tag(t) + ["1" if raw else "0", "1" if opt.get(node, False) else "0"]
            if key in anns and anns[key] != val:
                if key in sensitive or anns[key][:-2] != val[:-2] or anns[key][-1] != val[-1]:
                    raise Ambiguous(key)
                continue
            anns[key] = val
        out = [head, str(len(anns))]
        for k, v in anns.items():
            out.append(k)
            out.extend(v)
        return ",".join(out)

    # ---- the model's answer as a generic tree
    def lit_tree(self, toks: List[str]) -> Any:
        kind, val = toks
        cm = self.cm
        if kind == "kb":
            text = ("true" if val == "1" else "false")
        elif kind == "ki":
            v = int(val)
            text = str(cm.numeric_literal(v)) if self.lang == "ts" else (str(v) if self.lang == "java" else str(cm.float_literal(v)))
        elif kind == "kf":
            v = float(dec_text(val))
            text = str(cm.numeric_literal(v)) if self.lang == "ts" else (str(v) if self.lang == "java" else str(cm.float_literal(v)))
        else:
            s = dec_text(val)
            text = str(cm.wstring_literal(s)) if self.lang == "cpp" else str(cm.string_literal(s))
        return parse_target(text, self.lang)

    def tree(self, toks: List[str], owner: Any) -> Any:
        from aas_core_codegen.common import Identifier as Id

        nm, lang = self.nm, self.lang
        pos = 0

        def nxt() -> str:
            nonlocal pos
            pos += 1
            return toks[pos - 1]

        def name() -> Any:
            return Id(dec_text(nxt()))

        def many() -> List[Any]:
            return [go() for _ in range(int(nxt()))]

        def member(e: Any, n: str) -> Any:
            return ("member", e, str(n), "->" if lang == "cpp" else ".")

        def call0(e: Any, n: str) -> Any:
            return ("call", ("member", e, n, "."), [])

        def go() -> Any:
            k = nxt()
            if k == "T":
                if lang != "cpp":
                    return ("id", "that")
                return ("id", "value_" if isinstance(owner, self.I.ConstrainedPrimitive) else "instance_")
            if k == "V":
                return ("id", str(nm.variable_name(name())))
            if k == "C":
                n = name()
                if lang == "ts":
                    return ("member", ("id", "AasConstants"), str(nm.constant_name(n)), ".")
                if lang == "java":
                    return ("member", ("id", "Constants"), str(nm.property_name(n)), ".")
                return ("id", f"{self.cm.CONSTANTS_NAMESPACE}::{nm.constant_name(n)}")
            if k == "E":
                n = name()
                if lang == "ts":
                    return ("member", ("id", "AasTypes"), str(nm.enum_name(n)), ".")
                if lang == "java":
                    return ("id", str(nm.enum_name(n)))
                return ("id", f"{self.cm.TYPES_NAMESPACE}::{nm.enum_name(n)}")
            if k == "F":
                n = name()
                return ("id", str(nm.method_name(n) if lang == "java" else nm.function_name(n)))
            if k == "K":
                return self.lit_tree([nxt(), nxt()])
            if k == "A":
                e = go()
                kind = nxt()
                n = name()
                if kind == "L":
                    return ("member", e, str(nm.enum_literal_name(n)), ".")
                if kind == "M":
                    return member(e, str(nm.method_name(n)))
                if lang == "ts":
                    return ("member", e, str(nm.property_name(n)), ".")
                return ("call", member(e, str(nm.getter_name(n))), [])
            if k == "L":
                en, lit = name(), name()
                return ("id", f"{self.cm.TYPES_NAMESPACE}::{nm.enum_name(en)}::{nm.enum_literal_name(lit)}")
            if k == "U":
                kind = nxt()
                e = go()
                if kind == "get":
                    return call0(e, "get")
                if kind == "orElseNull":
                    return ("call", ("member", e, "orElse", "."), [("id", "null")])
                if kind == "deref":
                    return ("un", "*", e)
                return ("paren", ("un", "*", ("paren", e)))
            if k == "X":
                kind = nxt()
                c = go()
                i = go()
                if kind == "tsAt":
                    return ("call", ("member", ("id", "AasCommon"), "at", "."), [c, i])
                if kind == "javaGet":
                    return ("call", ("member", c, "get", "."), [i])
                if kind == "cppAt":
                    return ("call", ("member", c, "at", "."), [i])
                return call0(c, "back")
            if k == "Z":
                c = go()
                return ("bin", "-", call0(c, "size"), ("lit", nxt()))
            if k == "N":
                kind = nxt()
                e = go()
                if kind == "tsLength":
                    return ("member", e, "length", ".")
                if kind == "tsSize":
                    return ("member", e, "size", ".")
                return call0(e, "length" if kind == "javaLength" else "size")
            if k == "I":
                kind = nxt()
                c = go()
                m = go()
                if kind == "cppContains":
                    return ("call", ("id", "common::" + str(nm.function_name(Id("contains")))), [c, m])
                meth = {"tsIncludes": "includes", "tsHas": "has", "javaContains": "contains"}[kind]
                return ("call", ("member", c, meth, "."), [m])
            if k == "Q":
                kind = nxt()
                is_none = nxt() == "1"
                e = go()
                if kind == "tsStrict":
                    return ("bin", "===" if is_none else "!==", e, ("id", "null"))
                if kind == "javaNull":
                    return ("bin", "==" if is_none else "!=", e, ("id", "null"))
                return call0(e, "isPresent" if kind == "javaPresent" else "has_value")
            if k == "S":
                return call0(go(), "stream")
            if k == "M":
                e = go()
                m = name()
                return ("call", member(e, str(nm.method_name(m))), many())
            if k == "G":
                f = name()
                return ("call", ("id", str(nm.method_name(f) if lang == "java" else nm.function_name(f))), many())
            if k == "c":
                op = {"lt": "<", "le": "<=", "gt": ">", "ge": ">=", "eq": "==", "ne": "!="}[nxt()]
                l = go()
                return ("bin", op, l, go())
            if k == "!":
                return ("un", "!", go())
            if k == "B":
                op = "&&" if nxt() == "1" else "||"
                return ("nary", op, many())
            if k == "b":
                op = "+" if nxt() == "1" else "-"
                l = go()
                return ("bin", op, l, go())
            if k == "J":
                nxt()
                parts: List[Any] = []
                for _ in range(int(nxt())):
                    if nxt() == "l":
                        parts.append(("l", dec_text(nxt())))
                    else:
                        parts.append(("v", nxt(), go()))
                return self.interp_tree(parts)
            if k == "q":
                nxt()
                is_any = nxt() == "1"
                cond = go()
                var = str(nm.variable_name(name()))
                lam = ("lambda", var, cond)
                if nxt() == "e":
                    src = go()
                    if lang == "ts":
                        inner = ("call", ("member", ("id", "AasCommon"), "map", "."), [src, lam])
                        return ("call", ("member", ("id", "AasCommon"), "some" if is_any else "every", "."), [inner])
                    if lang == "java":
                        return ("call", ("member", src, "anyMatch" if is_any else "allMatch", "."), [lam])
                    fn = nm.function_name(Id("Some" if is_any else "All"))
                    return ("call", ("id", f"common::{fn}"), [lam, src])
                a = go()
                b = go()
                if lang == "ts":
                    rng = ("call", ("member", ("id", "AasCommon"), "range", "."), [a, b])
                    inner = ("call", ("member", ("id", "AasCommon"), "map", "."), [rng, lam])
                    return ("call", ("member", ("id", "AasCommon"), "some" if is_any else "every", "."), [inner])
                if lang == "java":
                    rng = ("call", ("member", ("id", "IntStream"), "range", "."), [a, b])
                    return ("call", ("member", rng, "anyMatch" if is_any else "allMatch", "."), [lam])
                return ("call", ("id", "common::" + ("SomeRange" if is_any else "AllRange")), [lam, a, b])
            if k == "P":
                return ("paren", go())
            raise ValueError(k)

        t = go()
        assert pos == len(toks), (pos, len(toks))
        return t

    def interp_tree(self, parts: List[Any]) -> Any:
        from aas_core_codegen.common import Identifier as Id

        lang, cm = self.lang, self.cm
        if lang == "ts":
            out: List[Any] = []
            for p in parts:
                if p[0] == "l":
                    raw = str(cm.string_literal(p[1], without_enclosing=True, in_backticks=True))
                    if raw:
                        if out and out[-1][0] == "l":
                            out[-1] = ("l", out[-1][1] + raw)
                        else:
                            out.append(("l", raw))
                else:
                    out.append(("v", p[2]))
            return ("tpl", out)
        if lang == "java":
            items = [parse_target(str(cm.string_literal(p[1])), lang) if p[0] == "l" else p[2] for p in parts]
            if not items:
                raise ParseError("empty concatenation")
            t = items[0]
            for x in items[1:]:
                t = ("bin", "+", t, x)
            return t
        args = []
        for p in parts:
            if p[0] == "l":
                args.append(parse_target(str(cm.wstring_literal(p[1])), lang))
            else:
                conv = p[1]
                if conv == "asIs":
                    args.append(p[2])
                else:
                    fn = {"stdToWstring": "std::to_wstring", "wstringify": "wstringification::to_wstring",
                          "base64": "wstringification::" + str(self.nm.function_name(Id("base64_encode")))}[conv]
                    args.append(("call", ("id", fn), [p[2]]))
        return ("call", ("id", "common::" + str(self.nm.function_name(Id("concat")))), args)


def _norm_tpl(t: Any) -> Any:
    """merge adjacent literal chunks of templates (both sides)"""
    if isinstance(t, tuple):
        if t and t[0] == "tpl":
            out: List[Any] = []
            for p in t[1]:
                if p[0] == "l" and out and out[-1][0] == "l":
                    out[-1] = ("l", out[-1][1] + p[1])
                else:
                    out.append(p if p[0] == "l" else ("v", _norm_tpl(p[1])))
            return ("tpl", out)
        return tuple(_norm_tpl(x) for x in t)
    if isinstance(t, list):
        return [_norm_tpl(x) for x in t]
    return t


def real_tree(code: str, lang: str, owner: Any, I: Any) -> Any:
    if lang == "cpp" and isinstance(owner, I.ConstrainedPrimitive):
        code = code.replace("(*value_)", "value_")
    return _norm_tpl(parse_target(code, lang))


class EmitBatch:
    """Real transpiler output of many models, compared with the models in few driver calls."""

    def __init__(self, ctx: Ctx, stream: str = "emit") -> None:
        self.ctx, self.stream = ctx, stream
        self.cases: Dict[str, List[Any]] = {lang: [] for lang in LANGS}
        self.n_models = 0

    def add(self, st: Any, src: str) -> None:
        from aas_core_codegen import intermediate as I

        ctx, stream = self.ctx, self.stream
        self.n_models += 1
        owners = [t for t in st.our_types if isinstance(t, (I.ConstrainedPrimitive, I.AbstractClass, I.ConcreteClass))]
        for lang in LANGS:
            tg = Target(lang, st)
            for owner in owners:
                for inv in owner.invariants:
                    if inv.specified_for is not owner:
                        continue
                    e_wire = expr_wire.enc(mm.expr_from_project_tree(inv.body))
                    try:
                        code, type_map, opt, err = tg.real(owner, inv)
                    except BaseException as ex:  # noqa: B902
                        if isinstance(ex, KeyboardInterrupt):
                            raise
                        code, type_map, opt, err = None, None, None, crash_name(ex)
                    if type_map is None:
                        ctx.hit(f"{stream}:{lang}:no-type-map")
                        continue
                    try:
                        cfg = tg.cfg(inv.body, type_map, opt or {})
                    except Ambiguous:
                        ctx.hit(f"{stream}:{lang}:ambiguous-key")
                        continue
                    real = ("ok", code) if code is not None else (("crash", err) if isinstance(err, str) else ("err", str(err)[:200]))
                    top = None
                    if real[0] == "ok" and lang in ("ts", "java"):
                        try:
                            snippet, _ = tg.gv._transpile_invariant(invariant=inv, symbol_table=st, environment=tg.env_for(owner))
                        except BaseException:  # noqa: B902
                            snippet = None
                        if snippet is not None and str(snippet).startswith("if (") and " {\n" in str(snippet):
                            top = (str(snippet)[3: str(snippet).index(" {\n")], len(real[1]) > 50 or "\n" in real[1])
                    self.cases[lang].append((tg, owner, inv, real, cfg, e_wire, src, top))
        if self.n_models >= 25:
            self.flush()

    def flush(self) -> None:
        from aas_core_codegen import intermediate as I

        ctx, stream = self.ctx, self.stream
        for lang in LANGS:
            cases = self.cases[lang]
            self.cases[lang] = []
            if not cases:
                continue
            tops = [c for c in cases if c[7] is not None]
            lines = [f"emit {lang} {cfg} 0 {e}" for _, _, _, _, cfg, e, _, _ in cases] + \
                    [f"inv {lang} {cfg} {'1' if top[1] else '0'} {e}" for _, _, _, _, cfg, e, _, top in tops]
            answers = ctx.model(lines) if ctx.driver_ok else [None] * len(lines)
            for (tg, owner, inv, real, cfg, e, src, top), ans in zip(cases, answers[:len(cases)]):
                self.judge_one(lang, tg, owner, inv, real, cfg, e, src, ans, I)
            for (tg, owner, inv, real, cfg, e, src, top), ans in zip(tops, answers[len(cases):]):
                self.judge_top(lang, tg, owner, inv, cfg, e, src, top, ans)
        self.n_models = 0

    def judge_top(self, lang: str, tg: "Target", owner: Any, inv: Any, cfg: str, e: str, src: str, top: Any, ans: Any) -> None:
        ctx, stream = self.ctx, self.stream
        cond, long = top
        if ans is None:
            return
        ctx.count((lang, "top", e, cfg), nontrivial=True, stream=f"{stream}:{lang}:top")
        ctx.traces_validated += 1
        inp = {"model": src, "target": lang, "owner": str(owner.name), "invariant": inv.description,
               "expr": mm.render_expr(mm.expr_from_project_tree(inv.body))}
        try:
            rtree = _norm_tpl(parse_target(cond, lang))
        except ParseError as pe:
            ctx.fail(inp, f"the condition of the emitted {lang} `if` is outside the expression grammar of the target: {pe}: {cond!r}",
                     f"C09:emitted-syntax:{lang}")
            return
        if not ans.startswith("ok "):
            ctx.disagree(f"{stream}:{lang}:top", inp, cond, ans)
            return
        try:
            mtree = ("paren", _norm_tpl(tg.tree(ans.split(" ")[1].split(","), owner)))
        except ParseError as pe:
            ctx.disagree(f"{stream}:{lang}:top", inp, cond, f"model output cannot be rendered: {pe}")
            return
        ctx.hit(f"{stream}:{lang}:top:{'long' if long else 'short'}")
        if mtree != rtree:
            ctx.disagree(f"{stream}:{lang}:top", inp, cond, show_tree(mtree))

    def judge_one(self, lang: str, tg: "Target", owner: Any, inv: Any, real: Any, cfg: str, e: str, src: str, ans: Any, I: Any) -> None:
        ctx, stream = self.ctx, self.stream
        ctx.count((lang, e, cfg), nontrivial=e.count(",") > 3, stream=f"{stream}:{lang}")
        inp = {"model": src, "target": lang, "owner": str(owner.name), "invariant": inv.description,
               "expr": mm.render_expr(mm.expr_from_project_tree(inv.body))}
        ctx.hit(f"{stream}:{lang}:real-{real[0]}")
        rtree = None
        if real[0] == "ok":
            try:
                rtree = real_tree(real[1], lang, owner, I)
            except ParseError as pe:
                ctx.fail(inp, f"the emitted {lang} expression is outside the expression grammar of the target: {pe}: {real[1]!r}",
                         f"C09:emitted-syntax:{lang}")
                return
        if ans is None:
            return
        ctx.traces_validated += 1
        if not ans.startswith("ok "):
            if ans != real[0]:
                ctx.disagree(f"{stream}:{lang}", inp, real[1] if real[0] == "ok" else real[0], ans)
            return
        if real[0] != "ok":
            ctx.disagree(f"{stream}:{lang}", inp, real[0] + ": " + str(real[1]), ans[:200])
            return
        _, wire, _stripped = ans.split(" ")
        try:
            mtree = _norm_tpl(tg.tree(wire.split(","), owner))
        except ParseError as pe:
            ctx.disagree(f"{stream}:{lang}", inp, real[1], f"model output cannot be rendered: {pe}")
            return
        for k in wire.split(","):
            if k in ("U", "X", "Z", "N", "I", "Q", "S", "M", "G", "c", "!", "B", "b", "J", "q", "P", "A", "L", "K"):
                ctx.hit(f"{stream}:{lang}:node:{k}")
        if ctx.evaluations % 37 == 0:
            ctx.sample({"target": lang, "expr": inp["expr"], "emitted": real[1]})
        if mtree == rtree:
            return
        if strip_parens(mtree) == strip_parens(rtree):
            ctx.disagree(f"{stream}:{lang}-parens", inp, real[1], show_tree(mtree))
        else:
            ctx.disagree(f"{stream}:{lang}", inp, real[1], show_tree(mtree))


def emit_checks(ctx: Ctx, st: Any, src: str, stream: str = "emit") -> None:
    """Every invariant of the symbol table through the three real transpilers and the three models."""
    b = EmitBatch(ctx, stream)
    b.add(st, src)
    b.flush()


# --------------------------------------------------------------------------- inputs

#: seed-independent: one model whose invariants reach every node class and every emitted construct of the three transpilers
ENUMERATED_MODEL = '''\
from enum import Enum
from re import match
from typing import List, Optional, Set

from icontract import invariant, DBC

from aas_core_meta.marker import (
    abstract,
    serialization,
    implementation_specific,
    verification,
    constant_set,
    non_mutating,
)


__version__ = "1"

__xml_namespace__ = "https://example.com/aasv/c09"


@verification
def matches_word(text: str) -> bool:
    pattern = f"^[a-z]+$"
    return match(pattern, text) is not None


@verification
def is_short(text: str) -> bool:
    return len(text) < 4


class Color(Enum):
    Red = "RED"
    Green = "GREEN"


@invariant(lambda self: len(self) >= 1, "Word must not be empty.")
@invariant(lambda self: matches_word(self), "Word must be lower-case.")
class Word(str, DBC):
    """Represent a word."""


@invariant(lambda self: self >= 0, "Count must not be negative.")
class Count(int, DBC):
    """Represent a count."""


Short_words: Set[str] = constant_set(values=["a", "an", "the"], description="Short words.")

Limit: int = constant_int(value=5, description="A limit.")


@invariant(lambda self: self.weight > 0, "Weight must be positive: a weight of an item is a strictly positive number, and the unit of the weight is the gram.")
class Item(DBC):
    """Represent an item."""

    name: "Word"
    weight: int
    tag: Optional[str]

    def __init__(self, name: "Word", weight: int, tag: Optional[str] = None) -> None:
        self.name = name
        self.weight = weight
        self.tag = tag


@invariant(lambda self: f"a{self.title}b" != "axb", "Title must not be x.")
@invariant(lambda self: not (self.count is not None) or self.count + 1 > self.items[0].weight - 2, "Count arithmetic.")
@invariant(lambda self: not (len(self.items) >= 2) or self.items[-2].weight <= self.items[-1].weight, "Sorted at the end.")
@invariant(lambda self: self.color == Color.Red or self.color != Color.Green or self.title in Short_words, "Colors.")
@invariant(lambda self: self.title in Short_words, "Title must be a short word.")
@invariant(lambda self: self.nick is None or (is_short(self.nick) and matches_word(self.nick)), "Nick.")
@invariant(lambda self: not (self.nick is not None) or len(self.nick) <= Limit, "Nick length.")
@invariant(lambda self: any(item.weight > 3 for item in self.items), "Some heavy item.")
@invariant(lambda self: all(item.tag is None or len(item.tag) >= 1 for item in self.items), "Tags are not empty.")
@invariant(lambda self: all(self.items[i].weight >= i for i in range(0, len(self.items))), "Weights grow.")
@invariant(lambda self: not (self.count is not None) or (self.count >= 1 and self.count <= 10), "Count range.")
@invariant(lambda self: not self.flag or len(self.items) >= 1, "Flag needs items.")
@invariant(lambda self: len(self.title) >= 1 and len(self.title) <= 10, "Title length.")
@invariant(lambda self: self.flag or not self.flag, "The flag of the shelf is set, or it is not set, which is no exception to the rule; the description is long enough to be wrapped into several literals.")
@serialization(with_model_type=True)
class Shelf(DBC):
    """Represent a shelf."""

    title: str
    items: List["Item"]
    color: "Color"
    flag: bool
    nick: Optional[str]
    count: Optional[int]
    blob: Optional[bytearray]

    def __init__(self, title: str, items: List["Item"], color: "Color", flag: bool, nick: Optional[str] = None, count: Optional[int] = None, blob: Optional[bytearray] = None) -> None:
        self.title = title
        self.items = items
        self.color = color
        self.flag = flag
        self.nick = nick
        self.count = count
        self.blob = blob
'''


#: … and one the Java generator rejects (length of a set): TypeScript `.size`, C++ `.size()`
ENUMERATED_MODEL_2 = ENUMERATED_MODEL.replace(
    '@invariant(lambda self: len(self.title) >= 1 and len(self.title) <= 10, "Title length.")',
    '@invariant(lambda self: len(self.title) >= 1 and len(self.title) <= 10, "Title length.")\n'
    '@invariant(lambda self: len(Short_words) >= 3 or self.flag, "Three short words.")')


def fixture_sources() -> List[Tuple[str, str]]:
    import hashlib

    from harness.core import REPO

    out, seen = [], set()
    for p in sorted((REPO / "dev" / "test_data").glob("**/meta_model.py")):
        try:
            text = p.read_text(encoding="utf-8")
        except (OSError, UnicodeDecodeError):
            continue
        if "@invariant" not in text or "aas_core_meta.v3" in str(p):
            continue
        h = hashlib.blake2b(text.encode("utf-8"), digest_size=8).hexdigest()
        if h not in seen:
            seen.add(h)
            out.append((str(p.relative_to(REPO / "dev" / "test_data")), text))
    return out


def model_features(k: int) -> Any:
    ft = mm.Features()
    if k % 4 == 1:
        ft.joined_str_in_invariants = True
    if k % 4 == 2:
        ft.lists_of_non_classes = True
        ft.len_of_constrained = True
    if k % 4 == 3:
        ft.guards_on_other_property = True
        ft.len_of_bytes = True
    return ft


def sources(ctx: Ctx) -> Iterator[Tuple[str, str, Any]]:
    """(stream, source text, label)"""
    import random as _random

    for c in corpus(ID):
        if "model" in c:
            yield "corpus", c["model"], c.get("name", "corpus")
    yield "enumerated", ENUMERATED_MODEL, "enumerated"
    yield "enumerated", ENUMERATED_MODEL_2, "enumerated-2"
    fx = fixture_sources()
    if ctx.tier == "quick" and not ctx.searching:
        fx = fx[:: 3]
    for name, text in fx:
        yield "fixture", text, name
    for k in range(ctx.n(30, 300)):
        sub = ctx.rng.randrange(2**32)
        m = mm.random_mm(_random.Random(sub), size=2 + k % 4, features=model_features(k))
        yield "random", mm.render(m), {"k": k, "seed": ctx.seed, "subseed": sub}


def stream_emit(ctx: Ctx) -> None:
    batch = EmitBatch(ctx, "emit")
    for stream, src, label in sources(ctx):
        st, err = mm.load(src)
        if st is None:
            ctx.hit(f"model:{stream}:rejected")
            continue
        ctx.hit(f"model:{stream}:accepted")
        batch.add(st, src)
    batch.flush()


def correspond(ctx: Ctx) -> None:
    ctx.extra_cov["rule"] = (
        "inputs = corpus + one hand-written model reaching every node class + fixture meta-models with invariants + seeded "
        "random meta-models (harness.mm); per invariant and target one comparison of the real transpiler output (parsed) with "
        "the model's output; non-trivial = expression with more than 3 tokens on the wire; distinct by (target, expression, cfg)")
    ctx.assumptions.extend([
        "PARTIAL: JSON (de)serialization and whole-SDK verdicts of the TypeScript / Java / C++ SDKs are NOT decided (no way to build them offline)",
        "the semantics of the emitted TypeScript / Java / C++ operators (Model/TargetEval, Model/TargetSem) are modelled, not verified; "
        "executed only for the TypeScript conditions (node) and for Java reference equality (javac + java)",
        "the inferred type map and the is-optional maps of the Java / C++ inferrers are inputs of the transpiler models",
    ])
    stream_emit(ctx)


# --------------------------------------------------------------------------- direct oracle (independent of the Lean model)
# The observable parts of C09 that can be decided without building an SDK:
#  (a) constants and enumeration literals of the generated TypeScript / Java / C++ files equal those of the imported Python SDK
#      (the generated definitions are executed stand-alone: node / javac+java / g++);
#  (b) the message literals of every invariant in the three generated verification files decode (node / javac / g++ as readers
#      of the literal text) to the description the Python SDK reports, in the same per-owner order;
#  (c) every invariant of the Python verification has its check in each target (none silently skipped).

import pathlib
import subprocess

_STR = r'"(?:[^"\\\n]|\\.)*"'


def _norm(name: str) -> str:
    return re.sub(r"[^a-z0-9]", "", name.lower())


def _utf16(s: str) -> Tuple[int, ...]:
    b = s.encode("utf-16-le", "surrogatepass")
    return tuple(int.from_bytes(b[i:i + 2], "little") for i in range(0, len(b), 2))


def _run(cmd: List[str], cwd: pathlib.Path, timeout: int = 600) -> Tuple[int, str, str]:
    pr = subprocess.run(cmd, cwd=str(cwd), stdout=subprocess.PIPE, stderr=subprocess.PIPE, timeout=timeout)
    return pr.returncode, pr.stdout.decode("utf-8", "replace"), pr.stderr.decode("utf-8", "replace")


# ---- Python side (the reference)

def python_reference(sdk: Any, st: Any) -> Dict[str, Any]:
    """Constants and enumerations as the imported Python SDK exposes them, descriptions as its verification module holds them."""
    from aas_core_codegen import intermediate as I
    from aas_core_codegen.python import naming as pn

    consts: Dict[str, Any] = {}
    for c in st.constants:
        v = getattr(sdk.constants, str(pn.constant_name(c.name)))
        if isinstance(v, (set, frozenset)):
            items = []
            for x in v:
                is_enum = hasattr(x, "name") and hasattr(x, "value") and not isinstance(x, (int, str, float, bytes))
                items.append(("enum", type(x).__name__, x.name) if is_enum else x)
            consts[str(c.name)] = ("set", items)
        else:
            consts[str(c.name)] = ("val", v)
    enums: Dict[str, List[Tuple[str, str]]] = {}
    for t in st.our_types:
        if isinstance(t, I.Enumeration):
            cls = getattr(sdk.types, str(pn.enum_name(t.name)))
            enums[str(t.name)] = [(str(lit.name), getattr(cls, str(pn.enum_literal_name(lit.name))).value) for lit in t.literals]
    # descriptions from the generated verification.py, per owner in order
    src = (sdk.package_dir / "verification.py").read_text(encoding="utf-8")
    tree = ast.parse(src)
    by_fn: Dict[str, List[str]] = {}
    for fn in ast.walk(tree):
        if isinstance(fn, ast.FunctionDef) and (fn.name.startswith("transform_") or fn.name.startswith("verify_")):
            found = []
            for st_ in fn.body:
                if isinstance(st_, ast.If):
                    for sub in st_.body:
                        if isinstance(sub, ast.Expr) and isinstance(sub.value, ast.Yield) and isinstance(sub.value.value, ast.Call) \
                                and isinstance(sub.value.value.func, ast.Name) and sub.value.value.func.id == "Error" \
                                and len(sub.value.value.args) == 1:
                            arg = sub.value.value.args[0]
                            found.append(eval(compile(ast.Expression(arg), "<literal>", "eval"), {"__builtins__": {}}))  # noqa: S307
            by_fn.setdefault(_norm(fn.name), []).extend(found)
    descr: Dict[str, List[str]] = {}
    for t in st.our_types:
        if isinstance(t, I.Enumeration):
            continue
        key = _norm(("verify_" if isinstance(t, I.ConstrainedPrimitive) else "transform_") + str(t.name))
        descr[str(t.name)] = by_fn.get(key, [])
    return {"consts": consts, "enums": enums, "descr": descr}


# ---- TypeScript

_TS_ENC = """
function enc(v) {
  if (typeof v === 'string') { const a = []; for (let i = 0; i < v.length; i++) a.push(v.charCodeAt(i)); return {s: a}; }
  if (typeof v === 'number') return {n: String(v), int: Number.isInteger(v)};
  if (typeof v === 'boolean') return {b: v};
  if (v instanceof Set) return {set: Array.from(v, enc)};
  if (v instanceof Uint8Array) return {y: Array.from(v)};
  if (v && v.enumLit) return {e: v.enumLit};
  return {u: String(v)};
}
"""


def ts_constants(text: str, scratch: pathlib.Path) -> Any:
    """Run the definitions of constants.ts under node (type arguments erased, ``AasTypes.E.L`` replaced by a marker)."""
    names = re.findall(r"^export const (\w+)", text, re.M)
    body = re.sub(r"^import .*$", "", text, flags=re.M)
    body = re.sub(r"new Set<[^>(]*>\(", "new Set(", body)
    body = re.sub(r"^export const (\w+)\s*:\s*[^=\n]+=", r"const \1 =", body, flags=re.M)
    body = body.replace("export const ", "const ")
    js = ("const AasTypes = new Proxy({}, {get: (_, e) => new Proxy({}, {get: (_, l) => ({enumLit: [String(e), String(l)]})})});\n"
          + body + _TS_ENC + "console.log(JSON.stringify({" + ", ".join(f"{json.dumps(n)}: enc({n})" for n in names) + "}));\n")
    f = scratch / "constants.js"
    f.write_text(js, encoding="utf-8")
    rc, out, err = _run(["node", str(f)], scratch)
    if rc != 0:
        lines = [ln for ln in err.splitlines() if "Error" in ln]
        return {"error": (lines[0] if lines else (err.strip().splitlines() or ["node failed"])[-1])[:300]}
    return json.loads(out)


def ts_enums(text: str) -> Dict[str, List[Tuple[str, str]]]:
    out: Dict[str, List[Tuple[str, str]]] = {}
    for m in re.finditer(r"new Map<AasTypes\.(\w+), string>\(\[(.*?)\]\);", text, re.S):
        out[m.group(1)] = re.findall(r"\[AasTypes\.\w+\.(\w+),\s*(" + _STR + r")\]", m.group(2))
    return out


def _sections(text: str, header: str) -> List[Tuple[str, str]]:
    """[(captured name, text up to the next header)]"""
    ms = list(re.finditer(header, text, re.M))
    return [(m.group(1), text[m.end(): (ms[i + 1].start() if i + 1 < len(ms) else len(text))]) for i, m in enumerate(ms)]


def ts_descriptions(text: str) -> Dict[str, List[List[str]]]:
    out: Dict[str, List[List[str]]] = {}
    for name, sec in _sections(text, r"\*(transform\w+WithContext|verify\w+)\s*\("):
        out.setdefault(_norm(name), []).extend(
            re.findall(_STR, m.group(1)) for m in re.finditer(r"yield new VerificationError\(\s*((?:" + _STR + r"\s*\+?\s*)+)\)", sec))
    return out


# ---- Java

_JAVA_DUMP = """
import java.lang.reflect.*;
import java.util.*;
public class Dump {
  static String enc(Object v) {
    if (v == null) return "null";
    if (v instanceof String) { StringBuilder sb = new StringBuilder("s"); String s = (String) v; for (int i = 0; i < s.length(); i++) sb.append(' ').append((int) s.charAt(i)); return sb.toString(); }
    if (v instanceof Boolean) return "b " + v;
    if (v instanceof Long || v instanceof Integer || v instanceof Short) return "i " + v;
    if (v instanceof Float) return "f Float " + ((Float) v).doubleValue();
    if (v instanceof Double) return "f Double " + v;
    if (v instanceof byte[]) { StringBuilder sb = new StringBuilder("y"); for (byte b : (byte[]) v) sb.append(' ').append(b & 0xff); return sb.toString(); }
    if (v instanceof Enum) return "e " + v.getClass().getSimpleName() + " " + ((Enum<?>) v).name();
    if (v instanceof Set) { List<String> xs = new ArrayList<>(); for (Object x : (Set<?>) v) xs.add(enc(x)); Collections.sort(xs); return "S " + String.join(" | ", xs); }
    return "u " + v;
  }
  public static void main(String[] a) throws Exception {
    for (Field f : Class.forName(a[0]).getFields()) {
      if (Modifier.isStatic(f.getModifiers())) System.out.println(f.getName() + "\\t" + enc(f.get(null)));
    }
  }
}
"""


def java_constants(root: pathlib.Path, scratch: pathlib.Path) -> Any:
    """Compile Constants.java + the enumerations with javac and read every public static field by reflection."""
    consts = list(root.rglob("Constants.java"))
    if not consts:
        return {"error": "Constants.java not generated"}
    enums = [p for p in root.rglob("*.java") if "enums" in p.parts]
    pkg = re.search(r"^package ([\w.]+);", consts[0].read_text(encoding="utf-8"), re.M)
    out_dir = scratch / "jclasses"
    out_dir.mkdir(exist_ok=True)
    (scratch / "Dump.java").write_text(_JAVA_DUMP, encoding="utf-8")
    rc, _, err = _run(["javac", "-encoding", "UTF-8", "-nowarn", "-d", str(out_dir), str(scratch / "Dump.java")]
                      + [str(p) for p in consts + enums], scratch)
    if rc != 0:
        first = [ln for ln in err.splitlines() if "error:" in ln]
        return {"error": (first[0].split("error:", 1)[1].strip() if first else err.strip()[:200]), "n_errors": len(first)}
    rc, out, err = _run(["java", "-cp", str(out_dir), "Dump", (pkg.group(1) + "." if pkg else "") + "Constants"], scratch)
    if rc != 0:
        return {"error": "running: " + err.strip()[:200]}
    res = {}
    for line in out.splitlines():
        n, _, v = line.partition("\t")
        res[n] = v
    return res


def java_enums(root: pathlib.Path) -> Dict[str, List[Tuple[str, str]]]:
    out: Dict[str, List[Tuple[str, str]]] = {}
    for p in root.rglob("Stringification.java"):
        text = p.read_text(encoding="utf-8")
        for en, lit, val in re.findall(r"temp\.put\((\w+)\.(\w+),\s*(" + _STR + r")\);", text):
            out.setdefault(en, []).append((lit, val))
    return out


def java_descriptions(root: pathlib.Path) -> Dict[str, List[List[str]]]:
    out: Dict[str, List[List[str]]] = {}
    for p in root.rglob("Verification.java"):
        text = p.read_text(encoding="utf-8")
        for name, sec in _sections(text, r"Stream<Reporting\.Error>\s+(transform\w+|verify\w+)\s*\("):
            out.setdefault(_norm(name), []).extend(
                re.findall(_STR, m.group(1)) for m in re.finditer(r"new Reporting\.Error\(\s*((?:" + _STR + r"\s*\+?\s*)+)\)", sec))
    return out


# ---- C++

_CPP_MAIN = """
#include <cstdio>
#include <type_traits>
template <class T> typename std::enable_if<std::is_enum<T>::value>::type dump(const T& v) { std::printf("e %llu", (unsigned long long) v); }
void dump(const bool& v) { std::printf("b %s", v ? "true" : "false"); }
void dump(const int64_t& v) { std::printf("i %lld", (long long) v); }
void dump(const double& v) { std::printf("f %.17g", v); }
void dump(const std::wstring& v) { std::printf("s"); for (wchar_t c : v) std::printf(" %lu", (unsigned long) c); }
void dump(const std::vector<std::uint8_t>& v) { std::printf("y"); for (auto c : v) std::printf(" %u", (unsigned) c); }
template <class T, class H> void dump(const std::unordered_set<T, H>& v) { std::printf("S"); for (const auto& x : v) { std::printf(" | "); dump(x); } }
"""


def cpp_constants(root: pathlib.Path, scratch: pathlib.Path) -> Any:
    """Compile constants.cpp against constants.hpp with ``types.hpp`` replaced by the enumeration definitions it contains."""
    hpp = next(iter(root.rglob("constants.hpp")), None)
    cpp = next(iter(root.rglob("constants.cpp")), None)
    types = next(iter(root.rglob("types.hpp")), None)
    if hpp is None or cpp is None or types is None:
        return {"error": "constants.hpp / constants.cpp / types.hpp not generated"}
    ttext = types.read_text(encoding="utf-8")
    enums = re.findall(r"^enum class \w+ : [\w:]+ \{.*?^\};", ttext, re.S | re.M)
    htext = hpp.read_text(encoding="utf-8")
    inc = re.search(r'#include "([^"]*types\.hpp)"', htext)
    spaces = re.findall(r"^namespace (\w+) \{", htext, re.M)
    if inc is None or len(spaces) < 2:
        return {"error": "unexpected shape of constants.hpp"}
    prelude = "#include <cstdint>\n#include <string>\n#include <vector>\n#include <unordered_set>\n" + \
        "".join(f"namespace {n} {{\n" for n in spaces[:-1]) + "namespace types {\n" + "\n".join(enums) + "\n}\n" + "}\n" * len(spaces[:-1])
    rel = re.search(r'#include "([^"]*constants\.hpp)"', cpp.read_text(encoding="utf-8"))
    if rel is None:
        return {"error": "constants.cpp does not include constants.hpp"}
    inc_dir = scratch / "cinc"
    target = inc_dir / rel.group(1)
    target.parent.mkdir(parents=True, exist_ok=True)
    target.write_text(htext.replace(inc.group(0), prelude), encoding="utf-8")
    decls = re.findall(r"^extern const (.+?) (k\w+);", htext, re.M)
    ns = "::".join(spaces)
    main = f'#include "{rel.group(1)}"\n' + _CPP_MAIN + "int main() {\n" + \
        "".join(f'  std::printf("{n}\\t"); dump({ns}::{n}); std::printf("\\n");\n' for _, n in decls) + "  return 0;\n}\n"
    (scratch / "cmain.cpp").write_text(main, encoding="utf-8")
    exe = scratch / "cconst"
    rc, _, err = _run(["g++", "-std=c++17", "-w", "-I", str(inc_dir), str(cpp), str(scratch / "cmain.cpp"), "-o", str(exe)], scratch)
    if rc != 0:
        first = [ln for ln in err.splitlines() if "error:" in ln]
        return {"error": (first[0].split("error:", 1)[1].strip() if first else err.strip()[:200])}
    rc, out, err = _run([str(exe)], scratch)
    if rc != 0:
        return {"error": "running: " + err.strip()[:200]}
    by_value: Dict[str, Dict[str, str]] = {}
    for e in enums:
        pairs = re.findall(r"^\s*(k\w+)\s*=\s*(\d+)", e, re.M)
        by_value[re.search(r"enum class (\w+)", e).group(1)] = {v: n for n, v in pairs}
    res: Dict[str, Any] = {}
    type_of = {n: t for t, n in decls}
    for line in out.splitlines():
        n, _, v = line.partition("\t")
        m = re.search(r"types::(\w+)", type_of.get(n, ""))
        if m and m.group(1) in by_value:
            table = by_value[m.group(1)]
            v = re.sub(r"\be (\d+)", lambda mm_: f"e {m.group(1)} {table.get(mm_.group(1), '?' + mm_.group(1))}", v)
        res[n] = v
    return res


def cpp_enums(root: pathlib.Path) -> Dict[str, List[Tuple[str, str]]]:
    out: Dict[str, List[Tuple[str, str]]] = {}
    for p in root.rglob("stringification.cpp"):
        text = p.read_text(encoding="utf-8")
        for en, lit, val in re.findall(r"case types::(\w+)::(\w+):\s*return (" + _STR + r");", text):
            out.setdefault(en, []).append((lit, val))
    return out


def cpp_descriptions(root: pathlib.Path) -> Dict[str, List[List[str]]]:
    out: Dict[str, List[List[str]]] = {}
    for p in root.rglob("verification.cpp"):
        text = p.read_text(encoding="utf-8")
        for name, sec in _sections(text, r"^void (Of\w+)::Execute\(\) \{"):
            out.setdefault(_norm(name), []).extend(
                re.findall("L" + _STR, m.group(1)) for m in re.finditer(r"make_unique<Error>\(\s*((?:L" + _STR + r"\s*)+)\)", sec))
    return out


# ---- judging one model

_TARGET_DIR = {"ts": "typescript", "java": "java", "cpp": "cpp"}

EXTRA_CONSTANTS = '''
Ratio: float = constant_float(value=1.5, description="A ratio.")

Tenth: float = constant_float(value=0.1, description="Not a binary fraction.")

Big: int = constant_int(value=9007199254740992, description="2**53: beyond the int range of Java and C++ literals.")

Greeting: str = constant_str(value="hi \\"there\\"\\n\\t\\\\ \\u00e4\\u20ac \\U0001F600 ${x} `q` {y}", description="A greeting.")

Enabled: bool = constant_bool(value=True, description="A flag.")

Disabled: bool = constant_bool(value=False, description="A flag.")

Small_numbers: Set[int] = constant_set(values=[1, 2, 3, 4294967296], description="Small numbers.")

Odd_words: Set[str] = constant_set(values=["a b", "\\u00e4", "x\\"y", "\\U0001F600"], description="Odd words.")

Warm: Set[Color] = constant_set(values=[Color.Red], description="Warm colors.")
'''

CONSTANTS_MODEL = ENUMERATED_MODEL.replace(
    'Limit: int = constant_int(value=5, description="A limit.")\n',
    'Limit: int = constant_int(value=5, description="A limit.")\n' + EXTRA_CONSTANTS).replace(
    '    Green = "GREEN"\n', '    Green = "GREEN"\n    Dark_blue = "dark blue \\"q\\" \\\\ end"\n')


class Observed:
    """What one model's generated files hold (raw literal texts still to be decoded)."""

    def __init__(self, label: Any, src: str, st: Any, ref: Dict[str, Any]) -> None:
        self.label, self.src, self.st, self.ref = label, src, st, ref
        self.consts: Dict[str, Any] = {}
        self.enums: Dict[str, Dict[str, List[Tuple[str, str]]]] = {}
        self.descr: Dict[str, Dict[str, List[List[str]]]] = {}
        self.gen_error: Dict[str, str] = {}
        self.pending: Dict[str, Any] = {}
        self.tsdiff: Any = None
        self.tsdiff_result: Any = None
        self.only_tsdiff = False


def observe(ctx: Ctx, label: Any, src: str, pool: Any, m: Any = None, only_tsdiff: bool = False) -> Optional[Observed]:
    """Generate the four SDKs of one model; the tool-chain runs (node, javac+java, g++) are submitted to ``pool``."""
    sdk = mm.load_python_sdk(src, ctx.scratch() / f"py{ctx.evaluations}")
    try:
        if not sdk.ok:
            ctx.hit("oracle:python-sdk-not-generated")
            return None
        st = sdk.symbol_table
        ob = Observed(label, src, st, python_reference(sdk, st))
        ob.only_tsdiff = only_tsdiff
        if m is not None:
            prep = ts_differential_prepare(ctx, m, sdk, st, 12)
            if prep is not None:
                sc = ctx.scratch() / f"tsdiff{ctx.evaluations}"
                sc.mkdir(parents=True, exist_ok=True)
                prep["future"] = pool.submit(ts_differential_run, prep["script"], sc)
                ob.tsdiff = prep
    finally:
        sdk.close()
    ob.pending = {}
    if only_tsdiff:
        return ob
    for lang in LANGS:
        root = ctx.scratch() / f"gen{ctx.evaluations}" / lang
        res = mm.generate(_TARGET_DIR[lang], src, root, symbol_table=st)
        if not res.ok:
            ob.gen_error[lang] = f"rc={res.rc} {res.exception or ''} {(res.stderr or '')[:200]}"
            ctx.hit(f"oracle:{lang}:not-generated")
            continue
        sc = ctx.scratch() / f"run{ctx.evaluations}" / lang
        sc.mkdir(parents=True, exist_ok=True)
        if lang == "ts":
            if st.constants:
                ob.pending[lang] = pool.submit(ts_constants, (root / "src" / "constants.ts").read_text(encoding="utf-8"), sc)
            ob.enums[lang] = ts_enums((root / "src" / "stringification.ts").read_text(encoding="utf-8"))
            ob.descr[lang] = ts_descriptions((root / "src" / "verification.ts").read_text(encoding="utf-8"))
        elif lang == "java":
            if st.constants:
                ob.pending[lang] = pool.submit(java_constants, root, sc)
            ob.enums[lang] = java_enums(root)
            ob.descr[lang] = java_descriptions(root)
        else:
            if st.constants:
                ob.pending[lang] = pool.submit(cpp_constants, root, sc)
            ob.enums[lang] = cpp_enums(root)
            ob.descr[lang] = cpp_descriptions(root)
        if not st.constants:
            ob.consts[lang] = {}
    return ob


def _literals_of(obs: List[Observed]) -> Dict[str, List[str]]:
    need: Dict[str, set] = {"js": set(), "java": set(), "cppwide": set(), "cppnarrow": set()}
    for ob in obs:
        for lang, key in (("ts", "js"), ("java", "java"), ("cpp", "cppnarrow")):
            for pairs in ob.enums.get(lang, {}).values():
                need[key].update(v for _, v in pairs)
        for lang, key in (("ts", "js"), ("java", "java"), ("cpp", "cppwide")):
            for lists in ob.descr.get(lang, {}).values():
                for lits in lists:
                    need[key].update(lits)
    return {k: sorted(v) for k, v in need.items()}


def decode_literals(ctx: Ctx, obs: List[Observed], pool: Any) -> Dict[Tuple[str, str], Any]:
    """One node run, one javac batch, two g++ batches for all string literals of all models (run side by side)."""
    from harness import c19_tc

    need = _literals_of(obs)
    jobs = {}
    for key, fn in (("js", lambda l, d: c19_tc.read_js(l, "quoted", d)), ("java", lambda l, d: c19_tc.read_java(l, d)),
                    ("cppwide", lambda l, d: c19_tc.read_cpp(l, "wide", d)), ("cppnarrow", lambda l, d: c19_tc.read_cpp(l, "narrow", d))):
        if need[key]:
            sc = ctx.scratch() / ("decode-" + key)
            sc.mkdir(parents=True, exist_ok=True)
            jobs[key] = pool.submit(fn, need[key], sc)
    out: Dict[Tuple[str, str], Any] = {}
    for key, fut in jobs.items():
        for lit, v in zip(need[key], fut.result()):
            out[(key, lit)] = v
    return out


_LINE_BREAKS = "\r\x0b\x0c\x1c\x1d\x1e\x85\u2028\u2029"


def _expect_units(lang_key: str, s: str) -> Tuple[int, ...]:
    if lang_key in ("js", "java"):
        return _utf16(s)
    if lang_key == "cppwide":
        return tuple(ord(c) for c in s)
    return tuple(s.encode("utf-8", "surrogatepass"))


def _float_eq(a: float, b: float) -> bool:
    return a == b or (a != a and b != b)


def _f32(x: float) -> float:
    import struct

    try:
        return struct.unpack("f", struct.pack("f", x))[0]
    except OverflowError:
        return float("inf") if x > 0 else float("-inf")


def judge(ob: Observed, dec: Dict[Tuple[str, str], Any]) -> List[Tuple[str, str, Dict[str, Any]]]:
    """[(sig, what, detail)] — every place where a generated TypeScript / Java / C++ file does not expose what the Python SDK exposes."""
    from aas_core_codegen import intermediate as I
    from aas_core_codegen.cpp import naming as cn
    from aas_core_codegen.java import naming as jn
    from aas_core_codegen.python import naming as pn
    from aas_core_codegen.typescript import naming as tn

    bad: List[Tuple[str, str, Dict[str, Any]]] = []
    st, ref = ob.st, ob.ref
    # a target that reports an error (or crashes: property C02) for the model produces no SDK to compare

    def enum_names(lang: str, en: Any, lit: Any) -> Tuple[str, str]:
        if lang == "ts":
            return str(tn.enum_name(en)), str(tn.enum_literal_name(lit))
        if lang == "java":
            return str(jn.enum_name(en)), str(jn.enum_literal_name(lit))
        return str(cn.enum_name(en)), str(cn.enum_literal_name(lit))

    py_enum_of = {str(pn.enum_name(t.name)): t for t in st.our_types if isinstance(t, I.Enumeration)}

    def norm_py_item(lang: str, x: Any) -> Any:
        if isinstance(x, tuple) and x and x[0] == "enum":
            t = py_enum_of[x[1]]
            lit = next(l for l in t.literals if str(pn.enum_literal_name(l.name)) == x[2])
            return ("e",) + enum_names(lang, t.name, lit.name)
        if isinstance(x, bool):
            return ("b", x)
        if isinstance(x, int):
            return ("i", x)
        if isinstance(x, float):
            return ("f", x)
        if isinstance(x, str):
            return ("s", tuple(ord(c) for c in x) if lang == "cpp" else _utf16(x))
        if isinstance(x, (bytes, bytearray)):
            return ("y", tuple(x))
        return ("?", repr(x))

    # ---- (a) constants
    for lang in LANGS:
        got = ob.consts.get(lang)
        if got is None or not st.constants:
            continue
        if "error" in got:
            if lang == "java" and "floating-point number too" in got["error"]:
                # the root cause of C09-F3: float constants are `Float` (32 bit); a double outside its range is no Float literal
                bad.append(("C09:constant:java:float32", "a float constant of the Python SDK is outside the range of the 32-bit `Float` "
                            "of the Java SDK (javac: " + got["error"] + ")", {"target": lang}))
                continue
            if lang == "ts" and any(ch in x for _, pv in ref["consts"].values() for x in (pv if isinstance(pv, list) else [pv])
                                    if isinstance(x, str) for ch in _LINE_BREAKS):
                # C09-F4: a raw line boundary inside a literal of a set is split by the re-indentation of the block
                bad.append(("C09:constant:ts:line-separator", "a string of a TypeScript constant holds a line boundary other than LF and is "
                            "broken by the re-indentation of the generated block (node: " + got["error"] + ")", {"target": lang}))
                continue
            bad.append((f"C09:constant:{lang}:compile", f"the generated {lang} constants do not compile / run stand-alone: {got['error']}",
                        {"target": lang}))
            continue
        for c in st.constants:
            kind, pv = ref["consts"][str(c.name)]
            key = {"ts": str(tn.constant_name(c.name)), "java": str(jn.property_name(c.name)), "cpp": str(cn.constant_name(c.name))}[lang]
            if key not in got:
                bad.append((f"C09:constant:{lang}:missing", f"constant {c.name} is not defined in the {lang} SDK", {"target": lang, "constant": str(c.name)}))
                continue
            try:
                items = _decode_const(lang, got[key], {})
            except ValueError as e:
                bad.append((f"C09:constant:{lang}:unreadable", f"constant {c.name}: {e}", {"target": lang, "constant": str(c.name)}))
                continue
            want = [norm_py_item(lang, x) for x in (pv if kind == "set" else [pv])]
            if (kind == "set") != (items[0] == "set"):
                bad.append((f"C09:constant:{lang}:set", f"constant {c.name}: a set in one SDK and a single value in the other", {"target": lang}))
                continue
            gvals = items[1]
            tk = "set" if kind == "set" else want[0][0]
            if not _same_items(lang, want, gvals, kind == "set"):
                f32 = lang == "java" and all(w[0] == "f" for w in want) and _same_items(lang, [("f", _f32(w[1])) for w in want], gvals, kind == "set")
                brk = any(isinstance(x, str) and any(ch in x for ch in _LINE_BREAKS) for x in (pv if kind == "set" else [pv]))
                if brk:
                    tk = "line-separator"  # C09-F4: the re-indentation of the generated block splits / pads the literal
                bad.append((f"C09:constant:{lang}:{'float32' if f32 else tk}",
                            f"constant {c.name}: Python SDK has {want!r}, the {lang} SDK has {gvals!r}", {"target": lang, "constant": str(c.name)}))
    # ---- enumeration literals
    for t in st.our_types:
        if not isinstance(t, I.Enumeration):
            continue
        want_pairs = ref["enums"][str(t.name)]
        for lang, key in (("ts", "js"), ("java", "java"), ("cpp", "cppnarrow")):
            if lang in ob.gen_error:
                continue
            en = enum_names(lang, t.name, t.literals[0].name)[0] if t.literals else None
            got_pairs = ob.enums.get(lang, {}).get(en or "", [])
            exp = [(enum_names(lang, t.name, lit.name)[1], val) for lit, (_, val) in zip(t.literals, want_pairs)]
            got_dec = [(n, dec.get((key, v))) for n, v in got_pairs]
            exp_dec = [(n, _expect_units(key, v)) for n, v in exp]
            if got_dec != exp_dec:
                # a line boundary other than LF inside a literal value is split by the re-indentation of the generated block
                # (`str.splitlines`), see finding C09-F4
                brk = any(ch in v for _, v in want_pairs for ch in _LINE_BREAKS)
                bad.append((f"C09:enum:{lang}" + (":line-separator" if brk else ""),
                            f"enumeration {t.name}: the Python SDK has {want_pairs!r}, the {lang} SDK maps {got_pairs!r}",
                            {"target": lang, "enumeration": str(t.name)}))
    # ---- (b), (c) descriptions and count
    for t in st.our_types:
        if isinstance(t, I.Enumeration) or isinstance(t, I.AbstractClass):
            continue
        want = ref["descr"][str(t.name)]
        is_cp = isinstance(t, I.ConstrainedPrimitive)
        for lang, key in (("ts", "js"), ("java", "java"), ("cpp", "cppwide")):
            if lang in ob.gen_error:
                continue
            fn = {"ts": ("verify" if is_cp else "transform") + str(t.name) + ("" if is_cp else "withcontext"),
                  "java": ("verify" if is_cp else "transform") + str(t.name), "cpp": "of" + str(t.name)}[lang]
            got = ob.descr.get(lang, {}).get(_norm(fn), [])
            if len(got) != len(want):
                bad.append((f"C09:count:{lang}", f"{t.name}: the Python verification checks {len(want)} invariants, the {lang} verification {len(got)}",
                            {"target": lang, "owner": str(t.name)}))
                continue
            for d, lits in zip(want, got):
                units: List[int] = []
                ok = True
                for lit in lits:
                    v = dec.get((key, lit))
                    if v is None:
                        ok = False
                        break
                    units.extend(v)
                if not ok:
                    bad.append((f"C09:description:{lang}:unreadable", f"{t.name}: a message literal of the {lang} verification is rejected by the tool-chain: {lits!r}",
                                {"target": lang, "owner": str(t.name)}))
                elif tuple(units) != _expect_units(key, d):
                    prefix = _expect_units(key, "Invariant violated:\n")
                    sig = f"C09:description:{lang}:prefix" if tuple(units) == prefix + _expect_units(key, d) else f"C09:description:{lang}"
                    bad.append((sig, f"{t.name}: the Python SDK reports {d!r}, the {lang} SDK reports {_show_units(key, units)!r}",
                                {"target": lang, "owner": str(t.name), "description": d}))
    return bad


def _show_units(key: str, units: Sequence[int]) -> str:
    if key in ("js", "java"):
        return b"".join(int(u).to_bytes(2, "little") for u in units).decode("utf-16-le", "replace")
    if key == "cppwide":
        return "".join(chr(u) if u < 0x110000 else "?" for u in units)
    return bytes(units).decode("utf-8", "replace")


def _decode_const(lang: str, got: Any, cpp_enums_order: Dict[str, List[str]]) -> Tuple[str, List[Any]]:
    """('set' | 'val', [items]) with items as ('s', units) ('i', int) ('f', float) ('b', bool) ('y', bytes) ('e', enum, literal)"""
    if lang == "ts":
        def one(v: Any) -> Any:
            if "s" in v:
                return ("s", tuple(v["s"]))
            if "n" in v:
                return ("n", float(v["n"]), v["int"])
            if "b" in v:
                return ("b", v["b"])
            if "y" in v:
                return ("y", tuple(v["y"]))
            if "e" in v:
                return ("e", v["e"][0], v["e"][1])
            raise ValueError(f"unexpected value {v!r}")
        return ("set", [one(x) for x in got["set"]]) if "set" in got else ("val", [one(got)])

    def one_text(tx: str) -> Any:
        tx = tx.strip()
        k, _, rest = tx.partition(" ")
        if k == "s":
            return ("s", tuple(int(x) for x in rest.split()))
        if k == "i":
            return ("i", int(rest))
        if k == "f":
            return ("f", float(rest.split()[-1]))
        if k == "b":
            return ("b", rest == "true")
        if k == "y":
            return ("y", tuple(int(x) for x in rest.split()))
        if k == "e":
            en, lit = rest.split()
            return ("e", en, lit)
        raise ValueError(f"unexpected value {tx!r}")
    if got.startswith("S"):
        body = got[1:].strip()
        parts = [p for p in body.split(" | ")] if body else []
        parts = [p for p in (q.strip().lstrip("|").strip() for q in parts) if p]
        return ("set", [one_text(p) for p in parts])
    return ("val", [one_text(got)])


def _same_items(lang: str, want: List[Any], got: List[Any], is_set: bool) -> bool:
    def canon_w(w: Any) -> Any:
        return w

    def match(w: Any, g: Any) -> bool:
        if w[0] in ("i", "f") and g[0] == "n":  # a TypeScript number
            return (float(w[1]) == g[1] if w[0] == "i" else _float_eq(w[1], g[1])) and (w[0] != "i" or g[2]) and (w[0] != "i" or int(g[1]) == w[1])
        if w[0] == "f" and g[0] == "f":
            return _float_eq(w[1], g[1])
        return tuple(w) == tuple(g)
    if len(want) != len(got):
        return False
    if not is_set:
        return match(want[0], got[0])
    rest = list(got)
    for w in want:
        for k, g in enumerate(rest):
            if match(w, g):
                del rest[k]
                break
        else:
            return False
    return True


_JAVA_REFEQ = """
public class RefEq {
  static String s(String x) { return new String(x); }
  public static void main(String[] a) {
    Long x = Long.valueOf(a.length + 1000L), y = Long.valueOf(a.length + 1000L);
    System.out.println((s("ab") == "ab") + " " + (s("ab") != "ab") + " " + (x == y) + " " + (x == 1000L));
  }
}
"""

_java_refeq_cache: Dict[str, bool] = {}


def java_reference_semantics(scratch: pathlib.Path) -> bool:
    """javac + java: `==` on two Strings / two Longs compares references (equal values in different objects are unequal)."""
    if "v" not in _java_refeq_cache:
        d = scratch / "refeq"
        d.mkdir(parents=True, exist_ok=True)
        (d / "RefEq.java").write_text(_JAVA_REFEQ, encoding="utf-8")
        rc, _, _ = _run(["javac", "-nowarn", "-d", str(d), str(d / "RefEq.java")], d)
        out = _run(["java", "-cp", str(d), "RefEq"], d)[1].split() if rc == 0 else []
        _java_refeq_cache["v"] = out == ["false", "true", "false", "true"]
    return _java_refeq_cache["v"]


def java_equality_failures(st: Any) -> List[Tuple[str, str, Dict[str, Any]]]:
    """Invariants whose Java condition compares two Strings or two boxed numbers with `==` / `!=`: in Java that is a comparison
    of references, in Python (and TypeScript, C++) of values — the Java SDK gives another verdict on equal values."""
    from aas_core_codegen import intermediate as I
    from aas_core_codegen.parse import tree as T

    tg = Target("java", st)
    ti = tg.ti
    out: List[Tuple[str, str, Dict[str, Any]]] = []

    def klass(node: Any, type_map: Any) -> str:
        t = ti.beneath_optional(type_map[node])
        p = ti.try_primitive_type(t)
        if p is ti.PrimitiveType.STR:
            return "str"
        if p in (ti.PrimitiveType.INT, ti.PrimitiveType.FLOAT):
            # literals and lengths are primitives (the other operand is unboxed); getters and constants are boxed
            if isinstance(node, T.Constant) or (isinstance(node, T.FunctionCall) and node.name.identifier == "len"):
                return "primitive"
            if isinstance(node, (T.Add, T.Sub)):
                return "primitive"
            return "boxed-number"
        return "other"

    for owner in st.our_types:
        if isinstance(owner, I.Enumeration):
            continue
        for inv in owner.invariants:
            if inv.specified_for is not owner:
                continue
            try:
                code, type_map, _, err = tg.real(owner, inv)
            except BaseException:  # noqa: B902
                continue
            if code is None or type_map is None:
                continue
            try:
                rtree = parse_target(code, "java")
            except ParseError:
                continue
            n_eq = sum(1 for t in _subtrees(rtree) if t[0] == "bin" and t[1] in ("==", "!=") and ("id", "null") not in (t[2], t[3]))
            for node in _walk_tree(inv.body):
                if isinstance(node, T.Comparison) and node.op in (T.Comparator.EQ, T.Comparator.NE) and n_eq > 0:
                    kl, kr = klass(node.left, type_map), klass(node.right, type_map)
                    kind = "str" if kl == kr == "str" else ("boxed-number" if kl == kr == "boxed-number" else None)
                    if kind:
                        out.append((f"C09:java:reference-equality:{kind}",
                                    f"{owner.name}: the Java condition `{' '.join(code.split())}` compares two {kind} operands with "
                                    f"{'==' if node.op is T.Comparator.EQ else '!='} (references); the Python SDK compares the values",
                                    {"target": "java", "owner": str(owner.name), "invariant": inv.description,
                                     "expr": mm.render_expr(mm.expr_from_project_tree(inv.body))}))
    return out


def _subtrees(t: Any) -> Iterator[Any]:
    if isinstance(t, tuple):
        if t and isinstance(t[0], str):
            yield t
        for x in t[1:]:
            yield from _subtrees(x)
    elif isinstance(t, list):
        for x in t:
            yield from _subtrees(x)


# ---- (d) the emitted TypeScript invariant conditions executed by node on instances, against the Python SDK's verdicts
# (an invariant expression is plain ECMAScript; the helpers of common.ts are mirrored, verification functions are tables
#  computed by the Python SDK's own functions on every string of the instance)

_JS_PRELUDE = """
const AasCommon = {
  at: (a, i) => (i < 0 ? a[a.length + i] : a[i]),
  every: (it) => { for (const x of it) { if (!x) return false; } return true; },
  some: (it) => { for (const x of it) { if (x) return true; } return false; },
  map: function* (it, f) { for (const x of it) yield f(x); },
  range: function* (a, b) { for (let i = a; i < b; i++) yield i; },
};
function table(name, t) { return (x) => { if (typeof x !== 'string' || !Object.prototype.hasOwnProperty.call(t, x)) throw new Error('MISSING ' + name); return t[x]; }; }
"""


def _js_value(v: Any, st_info: Dict[str, Any]) -> str:
    """A Python SDK value as an ECMAScript expression with the TypeScript SDK's representation."""
    import enum as _enum
    import math

    if v is None:
        return "null"
    if isinstance(v, bool):
        return "true" if v else "false"
    if isinstance(v, _enum.Enum):
        en, lits = st_info["enum_by_py"][type(v).__name__]
        return f"AasTypes.{en}.{lits[v.name]}"
    if isinstance(v, int):
        if abs(v) > 2**53:
            raise OverflowError("integer beyond the exact range of a number")
        return str(v)
    if isinstance(v, float):
        return "NaN" if math.isnan(v) else ("Infinity" if v == math.inf else ("-Infinity" if v == -math.inf else repr(v)))
    if isinstance(v, str):
        return json.dumps(v)
    if isinstance(v, (bytes, bytearray)):
        return "new Uint8Array([" + ",".join(str(b) for b in v) + "])"
    if isinstance(v, (list, tuple)):
        return "[" + ",".join(_js_value(x, st_info) for x in v) + "]"
    if isinstance(v, (set, frozenset)):
        return "new Set([" + ",".join(sorted(_js_value(x, st_info) for x in v)) + "])"
    cls = st_info["cls_by_py"].get(type(v).__name__)
    if cls is None:
        raise TypeError(f"no TypeScript representation for {type(v).__name__}")
    fields = []
    for ts_name, py_name in cls:
        fields.append(f"{json.dumps(ts_name)}: {_js_value(getattr(v, py_name), st_info)}")
    return "{" + ",".join(fields) + "}"


def _strings_of(v: Any, out: set, depth: int = 0) -> None:
    import enum as _enum

    if isinstance(v, str):
        out.add(v)
    elif isinstance(v, (list, tuple, set, frozenset)):
        for x in v:
            _strings_of(x, out, depth + 1)
    elif v is not None and not isinstance(v, (bool, int, float, bytes, bytearray, _enum.Enum)) and depth < 8:
        for x in vars(v).values():
            _strings_of(x, out, depth + 1)


def ts_differential_prepare(ctx: Ctx, m: Any, sdk: Any, st: Any, n_instances: int) -> Optional[Dict[str, Any]]:
    """Instances, the Python SDK's verdict per invariant of the root class, and the node script evaluating the real emitted
    TypeScript condition of each invariant on the same instances."""
    from aas_core_codegen import intermediate as I
    from aas_core_codegen.parse import tree as T
    from aas_core_codegen.python import naming as pn
    from aas_core_codegen.typescript import naming as tn
    from harness.props.c08 import run_verify, time_limit

    tg = Target("ts", st)
    st_info: Dict[str, Any] = {"enum_by_py": {}, "cls_by_py": {}}
    decl = ["const AasTypes = {"]
    for t in st.our_types:
        if isinstance(t, I.Enumeration):
            lits = {str(pn.enum_literal_name(l.name)): str(tn.enum_literal_name(l.name)) for l in t.literals}
            st_info["enum_by_py"][str(pn.enum_name(t.name))] = (str(tn.enum_name(t.name)), lits)
            decl.append(f"  {tn.enum_name(t.name)}: {{" + ", ".join(f"{tn.enum_literal_name(l.name)}: {k}" for k, l in enumerate(t.literals)) + "},")
        elif isinstance(t, (I.AbstractClass, I.ConcreteClass)):
            st_info["cls_by_py"][str(pn.class_name(t.name))] = [(str(tn.property_name(p.name)), str(pn.property_name(p.name))) for p in t.properties]
    decl.append("};")
    try:
        consts = ["const AasConstants = {"] + [
            f"  {tn.constant_name(c.name)}: {_js_value(getattr(sdk.constants, str(pn.constant_name(c.name))), st_info)}," for c in st.constants] + ["};"]
    except (OverflowError, TypeError):
        return None
    owners = [t for t in st.our_types if isinstance(t, I.ConcreteClass)]
    emitted: Dict[str, List[Tuple[str, str]]] = {}
    for owner in owners:
        lst = []
        for inv in owner.invariants:
            if any(isinstance(n, T.MethodCall) for n in _walk_tree(inv.body)):
                continue
            try:
                code, _, _, err = tg.real(owner, inv)
            except BaseException:  # noqa: B902
                continue
            if code is not None:
                lst.append((inv.description, code))
        emitted[str(owner.name)] = lst
    concrete = [c.name for c in m.classes if not c.abstract and not getattr(c, "impl_specific", False) and emitted.get(c.name)]
    if not concrete:
        return None
    cases: List[Dict[str, Any]] = []
    strings: set = set()
    for c in st.constants:
        _strings_of(getattr(sdk.constants, str(pn.constant_name(c.name))), strings)
    for i in range(n_instances):
        cname = concrete[i % len(concrete)]
        try:
            built = mm.random_instance(sdk, m, cname, ctx.rng, satisfy_invariants=[None, True, False][i % 3])
        except mm.Impossible:
            continue
        inst = built.instance
        root_cls = next((str(t.name) for t in owners if str(pn.class_name(t.name)) == type(inst).__name__), None)
        if root_cls is None or not emitted.get(root_cls):
            continue
        try:
            with time_limit(2.0):
                errs, raised, _ = run_verify(sdk, inst)
        except BaseException as ex:  # noqa: B902
            if isinstance(ex, KeyboardInterrupt):
                raise
            ctx.hit("oracle:tsdiff:verify-timeout")
            continue
        if raised:
            continue
        try:
            js = _js_value(inst, st_info)
        except (OverflowError, TypeError):
            ctx.hit("oracle:tsdiff:instance-not-representable")
            continue
        own: set = set()
        _strings_of(inst, own)
        strings |= own
        failed = {d for d, path in errs if path == ""}
        cases.append({"cls": root_cls, "js": js, "failed": sorted(failed), "show": repr(vars(inst))[:600],
                      "astral": any(ord(ch) > 0xFFFF for sx in own for ch in sx)})
    if not cases:
        return None
    tables = []
    for f in st.verification_functions:
        if len(f.arguments) != 1:
            continue
        pyf = getattr(sdk.verification, str(pn.function_name(f.name)), None)
        if pyf is None:
            continue
        tab = {}
        for sx in strings:
            try:
                with time_limit(0.5):  # a pattern may backtrack catastrophically on a string it was not written for
                    r = pyf(sx)
            except BaseException as ex:  # noqa: B902
                if isinstance(ex, KeyboardInterrupt):
                    raise
                continue
            if isinstance(r, bool):
                tab[sx] = r
        tables.append(f"const {tn.function_name(f.name)} = table({json.dumps(str(f.name))}, {json.dumps(tab)});")
    lines = [_JS_PRELUDE] + decl + consts + tables + ["const CONDS = {};"]
    for cls, lst in emitted.items():
        lines.append(f"CONDS[{json.dumps(cls)}] = [")
        for _, code in lst:
            lines.append("  (that) => (" + code + "),")
        lines.append("];")
    lines.append("const CASES = [")
    for c in cases:
        lines.append(f"  [{json.dumps(c['cls'])}, {c['js']}],")
    lines.append("];")
    lines.append("const out = CASES.map(([cls, that]) => CONDS[cls].map((f) => { try { return f(that) ? 1 : 0; } catch (e) { return 'throw:' + String(e && e.message).slice(0, 60); } }));")
    lines.append("console.log(JSON.stringify(out));")
    return {"script": "\n".join(lines), "cases": cases, "emitted": emitted}


def ts_differential_run(script: str, scratch: pathlib.Path) -> Any:
    f = scratch / "tsdiff.js"
    f.write_text(script, encoding="utf-8")
    rc, out, err = _run(["node", str(f)], scratch)
    if rc != 0:
        return {"error": (err.strip().splitlines() or ["node failed"])[-1][:300]}
    return json.loads(out)


def ts_differential_judge(prep: Dict[str, Any], res: Any) -> List[Tuple[str, str, Dict[str, Any]]]:
    bad: List[Tuple[str, str, Dict[str, Any]]] = []
    if isinstance(res, dict):
        bad.append(("C09:ts:conditions-not-ecmascript", "the emitted TypeScript conditions are not valid ECMAScript expressions: " + res["error"], {"target": "ts"}))
        return bad
    for case, verdicts in zip(prep["cases"], res):
        for (descr, code), v in zip(prep["emitted"][case["cls"]], verdicts):
            if isinstance(v, str):
                continue  # a table miss or an exception: no verdict to compare
            py_holds = descr not in case["failed"]
            if bool(v) != py_holds:
                astral = case["astral"]  # C09-F5: `length` / `<` of TypeScript strings work on UTF-16 code units
                bad.append(("C09:ts:verdict:astral" if astral else "C09:ts:verdict",
                            f"{case['cls']}: the Python SDK says the invariant {descr!r} {'holds' if py_holds else 'is violated'}, the emitted "
                            f"TypeScript condition `{' '.join(code.split())}` evaluates to {'true' if v else 'false'} on {case['show']}",
                            {"target": "ts", "owner": case["cls"], "invariant": descr, "instance": case["show"]}))
    return bad


def oracle_sources(ctx: Ctx) -> Iterator[Tuple[str, str, Any, Any]]:
    """(stream, source, label, abstract model | None)"""
    import random as _random

    for c in corpus(ID):
        if "model" in c:
            yield "corpus", c["model"], c.get("name", "corpus"), None
    yield "constants", CONSTANTS_MODEL, "constants-model", None
    for name, text in fixture_sources()[:: (4 if ctx.tier == "quick" and not ctx.searching else 1)]:
        yield "fixture", text, name, None
    for k in range(ctx.n(2, 16)):
        sub = ctx.rng.randrange(2**32)
        ft = mm.Features()
        ft.non_ascii_values = (k % 2 == 1)
        if k % 3 == 2:
            ft.joined_str_in_invariants = True
        m = mm.random_mm(_random.Random(sub), size=2 + k % 3, features=ft)
        yield "random", mm.render(m), {"k": k, "seed": ctx.seed, "subseed": sub, "features": [n for n in ("non_ascii_values", "joined_str_in_invariants") if getattr(ft, n)]}, m
    # more models for the differential execution of the TypeScript conditions only (cheap: no compiler)
    for k in range(ctx.n(10, 60)):
        sub = ctx.rng.randrange(2**32)
        m = mm.random_mm(_random.Random(sub), size=2 + k % 4, features=model_features(k))
        yield "tsdiff", mm.render(m), {"k": k, "seed": ctx.seed, "subseed": sub, "tsdiff": True}, m


def run_oracle(ctx: Ctx, items: Sequence[Tuple[str, str, Any, Any]]) -> List[Dict[str, Any]]:
    from concurrent.futures import ThreadPoolExecutor

    obs: List[Observed] = []
    with ThreadPoolExecutor(max_workers=8) as pool:
        refs_f = pool.submit(java_reference_semantics, ctx.scratch())
        for stream, src, label, m in items:
            ctx.count(("oracle", src), nontrivial=True, stream="oracle:" + stream)
            ob = observe(ctx, label, src, pool, m, only_tsdiff=(stream == "tsdiff"))
            if ob is None:
                continue
            obs.append(ob)
            ctx.hit(f"oracle:{stream}:constants={'3+' if len(ob.st.constants) >= 3 else len(ob.st.constants)}")
        dec = decode_literals(ctx, obs, pool) if obs else {}
        for ob in obs:
            for lang, fut in ob.pending.items():
                ob.consts[lang] = fut.result()
            if ob.tsdiff is not None:
                ob.tsdiff_result = ob.tsdiff["future"].result()
        refs = refs_f.result()
    results = []
    for ob in obs:
        found = [] if ob.only_tsdiff else judge(ob, dec)
        if refs and not ob.only_tsdiff:
            found.extend(java_equality_failures(ob.st))
        if ob.tsdiff is not None:
            found.extend(ts_differential_judge(ob.tsdiff, ob.tsdiff_result))
            ctx.hit("oracle:tsdiff:instances", len(ob.tsdiff["cases"]))
            ctx.hit("oracle:tsdiff:verdicts", sum(1 for r in (ob.tsdiff_result if isinstance(ob.tsdiff_result, list) else []) for v in r if not isinstance(v, str)))
            ctx.hit("oracle:tsdiff:no-verdict", sum(1 for r in (ob.tsdiff_result if isinstance(ob.tsdiff_result, list) else []) for v in r if isinstance(v, str)))
        results.append({"label": ob.label, "failures": [(sig, what) for sig, what, _ in found]})
        seen = set()
        for sig, what, detail in found:
            ctx.hit("oracle:fail:" + sig)
            if sig in seen:
                continue  # one failing input per root cause and model
            seen.add(sig)
            ctx.fail({"model": ob.src, "label": ob.label, **detail}, what, sig)
        if not found:
            ctx.hit("oracle:model-agrees")
    return results


def oracle(ctx: Ctx) -> None:
    run_oracle(ctx, list(oracle_sources(ctx)))


def _model_of_label(label: Any) -> Any:
    """The abstract model of a random input, re-created from its recorded sub-seed (needed to build instances)."""
    import random as _random

    if not isinstance(label, dict) or "subseed" not in label:
        return None
    k = label["k"]
    if label.get("tsdiff"):
        return mm.random_mm(_random.Random(label["subseed"]), size=2 + k % 4, features=model_features(k))
    ft = mm.Features()
    for n in label.get("features", []):
        setattr(ft, n, True)
    return mm.random_mm(_random.Random(label["subseed"]), size=2 + k % 3, features=ft)


def replay(ctx: Ctx, data: Dict[str, Any]) -> Any:
    inp = data["failure"]["input"] if "failure" in data else data
    src = inp["model"]
    res: Dict[str, Any] = {"oracle": run_oracle(ctx, [("replay", src, inp.get("label", "replay"), _model_of_label(inp.get("label")))])}
    if ctx.driver_ok:
        before = len(ctx.disagreements)
        st, err = mm.load(src)
        if st is not None:
            emit_checks(ctx, st, src, "emit")
        res["model_vs_impl_disagreements"] = ctx.disagreements[before:]
    return res
