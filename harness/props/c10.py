"""
C10 — Python SDK serialization round-trips and rejects bad documents.

* ``gen_SdkJson``: regenerates ``Gen/SdkJson.lean`` from the templates of the primitive readers
  in ``python/lib/_generate_jsonization.py`` (accepted JSON kinds of every ``isinstance`` guard,
  the ``except`` clause around the base64 decoding).
* correspondence: generated package imported in-process vs ``Model/SdkJson.lean`` through the
  driver (``tojson``, ``fromjson`` on valid documents — through the own class and through every
  ancestor — and on document mutants; ``b64enc/b64dec`` against ``base64``; ``name`` against
  ``naming.json_property/json_model_type``; ``wf``/``conforms`` = the hypotheses of the theorems
  evaluated on every generated meta-model / instance).
* oracle (independent of Lean, written from the property text): real round trip through
  ``json.dumps/json.loads`` and ``xmlization.to_str/from_str`` with field-by-field comparison;
  every JSON/XML mutant either de-serializes or raises exactly the SDK's
  ``DeserializationException``; an accepted document yields a type-conforming instance.
"""
from __future__ import annotations

import ast
import base64
import enum
import json
import math
import pathlib
import random
import re
import time
from typing import Any, Dict, Iterator, List, Optional, Sequence, Tuple

from harness.core import Ctx, corpus, crash_name, enc_text
from harness.extract import ExtractError

ID = "C10"
GEN = ["SdkJson", "XmlText"]

JSONIZATION = "aas_core_codegen/python/lib/_generate_jsonization.py"
XMLIZATION = "aas_core_codegen/python/lib/_generate_xmlization.py"
#: ``iterparse`` reads 16 KiB at a time; ``Model/SdkXml.lean`` is stated for documents read in one chunk
XML_ONE_CHUNK = 15000
XML_CHUNK = 16 * 1024

# =========================================================================== Gen extractor

KINDS = ["null", "bool", "int", "float", "str", "list", "dict"]
#: isinstance(<value of JSON kind>, <type name>) in CPython — ``bool`` is a subclass of ``int``
ISINSTANCE = {
    "bool": {"bool"},
    "int": {"bool", "int"},
    "float": {"float"},
    "str": {"str"},
}


def _template_source(fn: ast.FunctionDef) -> str:
    """The text a ``_generate_*`` function returns: its (single) f-string with ``{I}``… expanded."""
    joined = [n for n in ast.walk(fn) if isinstance(n, ast.JoinedStr)]
    if len(joined) != 1:
        raise ExtractError(f"{fn.name}: expected exactly one f-string template, found {len(joined)}")
    out = []
    for part in joined[0].values:
        if isinstance(part, ast.Constant) and isinstance(part.value, str):
            out.append(part.value)
        elif isinstance(part, ast.FormattedValue) and isinstance(part.value, ast.Name) and set(part.value.id) == {"I"}:
            out.append("    " * len(part.value.id))
        else:
            raise ExtractError(f"{fn.name}: unexpected placeholder in the template: {ast.dump(part)[:80]}")
    return "".join(out)


def _eval_guard(test: ast.expr, kind: str, where: str) -> bool:
    if isinstance(test, ast.BoolOp):
        vals = [_eval_guard(v, kind, where) for v in test.values]
        return all(vals) if isinstance(test.op, ast.And) else any(vals)
    if isinstance(test, ast.UnaryOp) and isinstance(test.op, ast.Not):
        return not _eval_guard(test.operand, kind, where)
    if (
        isinstance(test, ast.Call)
        and isinstance(test.func, ast.Name)
        and test.func.id == "isinstance"
        and len(test.args) == 2
        and isinstance(test.args[0], ast.Name)
        and test.args[0].id == "jsonable"
    ):
        t = test.args[1]
        names = [e for e in t.elts] if isinstance(t, ast.Tuple) else [t]
        res = False
        for n in names:
            if not isinstance(n, ast.Name) or n.id not in ISINSTANCE:
                raise ExtractError(f"{where}: isinstance against an unknown type {ast.dump(n)[:60]}")
            res = res or kind in ISINSTANCE[n.id]
        return res
    raise ExtractError(f"{where}: guard not understood: {ast.dump(test)[:100]}")


def _reader_facts(mod: ast.Module, gen_name: str, reader: str) -> Tuple[List[str], Optional[List[str]]]:
    from harness.extract import _func

    src = _template_source(_func(mod, gen_name))
    try:
        tree = ast.parse(src)
    except SyntaxError as e:
        raise ExtractError(f"{gen_name}: the template does not parse as Python: {e}")
    fns = [n for n in tree.body if isinstance(n, ast.FunctionDef)]
    if len(fns) != 1 or fns[0].name != reader:
        raise ExtractError(f"{gen_name}: expected the definition of {reader}")
    body = [s for s in fns[0].body if not (isinstance(s, ast.Expr) and isinstance(s.value, ast.Constant))]
    if not body or not isinstance(body[0], ast.If) or not any(isinstance(s, ast.Raise) for s in body[0].body) or body[0].orelse:
        raise ExtractError(f"{reader}: expected `if <guard>: raise DeserializationException(...)` first")
    raised = [s for s in body[0].body if isinstance(s, ast.Raise)][0]
    if not (isinstance(raised.exc, ast.Call) and isinstance(raised.exc.func, ast.Name) and raised.exc.func.id == "DeserializationException"):
        raise ExtractError(f"{reader}: the guard does not raise DeserializationException")
    accepts = [k for k in KINDS if not _eval_guard(body[0].test, k, reader)]
    rest = body[1:]
    catches: Optional[List[str]] = None
    if reader == "_bytes_from_jsonable":
        catches = []
        stmt = rest[0] if len(rest) == 1 else None
        inner: Any = stmt
        if isinstance(stmt, ast.Try):
            if len(stmt.body) != 1 or stmt.orelse or stmt.finalbody:
                raise ExtractError(f"{reader}: try statement not understood")
            inner = stmt.body[0]
            for h in stmt.handlers:
                if not (len(h.body) >= 1 and isinstance(h.body[-1], ast.Raise) and isinstance(h.body[-1].exc, ast.Call)
                        and isinstance(h.body[-1].exc.func, ast.Name) and h.body[-1].exc.func.id == "DeserializationException"):
                    raise ExtractError(f"{reader}: except handler does not raise DeserializationException")
                ts = h.type.elts if isinstance(h.type, ast.Tuple) else [h.type]
                for t in ts:
                    if isinstance(t, ast.Name):
                        catches.append(t.id)
                    elif isinstance(t, ast.Attribute):
                        catches.append(t.attr)
                    elif t is None:
                        catches.append("BaseException")
                    else:
                        raise ExtractError(f"{reader}: exception type not understood")
        want = "base64.b64decode(jsonable.encode('ascii'))"
        if not (isinstance(inner, ast.Return) and inner.value is not None and ast.unparse(inner.value) == want):
            raise ExtractError(f"{reader}: expected `return {want}`")
    else:
        if not (len(rest) == 1 and isinstance(rest[0], ast.Return) and isinstance(rest[0].value, ast.Name) and rest[0].value.id == "jsonable"):
            raise ExtractError(f"{reader}: expected `return jsonable` after the guard")
    return accepts, catches


def gen_SdkJson(repo: pathlib.Path) -> str:
    from harness.extract import _parse

    mod = _parse(repo, JSONIZATION)

    def lst(xs: Sequence[str]) -> str:
        return "[" + ", ".join(json.dumps(x) for x in xs) + "]"

    out = [
        "/-! GENERATED by harness/props/c10.py from aas_core_codegen/python/lib/_generate_jsonization.py — do not edit. -/",
        "namespace AasVerif.Gen.SdkJson",
        "/-- JSON kinds (null bool int float str list dict) that pass the `isinstance` guard of each primitive reader -/",
    ]
    catches: Optional[List[str]] = None
    for prim in ["bool", "int", "float", "str", "bytes"]:
        acc, c = _reader_facts(mod, f"_generate_{prim}_from_jsonable", f"_{prim}_from_jsonable")
        out.append(f"def {prim}Accepts : List String := {lst(acc)}")
        if c is not None:
            catches = c
    assert catches is not None
    out.append("/-- exception classes of the `except` clause around `base64.b64decode(jsonable.encode('ascii'))` -/")
    out.append(f"def bytesCatches : List String := {lst(catches)}")
    out.append("end AasVerif.Gen.SdkJson")
    return "\n".join(out) + "\n"


def gen_XmlText(repo: pathlib.Path) -> str:
    """The ``str.replace`` chain of ``_Serializer._escape_and_write_text`` (template inside ``_generate_xmlization.py``)."""
    from harness.extract import _parse

    mod = _parse(repo, XMLIZATION)
    found = None
    for node in ast.walk(mod):
        if isinstance(node, ast.JoinedStr):
            consts = [p.value for p in node.values if isinstance(p, ast.Constant) and isinstance(p.value, str)]
            if consts and consts[0].lstrip().startswith("def _escape_and_write_text("):
                if found is not None:
                    raise ExtractError("two templates of _escape_and_write_text")
                found = node
    if found is None:
        raise ExtractError("template of _escape_and_write_text not found")
    src = []
    for part in found.values:
        if isinstance(part, ast.Constant):
            src.append(part.value)
        elif isinstance(part, ast.FormattedValue) and isinstance(part.value, ast.Name) and set(part.value.id) == {"I"}:
            src.append("    " * len(part.value.id))
        else:
            raise ExtractError("unexpected placeholder in the template of _escape_and_write_text")
    try:
        tree = ast.parse("".join(src))
    except SyntaxError as e:
        raise ExtractError(f"the template of _escape_and_write_text does not parse: {e}")
    fn = tree.body[0]
    body = [s for s in fn.body if not (isinstance(s, ast.Expr) and isinstance(s.value, ast.Constant))]
    if not (len(body) == 1 and isinstance(body[0], ast.Expr) and isinstance(body[0].value, ast.Call)
            and ast.unparse(body[0].value.func) == "self.stream.write" and len(body[0].value.args) == 1):
        raise ExtractError("_escape_and_write_text: expected a single `self.stream.write(<chain>)`")
    steps: List[Tuple[str, str]] = []
    e = body[0].value.args[0]
    while isinstance(e, ast.Call) and isinstance(e.func, ast.Attribute) and e.func.attr == "replace":
        if not (len(e.args) == 2 and not e.keywords and all(isinstance(a, ast.Constant) and isinstance(a.value, str) for a in e.args)
                and len(e.args[0].value) == 1):
            raise ExtractError("_escape_and_write_text: a replace() call is not (one character, text)")
        steps.append((e.args[0].value, e.args[1].value))
        e = e.func.value
    if not (isinstance(e, ast.Name) and e.id == "text"):
        raise ExtractError("_escape_and_write_text: the chain does not start at `text`")
    steps.reverse()
    items = ", ".join("(%d, [%s])" % (ord(a), ", ".join(str(ord(c)) for c in b)) for a, b in steps)
    return (
        "/-! GENERATED by harness/props/c10.py from aas_core_codegen/python/lib/_generate_xmlization.py — do not edit. -/\n"
        "namespace AasVerif.Gen.XmlText\n"
        "/-- the chain `text.replace(a, b).replace(…)…` of `_escape_and_write_text`, in application order: (code point, replacement) -/\n"
        f"def escapeSteps : List (Nat × List Nat) := [{items}]\n"
        "end AasVerif.Gen.XmlText\n"
    )


# =========================================================================== wire format


def enc_bytes_w(b: bytes) -> str:
    return "-" if len(b) == 0 else ".".join(format(x, "x") for x in b)


def json_wire(doc: Any) -> Optional[str]:
    """Prefix token stream of a JSON-able Python value; None if it holds something JSON cannot."""
    toks: List[str] = []

    def go(x: Any) -> bool:
        if x is None:
            toks.append("n")
        elif x is True:
            toks.append("t")
        elif x is False:
            toks.append("f")
        elif type(x) is int:
            toks.append(f"i{x}")
        elif type(x) is float:
            toks.append("d" + enc_text(repr(x)))
        elif type(x) is str:
            toks.append("s" + enc_text(x))
        elif type(x) is list:
            toks.append(f"a{len(x)}")
            return all(go(y) for y in x)
        elif type(x) is dict:
            toks.append(f"o{len(x)}")
            for k, v in x.items():
                if type(k) is not str:
                    return False
                toks.append("k" + enc_text(k))
                if not go(v):
                    return False
        else:
            return False
        return True

    return ",".join(toks) if go(doc) else None


def wire_json(w: str) -> Any:
    toks = w.split(",")
    pos = [0]

    def txt(s: str) -> str:
        return "" if s == "-" else "".join(chr(int(p, 16)) for p in s.split("."))

    def go() -> Any:
        t = toks[pos[0]]
        pos[0] += 1
        if t == "n":
            return None
        if t == "t":
            return True
        if t == "f":
            return False
        if t[0] == "i":
            return int(t[1:])
        if t[0] == "d":
            return ("float", txt(t[1:]))
        if t[0] == "s":
            return txt(t[1:])
        if t[0] == "a":
            return [go() for _ in range(int(t[1:]))]
        if t[0] == "o":
            d = []
            for _ in range(int(t[1:])):
                k = toks[pos[0]]
                pos[0] += 1
                d.append((txt(k[1:]), go()))
            return ("obj", d)
        raise ValueError(t)

    return go()


def elem_wire(text: str) -> Optional[Tuple[str, str]]:
    """(tree wire, oracle table wire) of a well-formed XML document; None if it is not well-formed."""
    import xml.etree.ElementTree as ET

    try:
        root = ET.fromstring(text)
    except ET.ParseError:
        return None
    toks: List[str] = []
    texts: List[str] = []

    def opt(t: Optional[str]) -> str:
        return "!" if t is None else enc_text(t)

    def go(el: Any) -> None:
        tag = el.tag
        if not isinstance(tag, str):
            raise ValueError("comment or processing instruction")
        if tag.startswith("{"):
            ns, _, local = tag[1:].partition("}")
            nsw = enc_text(ns)
        else:
            nsw, local = "!", tag
        toks.append(f"x{nsw}:{enc_text(local)}:{int(len(el.attrib) > 0)}:{opt(el.text)}:{opt(el.tail)}:{len(el)}")
        if el.text is not None:
            texts.append(el.text)
        for ch in el:
            go(ch)

    try:
        go(root)
    except ValueError:
        return None
    table = []
    for t in sorted(set(texts)):
        try:
            i = str(int(t))
        except ValueError:
            i = "!"
        try:
            f = enc_text(repr(float(t)))
        except ValueError:
            f = "!"
        table.append(f"q{enc_text(t)}:{i}:{f}")
    return ",".join(toks), ",".join([f"O{len(table)}"] + table)


def xml_outcome(m: "Model", through: str, text: str) -> str:
    kind, back = m.from_xml(through, text)
    if kind == "ok":
        try:
            return "ok " + m.val_wire(back)
        except ValueError as e:
            return f"ok ?{e}"
    return kind


class Model:
    """One generated SDK with its abstract meta-model (taken from the intermediate symbol table the
    generator consumed) and the wire encoders for its instances."""

    def __init__(self, source: str, label: str) -> None:
        from harness import mm as MMP

        self.source = source
        self.label = label
        self.sdk = MMP.load_python_sdk(source)
        self.ok = self.sdk.ok
        self.error = self.sdk.error
        if not self.ok:
            return
        from aas_core_codegen import intermediate
        from aas_core_codegen.python import naming as pn

        st = self.sdk.symbol_table
        self.intermediate = intermediate
        self.classes = list(st.classes)
        self.enums = [t for t in st.our_types if isinstance(t, intermediate.Enumeration)]
        self.cls_by_name = {c.name: c for c in self.classes}
        self.py_class_to_meta = {pn.class_name(c.name): c.name for c in self.classes}
        self.py_enum_to_meta = {pn.enum_name(e.name): e for e in self.enums}
        self.prop_attr = {(c.name, p.name): pn.property_name(p.name) for c in self.classes for p in c.properties}
        self.arg_name = pn.argument_name
        self.lit_attr = {(e.name, l.name): pn.enum_literal_name(l.name) for e in self.enums for l in e.literals}
        self.JE = self.sdk.jsonization.DeserializationException
        self.XE = self.sdk.xmlization.DeserializationException
        self.mm_wire = self._mm_wire()

    def close(self) -> None:
        self.sdk.close()

    # ---- meta-model wire
    def _ty(self, t: Any, out: List[str]) -> None:
        im = self.intermediate
        if isinstance(t, im.OptionalTypeAnnotation):
            out.append("o")
            self._ty(t.value, out)
        elif isinstance(t, im.ListTypeAnnotation):
            out.append("l")
            self._ty(t.items, out)
        elif isinstance(t, im.PrimitiveTypeAnnotation):
            out.append(self._prim(t.a_type))
        elif isinstance(t, im.OurTypeAnnotation):
            o = t.our_type
            if isinstance(o, im.Enumeration):
                out.append("e" + enc_text(o.name))
            elif isinstance(o, im.ConstrainedPrimitive):
                out.append(self._prim(o.constrainee))
            else:
                out.append("r" + enc_text(o.name))
        else:
            raise ValueError(f"type annotation {t}")

    def _prim(self, p: Any) -> str:
        return {"BOOL": "pb", "INT": "pi", "FLOAT": "pf", "STR": "ps", "BYTEARRAY": "py"}[p.name]

    def _mm_wire(self) -> str:
        im = self.intermediate
        toks = [f"M{len(self.classes)}:{len(self.enums)}"]
        for c in self.classes:
            toks.append(
                "c%s:%d:%d:%d:%d"
                % (enc_text(c.name), int(isinstance(c, im.AbstractClass)), int(bool(c.serialization.with_model_type)),
                   len(c.properties), len(c.concrete_descendants))
            )
            for p in c.properties:
                toks.append("p" + enc_text(p.name))
                self._ty(p.type_annotation, toks)
            for d in c.concrete_descendants:
                toks.append("d" + enc_text(d.name))
        for e in self.enums:
            toks.append(f"E{enc_text(e.name)}:{len(e.literals)}")
            for l in e.literals:
                toks.append(f"v{enc_text(l.name)}:{enc_text(l.value)}")
        return ",".join(toks)

    # ---- instance <-> Val wire
    def val_wire(self, x: Any) -> str:
        toks: List[str] = []
        self._val(x, toks)
        return ",".join(toks)

    def _val(self, x: Any, toks: List[str]) -> None:
        if x is None:
            toks.append("N")
        elif x is True:
            toks.append("T")
        elif x is False:
            toks.append("F")
        elif isinstance(x, enum.Enum):
            e = self.py_enum_to_meta[type(x).__name__]
            lit = [l for l in e.literals if self.lit_attr[(e.name, l.name)] == x.name][0]
            toks.append(f"E{enc_text(e.name)}:{enc_text(lit.name)}")
        elif type(x) is int:
            toks.append(f"I{x}")
        elif type(x) is float:
            toks.append("D" + enc_text(repr(x)))
        elif type(x) is str:
            toks.append("S" + enc_text(x))
        elif isinstance(x, (bytes, bytearray)):
            toks.append("B" + enc_bytes_w(bytes(x)))
        elif isinstance(x, (list, tuple)):
            toks.append(f"L{len(x)}")
            for y in x:
                self._val(y, toks)
        elif isinstance(x, self.sdk.types.Class):
            meta = self.py_class_to_meta[type(x).__name__]
            c = self.cls_by_name[meta]
            toks.append(f"C{enc_text(meta)}:{len(c.properties)}")
            for p in c.properties:
                self._val(getattr(x, self.prop_attr[(meta, p.name)]), toks)
        else:
            raise ValueError(f"value {type(x)}")

    def build(self, wire: str) -> Any:
        """SDK instance from its Val wire (through the generated constructors)."""
        toks = wire.split(",")
        pos = [0]

        def txt(s: str) -> str:
            return "" if s == "-" else "".join(chr(int(p, 16)) for p in s.split("."))

        def go() -> Any:
            t = toks[pos[0]]
            pos[0] += 1
            if t == "N":
                return None
            if t == "T":
                return True
            if t == "F":
                return False
            k, b = t[0], t[1:]
            if k == "I":
                return int(b)
            if k == "D":
                return float(txt(b))
            if k == "S":
                return txt(b)
            if k == "B":
                return bytes(int(p, 16) for p in b.split(".")) if b != "-" else b""
            if k == "E":
                e, l = b.split(":")
                return getattr(self.sdk.enum_of(txt(e)), self.lit_attr[(txt(e), txt(l))])
            if k == "L":
                return [go() for _ in range(int(b))]
            if k == "C":
                c, n = b.split(":")
                meta = txt(c)
                cls = self.cls_by_name[meta]
                vals = [go() for _ in range(int(n))]
                kwargs = {self.arg_name(p.name): v for p, v in zip(cls.properties, vals)}
                return self.sdk.class_of(meta)(**kwargs)
            raise ValueError(t)

        return go()

    def ancestors_of(self, meta: str) -> List[str]:
        """Classes through whose reader an instance of ``meta`` can be read (own class first)."""
        return [meta] + [c.name for c in self.classes if any(d.name == meta for d in c.concrete_descendants) and c.name != meta]

    # ---- running the implementation
    def from_jsonable(self, cls: str, doc: Any) -> str:
        try:
            inst = self.sdk.from_jsonable(cls)(doc)
        except self.JE:
            return "err"
        except BaseException as e:  # noqa: B902
            if isinstance(e, KeyboardInterrupt):
                raise
            return crash_name(e)
        try:
            return "ok " + self.val_wire(inst)
        except ValueError as e:
            return f"ok ?{e}"

    def from_xml(self, cls: str, text: str) -> Any:
        try:
            return ("ok", self.sdk.from_xml_str(cls)(text))
        except self.XE as e:
            return ("err", str(getattr(e, "cause", "")))
        except BaseException as e:  # noqa: B902
            if isinstance(e, KeyboardInterrupt):
                raise
            return (crash_name(e), str(e))


# =========================================================================== the direct oracle


def dump(m: Model, x: Any) -> Any:
    """Field-by-field canonical form of an SDK value (floats by repr, enum identity, bytes, list order)."""
    if isinstance(x, m.sdk.types.Class):
        return ("inst", type(x).__name__, tuple((k, dump(m, v)) for k, v in sorted(vars(x).items())))
    if isinstance(x, enum.Enum):
        return ("enum", type(x).__name__, x.name)
    if isinstance(x, bool):
        return ("bool", x)
    if isinstance(x, float):
        return ("float", repr(x))
    if isinstance(x, int):
        return ("int", x)
    if isinstance(x, str):
        return ("str", x)
    if isinstance(x, (bytes, bytearray)):
        return ("bytes", bytes(x))
    if isinstance(x, (list, tuple)):
        return ("list", tuple(dump(m, y) for y in x))
    if x is None:
        return ("none",)
    return ("other", repr(x))


def first_diff(a: Any, b: Any, path: str = "") -> str:
    if a == b:
        return ""
    if isinstance(a, tuple) and isinstance(b, tuple) and a[:1] == b[:1] and a[0] == "inst" and a[1] == b[1]:
        for (k, va), (_, vb) in zip(a[2], b[2]):
            d = first_diff(va, vb, f"{path}.{k}")
            if d:
                return d
    if isinstance(a, tuple) and isinstance(b, tuple) and a[:1] == b[:1] == ("list",) and len(a[1]) == len(b[1]):
        for i, (va, vb) in enumerate(zip(a[1], b[1])):
            d = first_diff(va, vb, f"{path}[{i}]")
            if d:
                return d
    return f"{path or '.'}: {str(a)[:80]} != {str(b)[:80]}"


def mistyped(m: Model, declared: Any, x: Any, path: str = "") -> Optional[Tuple[str, str]]:
    """(declared kind, found kind) at the first place where the value does not have the declared type."""
    im = m.intermediate
    if isinstance(declared, im.OptionalTypeAnnotation):
        if x is None:
            return None
        return mistyped(m, declared.value, x, path)
    if isinstance(declared, im.ListTypeAnnotation):
        if not isinstance(x, list):
            return ("list", type(x).__name__)
        for i, y in enumerate(x):
            r = mistyped(m, declared.items, y, f"{path}[{i}]")
            if r:
                return r
        return None
    prim = None
    if isinstance(declared, im.PrimitiveTypeAnnotation):
        prim = declared.a_type.name
    elif isinstance(declared.our_type, im.ConstrainedPrimitive):
        prim = declared.our_type.constrainee.name
    if prim is not None:
        want = {"BOOL": bool, "INT": int, "FLOAT": float, "STR": str, "BYTEARRAY": (bytes, bytearray)}[prim]
        good = isinstance(x, want) and not (prim == "INT" and isinstance(x, bool))
        return None if good else (prim.lower(), type(x).__name__)
    o = declared.our_type
    if isinstance(o, im.Enumeration):
        good = isinstance(x, enum.Enum) and type(x) is m.sdk.enum_of(o.name)
        return None if good else ("enum", type(x).__name__)
    if not isinstance(x, m.sdk.types.Class):
        return ("class", type(x).__name__)
    meta = m.py_class_to_meta.get(type(x).__name__)
    allowed = {o.name} | {d.name for d in o.concrete_descendants}
    if meta not in allowed or isinstance(m.cls_by_name[meta], im.AbstractClass):
        return ("class:" + o.name, str(meta))
    return mistyped_instance(m, x, path)


def mistyped_instance(m: Model, x: Any, path: str = "") -> Optional[Tuple[str, str]]:
    meta = m.py_class_to_meta[type(x).__name__]
    for p in m.cls_by_name[meta].properties:
        r = mistyped(m, p.type_annotation, getattr(x, m.prop_attr[(meta, p.name)]), f"{path}.{p.name}")
        if r:
            return r
    return None


def _cr_normalised(d: Any) -> Any:
    if isinstance(d, tuple):
        if d[:1] == ("str",):
            return ("str", d[1].replace("\r\n", "\n").replace("\r", "\n"))
        return tuple(_cr_normalised(x) for x in d)
    return d


def strictly_jsonable(x: Any) -> bool:
    """Only what ``json.loads`` can produce: dict with str keys, list, str, int, float, bool, None (no bytes, no tuples)."""
    if x is None or type(x) in (bool, int, float, str):
        return True
    if type(x) is list:
        return all(strictly_jsonable(y) for y in x)
    if type(x) is dict:
        return all(type(k) is str and strictly_jsonable(v) for k, v in x.items())
    return False


def judge_roundtrip(m: Model, wire: str, through: str) -> List[Tuple[str, str]]:
    """JSON and XML round trip of the instance given by its Val wire, read back through class ``through``."""
    return judge_roundtrip_inst(m, m.build(wire), through)


def judge_roundtrip_inst(m: Model, inst: Any, through: str) -> List[Tuple[str, str]]:
    import xml.etree.ElementTree as ET

    bad: List[Tuple[str, str]] = []
    want = dump(m, inst)
    # JSON: through real JSON text
    doc = None
    try:
        jsonable = m.sdk.to_jsonable(inst)
    except BaseException as e:  # noqa: B902
        if isinstance(e, KeyboardInterrupt):
            raise
        bad.append((f"C10:json-write:{crash_name(e)}", f"to_jsonable raised {crash_name(e)}: {e}"))
        jsonable = None
    if jsonable is not None:
        try:
            text = json.dumps(jsonable)
            doc = json.loads(text)
        except BaseException as e:  # noqa: B902
            if isinstance(e, KeyboardInterrupt):
                raise
            bad.append((f"C10:json-write:{crash_name(e)}", f"json.dumps of the result of to_jsonable raised {crash_name(e)}: {e}"))
        if doc is not None and not strictly_jsonable(jsonable):
            bad.append(("C10:json-write:not-plain-json", "to_jsonable returned something other than dict/list/str/int/float/bool/None"))
    if doc is not None:
        try:
            back = m.sdk.from_jsonable(through)(doc)
            d = first_diff(want, dump(m, back))
            if d:
                bad.append(("C10:json-roundtrip:diff", f"JSON round trip through {through} changes the instance at {d}"))
        except m.JE as e:
            cause = str(getattr(e, "cause", ""))
            if "modelType" in cause and isinstance(doc, dict) and "modelType" not in doc and len(e.path.segments) == 0:
                bad.append(("C10:json-roundtrip:dispatch-without-model-type",
                            f"{through}_from_jsonable rejects the SDK's own document of a {type(inst).__name__}: {cause}"))
            else:
                bad.append(("C10:json-roundtrip:rejected", f"{through}_from_jsonable rejects the SDK's own document: {cause} at {e.path}"))
        except BaseException as e:  # noqa: B902
            if isinstance(e, KeyboardInterrupt):
                raise
            bad.append((f"C10:json-roundtrip:{crash_name(e)}", f"{through}_from_jsonable raised {crash_name(e)}: {e}"))
    # XML
    if xml_representable(want):
        try:
            xml = m.sdk.to_xml_str(inst)
        except BaseException as e:  # noqa: B902
            if isinstance(e, KeyboardInterrupt):
                raise
            bad.append((f"C10:xml-write:{crash_name(e)}", f"xmlization.to_str raised {crash_name(e)}: {e}"))
            xml = None
        if xml is not None:
            try:
                ET.fromstring(xml)
            except BaseException as e:  # noqa: B902
                if isinstance(e, KeyboardInterrupt):
                    raise
                bad.append(("C10:xml-write:not-well-formed", f"xmlization.to_str wrote a text which an XML parser refuses: {crash_name(e)}: {e}"))
            kind, back = m.from_xml(through, xml)
            if kind == "ok":
                got = dump(m, back)
                d = first_diff(want, got)
                if d:
                    # ``cr``: the only loss is the end-of-line normalisation of carriage returns (the defect repaired by 59ee2953)
                    cr = "cr" if _cr_normalised(want) == _cr_normalised(got) else "diff"
                    where = "" if len(xml) < XML_CHUNK else f" (document of {len(xml)} characters, iterparse chunk = {XML_CHUNK})"
                    bad.append((f"C10:xml-roundtrip:{cr}", f"XML round trip through {through} changes the instance at {d}{where}"))
            elif kind == "err":
                what = "empty-bytes" if "Expected an element with text" in back else "rejected"
                where = ""
                if len(xml) >= XML_CHUNK:
                    what, where = "rejected-beyond-one-chunk", f" (document of {len(xml)} characters, iterparse chunk = {XML_CHUNK})"
                bad.append((f"C10:xml-roundtrip:{what}", f"{through}_from_str rejects the SDK's own document: {back}{where}"))
            else:
                bad.append((f"C10:xml-roundtrip:{kind}", f"{through}_from_str raised {kind}: {back}"))
    return bad


def xml_char_ok(c: str) -> bool:
    o = ord(c)
    return o in (0x9, 0xA, 0xD) or 0x20 <= o <= 0xD7FF or 0xE000 <= o <= 0xFFFD or 0x10000 <= o <= 0x10FFFF


_NOT_XML_CHAR = re.compile("[^\t\n\r\x20-\ud7ff\ue000-\ufffd\U00010000-\U0010ffff]")


def xml_representable(d: Any) -> bool:
    """All strings of the dumped instance consist of XML 1.0 `Char`s (same set as ``xml_char_ok``)."""
    if isinstance(d, tuple):
        if d[:1] == ("str",):
            return _NOT_XML_CHAR.search(d[1]) is None
        return all(xml_representable(x) for x in d[1:])
    return True


def judge_json_doc(m: Model, through: str, doc: Any) -> List[Tuple[str, str]]:
    """A (possibly malformed / mistyped) JSON-able document: SDK error or a type-conforming instance."""
    try:
        inst = m.sdk.from_jsonable(through)(doc)
    except m.JE:
        return []
    except BaseException as e:  # noqa: B902
        if isinstance(e, KeyboardInterrupt):
            raise
        return [(f"C10:json-doc:{crash_name(e)}", f"{through}_from_jsonable raised {crash_name(e)} ({e}) instead of DeserializationException")]
    r = mistyped_instance(m, inst)
    if r:
        return [(f"C10:json-doc:mistyped-accepted:{r[0].split(':')[0]}<-{r[1]}", f"{through}_from_jsonable accepted a document and stored a {r[1]} where {r[0]} is declared")]
    try:
        where = model_type_mismatch(doc, m.sdk.to_jsonable(inst))
    except BaseException:  # noqa: B902
        where = None
    if where is not None:
        return [("C10:json-doc:wrong-model-type-accepted", f"{through}_from_jsonable accepted a document whose modelType at {where or '.'} is not the model type of the instance it built")]
    return []


def model_type_mismatch(doc: Any, back: Any, path: str = "") -> Optional[str]:
    """Path where the re-serialized instance carries a ``modelType`` that the accepted document does not state."""
    if isinstance(back, dict) and isinstance(doc, dict):
        if "modelType" in back and doc.get("modelType") != back["modelType"]:
            return path
        for k, v in back.items():
            if k in doc:
                r = model_type_mismatch(doc[k], v, f"{path}/{k}")
                if r is not None:
                    return r
    elif isinstance(back, list) and isinstance(doc, (list, tuple)) and len(back) == len(doc):
        for i, (a, b) in enumerate(zip(doc, back)):
            r = model_type_mismatch(a, b, f"{path}/{i}")
            if r is not None:
                return r
    return None


def judge_xml_doc(m: Model, through: str, text: str) -> List[Tuple[str, str]]:
    kind, back = m.from_xml(through, text)
    if kind == "err":
        return []
    if kind != "ok":
        return [(f"C10:xml-doc:{kind}", f"{through}_from_str raised {kind} ({back}) instead of DeserializationException")]
    r = mistyped_instance(m, back)
    if r:
        return [(f"C10:xml-doc:mistyped-accepted:{r[0].split(':')[0]}<-{r[1]}", f"{through}_from_str accepted a document and stored a {r[1]} where {r[0]} is declared")]
    return []


# =========================================================================== generators

FIXED_MODEL = '''\
class Color(Enum):
    Red = "RED"
    Dark_green = "dark green"
    Empty = ""


@abstract
@serialization(with_model_type=True)
class Shape(DBC):
    label: str

    def __init__(self, label: str) -> None:
        self.label = label


class Circle(Shape):
    radius: float
    color: Optional["Color"]

    def __init__(self, label: str, radius: float, color: Optional["Color"] = None) -> None:
        Shape.__init__(self, label=label)
        self.radius = radius
        self.color = color


class Polygon(Shape):
    corners: int
    data: bytearray

    def __init__(self, label: str, corners: int, data: bytearray) -> None:
        Shape.__init__(self, label=label)
        self.corners = corners
        self.data = data


class Star_polygon(Polygon):
    dense: bool
    colors: List["Color"]

    def __init__(self, label: str, corners: int, data: bytearray, dense: bool, colors: List["Color"]) -> None:
        Polygon.__init__(self, label=label, corners=corners, data=data)
        self.dense = dense
        self.colors = colors


class Plain_URL_holder(DBC):
    some_URL: str
    blobs: Optional[List[bytearray]]
    numbers: List[int]
    ratios: List[float]
    flags: List[bool]
    names: Optional[List[str]]

    def __init__(self, some_URL: str, numbers: List[int], ratios: List[float], flags: List[bool], blobs: Optional[List[bytearray]] = None, names: Optional[List[str]] = None) -> None:
        self.some_URL = some_URL
        self.blobs = blobs
        self.numbers = numbers
        self.ratios = ratios
        self.flags = flags
        self.names = names


@serialization(with_model_type=True)
class Tagged_leaf(DBC):
    tag: Optional[str]

    def __init__(self, tag: Optional[str] = None) -> None:
        self.tag = tag


class Drawing(DBC):
    main: "Shape"
    polygon: Optional["Polygon"]
    shapes: List["Shape"]
    holder: Optional["Plain_URL_holder"]
    leaves: List["Tagged_leaf"]

    def __init__(self, main: "Shape", shapes: List["Shape"], leaves: List["Tagged_leaf"], polygon: Optional["Polygon"] = None, holder: Optional["Plain_URL_holder"] = None) -> None:
        self.main = main
        self.polygon = polygon
        self.shapes = shapes
        self.holder = holder
        self.leaves = leaves
'''

#: concrete class with a concrete descendant and no ``with_model_type`` anywhere (finding C10-F1)
NO_MODEL_TYPE_MODEL = '''\
class Parent_thing(DBC):
    some_int: int

    def __init__(self, some_int: int) -> None:
        self.some_int = some_int


class Child_thing(Parent_thing):
    some_str: str

    def __init__(self, some_int: int, some_str: str) -> None:
        Parent_thing.__init__(self, some_int=some_int)
        self.some_str = some_str
'''


def header() -> str:
    from harness import mm as MMP

    text = MMP.render(MMP.MM(classes=[MMP.Class(name="Zzz_unused", bases=[], abstract=False, props=[MMP.Prop("x", MMP.Prim("int"))])]))
    return text[: text.index("class Zzz_unused")]


def fixed_sources() -> List[Tuple[str, str]]:
    h = header()
    from harness import c10_shapes

    return [("fixed:shapes", h + FIXED_MODEL), ("fixed:no-model-type", h + NO_MODEL_TYPE_MODEL)] + [
        (sm.label, h + sm.body) for sm in c10_shapes.shape_models()
    ]


JSON_MENU: List[Any] = [None, True, False, 0, 1, -7, 2**70, 1.5, 1.0, "", "x", "é", "QUJD", "QQ=", "A", "QQ=x=QQ==", "====", [], {}, [1], {"x": 1}]


#: one value of every JSON kind: the "mistyped" menu for the positions nested below a list item
JSON_KIND_MENU: List[Any] = [None, True, 1, 1.5, "x", [], {}]


def enumerated_json_mutants(doc: Any, cap: int, menu: Optional[List[Any]] = None) -> List[Tuple[Any, str]]:
    """Seed-independent systematic single edits: every node × a fixed menu, every key dropped, extra keys, modelType edits."""
    import copy

    from harness.mm_inst import _json_paths, _json_set

    out: List[Tuple[Any, str]] = []
    for path, node in list(_json_paths(doc)):
        for i, repl in enumerate(JSON_MENU if menu is None else menu):
            if type(repl) is type(node) and repl == node:
                continue
            out.append((_json_set(copy.deepcopy(doc), path, copy.deepcopy(repl)), f"menu{i}@{'/'.join(map(str, path))}"))
        out.append((_json_set(copy.deepcopy(doc), path, [copy.deepcopy(node)]), f"wrap_in_list@{'/'.join(map(str, path))}"))
        if isinstance(node, dict):
            for k in list(node):
                d = copy.deepcopy(doc)
                n = d
                for p in path:
                    n = n[p]
                del n[k]
                out.append((d, f"drop@{'/'.join(map(str, path))}/{k}"))
                d = copy.deepcopy(doc)
                n = d
                for p in path:
                    n = n[p]
                items = [(kk.upper() if kk == k else kk, v) for kk, v in n.items()]
                n.clear()
                n.update(items)
                out.append((d, f"rename@{'/'.join(map(str, path))}/{k}"))
            for extra, val in [("unexpectedProperty", 1), ("modelType", "NoSuchClass"), ("modelType", 1), ("modelType", None), ("modelType", "")]:
                d = copy.deepcopy(doc)
                n = d
                for p in path:
                    n = n[p]
                n[extra] = val
                out.append((d, f"set:{extra}={val!r}@{'/'.join(map(str, path))}"))
            # key order: modelType first
            d = copy.deepcopy(doc)
            n = d
            for p in path:
                n = n[p]
            items = list(reversed(list(n.items())))
            n.clear()
            n.update(items)
            out.append((d, f"reversed@{'/'.join(map(str, path))}"))
        if isinstance(node, list):
            d = copy.deepcopy(doc)
            n = d
            for p in path:
                n = n[p]
            n.append(None)
            out.append((d, f"append_null@{'/'.join(map(str, path))}"))
    if len(out) > cap:
        step = len(out) / cap
        out = [out[int(i * step)] for i in range(cap)]
    return out


XML_TEXT_MENU = ["", " ", "abc", "1", "0", "true", "TRUE", "1.5", " 1 ", "1e400", "-INF", "NaN", "nan", "0x10", "1_0", "\u0661", "QUJD", "QUJ", "é", "====", "\n"]


XML_KIND_MENU = ["", "abc", "1", "true", "1.5", "QUJD", "é"]


def enumerated_xml_mutants(text: str, cap: int, menu: Optional[List[str]] = None) -> List[Tuple[str, str]]:
    """Seed-independent systematic single edits of an XML document: every element × (text menu, attribute, tail text,
    renamed, other/no namespace, dropped, duplicated, extra child, children reversed)."""
    import copy
    import xml.etree.ElementTree as ET

    root0 = ET.fromstring(text)
    ns = root0.tag[1:].split("}", 1)[0] if root0.tag.startswith("{") else ""
    if ns:
        ET.register_namespace("", ns)
    n = len(list(root0.iter()))
    out: List[Tuple[str, str]] = []

    def variant(i: int, edit: Any, label: str) -> None:
        root = copy.deepcopy(root0)
        elems = list(root.iter())
        parents = {c: p for p in elems for c in p}
        el = elems[i]
        if edit(el, parents.get(el)) is False:
            return
        out.append((ET.tostring(root, encoding="unicode"), f"{label}@{i}"))

    def local(tag: str) -> str:
        return tag.rsplit("}", 1)[-1]

    for i in range(n):
        for k, t in enumerate(XML_TEXT_MENU if menu is None else menu):
            variant(i, lambda el, p, t=t: setattr(el, "text", t), f"text{k}")
        variant(i, lambda el, p: el.set("unexpected", "1"), "attribute")
        variant(i, lambda el, p: setattr(el, "tail", "tail text"), "tail")
        variant(i, lambda el, p: setattr(el, "tag", ("{%s}" % ns if ns else "") + local(el.tag) + "X"), "renamed")
        variant(i, lambda el, p: setattr(el, "tag", "{https://example.com/other}" + local(el.tag)), "other_ns")
        variant(i, lambda el, p: (p.remove(el) if p is not None else False), "dropped")
        variant(i, lambda el, p: (p.insert(list(p).index(el), copy.deepcopy(el)) if p is not None else False), "duplicated")
        variant(i, lambda el, p: el.append(ET.Element(("{%s}" % ns if ns else "") + "unexpectedElement")), "extra_child")
        variant(i, lambda el, p: (el[:] if len(el) < 2 else el.__setitem__(slice(None), list(reversed(list(el))))) if len(el) >= 2 else False, "reversed")
    if len(out) > cap:
        step = len(out) / cap
        out = [out[int(j * step)] for j in range(cap)]
    return out


B64_ALPHA = "ABCZabcz0189+/"


def base64_inputs(ctx: Ctx) -> Iterator[Tuple[str, Any, str]]:
    """(op, argument, stream)"""
    for n in range(0, 8):
        yield "enc", bytes((250 + i) % 256 for i in range(n)), "b64-enumerated"
        yield "enc", bytes([0] * n), "b64-enumerated"
        yield "enc", bytes([255] * n), "b64-enumerated"
    alphabet = ["A", "/", "=", "!", " ", "é", "z"]
    import itertools

    for k in range(0, 6):
        for tup in itertools.product(alphabet, repeat=k):
            yield "dec", "".join(tup), "b64-enumerated"
    rng = ctx.rng
    for _ in range(ctx.n(1500, 40000)):
        yield "enc", bytes(rng.randrange(256) for _ in range(rng.randrange(0, 12))), "b64-random"
    for _ in range(ctx.n(3000, 80000)):
        k = rng.randrange(0, 14)
        s = "".join(rng.choice(B64_ALPHA) if rng.random() < 0.8 else rng.choice("=== \n!-_é\x00\x7f\x80") for _ in range(k))
        yield "dec", s, "b64-random"


IDENTS = ["something", "Something", "some_URL", "URL_to_something", "Data_type_IEC_61360", "a", "A", "a_b_c", "global_asset_ID",
          "X__y", "x_", "_x", "aB_cD", "specific_asset_IDs", "Abc_1_2x", "ABC", "aBC_DEf9"]


def run_small_streams(ctx: Ctx) -> None:
    """base64 and naming: model vs CPython / naming.py."""
    import binascii

    from aas_core_codegen import naming
    from aas_core_codegen.common import Identifier

    reqs: List[str] = []
    wants: List[str] = []
    metas: List[Tuple[str, Any, str]] = []
    for op, arg, stream in base64_inputs(ctx):
        if op == "enc":
            reqs.append("b64enc " + enc_bytes_w(arg))
            wants.append(enc_text(base64.b64encode(arg).decode("ascii")))
        else:
            reqs.append("b64dec " + enc_text(arg))
            try:
                wants.append("ok " + enc_bytes_w(base64.b64decode(arg.encode("ascii"))))
            except UnicodeEncodeError:
                wants.append("err:nonascii")
            except binascii.Error as e:
                wants.append("err:onechar" if "1 more than" in str(e) else "err:padding")
        metas.append((op, arg, stream))
    rng = ctx.rng
    idents = list(IDENTS)
    for _ in range(ctx.n(300, 5000)):
        parts = ["".join(rng.choice("abXYz019") for _ in range(rng.randrange(0, 4))) for _ in range(rng.randrange(1, 5))]
        s = "_".join(parts)
        if s and (s[0].isalpha() or s[0] == "_"):
            idents.append(s)
    for ident in idents:
        for kind, fn in (("prop", naming.json_property), ("model", naming.json_model_type)):
            if kind == "model" and not ident[0].isupper():
                continue
            try:
                want = enc_text(fn(Identifier(ident)))
            except Exception:  # a contract of naming.py: not an identifier the front end lets through
                continue
            reqs.append(f"name {kind} " + enc_text(ident))
            wants.append(want)
            metas.append((f"name-{kind}", ident, "naming"))
    got = ctx.model(reqs)
    for (op, arg, stream), w, g in zip(metas, wants, got):
        ctx.count((op, arg), nontrivial=len(arg) > 0, stream=stream)
        ctx.traces_validated += 1
        ctx.hit(f"{op}:{w.split(' ')[0] if op == 'dec' else 'ok'}")
        if w != g:
            ctx.disagree(stream, {"op": op, "arg": arg if isinstance(arg, str) else arg.hex()}, w, g)


XML_CLASSES = ["&", "a", "m", "p", ";", "#", "1", "3", "x", "<", ">", "\r", "\n", "l", "t", "g", "0", "D", "\t", "\x0b", "é", "\ufffe", "q", "u", "o", "s"]


def xml_text_inputs(ctx: Ctx) -> Iterator[Tuple[str, str]]:
    import itertools

    fixed = ["", "a\rb", "a\r\nb", "\r", "\r\r\n\n", "&amp;", "&#13;", "&#xD;", "&#x0d;", "&#0013;", "&#0;", "&#1;", "&#x110000;", "&#xFFFE;", "&#xfffd;",
             "&#xD800;", "&#55296;", "&amp", "&;", "&#;", "&#x;", "&# 13;", "&unknown;", "&apos;&quot;&lt;&gt;", "]]>", "]]&gt;", "a&#13;\nb", "&#13;&#10;",
             "&AMP;", "&#X41;", "&#x41;", "&#65;", "&#9;", "&#10;", "\x00", "\x7f", "\x85", "\u2028", "\U0001F600", "&#128512;", "&#x1F600;", "&#99999999999999999999;"]
    for t in fixed:
        yield t, "xmltext-fixed"
    small = ["&", "a", ";", "#", "1", "x", "<", "\r", "\n"]
    for k in range(1, 5):
        for tup in itertools.product(small, repeat=k):
            yield "".join(tup), "xmltext-enumerated"
    rng = ctx.rng
    for _ in range(ctx.n(3000, 60000)):
        k = rng.randrange(0, 10)
        yield "".join(rng.choice(XML_CLASSES) for _ in range(k)), "xmltext-random"
    for _ in range(ctx.n(500, 10000)):
        parts = [rng.choice(["&amp;", "&lt;", "&gt;", "&#13;", "&#10;", "&#x9;", "&#xd;", "\r", "\n", "\r\n", "a", " ", "&quot;", "&apos;", "&#38;", "&#60;"]) for _ in range(rng.randrange(0, 7))]
        yield "".join(parts), "xmltext-random"


def run_xml_text_stream(ctx: Ctx) -> None:
    """``XmlText.escape`` vs the generated ``_escape_and_write_text``; ``XmlText.content`` vs ``xml.etree`` (expat)."""
    import io
    import xml.etree.ElementTree as ET

    m = Model(header() + "class Holder(DBC):\n    text: str\n\n    def __init__(self, text: str) -> None:\n        self.text = text\n", "xmltext")
    if not m.ok:
        report_not_generated(ctx, "fixed:xmltext-holder", m.source, m.error)
        return
    try:
        reqs: List[str] = []
        wants: List[str] = []
        metas: List[Tuple[str, str, str]] = []
        for t, stream in xml_text_inputs(ctx):
            # the parser model
            try:
                t.encode("utf-8")
            except UnicodeEncodeError:
                continue
            try:
                el = ET.fromstring("<a>" + t + "</a>")
                want = "none" if len(el) else "ok " + enc_text(el.text or "")
            except ET.ParseError:
                want = "none"
            reqs.append("xmlcontent " + enc_text(t))
            wants.append(want)
            metas.append(("xmlcontent", t, stream))
            # the writer
            buf = io.StringIO()
            m.sdk.xmlization._Serializer(buf)._escape_and_write_text(t)
            reqs.append("xmlesc " + enc_text(t))
            wants.append(enc_text(buf.getvalue()))
            metas.append(("xmlesc", t, stream))
        for cp in list(range(0, 0x3100)) + [0xFEFF, 0x1F600]:
            if 0xD800 <= cp <= 0xDFFF:
                continue
            for t in (chr(cp), " " + chr(cp), chr(cp) + "a"):
                reqs.append("blank " + enc_text(t))
                wants.append("1" if len(t.strip()) == 0 else "0")
                metas.append(("blank", t, "str-strip"))
        reqs.append("blank !")
        wants.append("1")
        metas.append(("blank", "", "str-strip"))
        got = ctx.model(reqs)
        for (op, t, stream), w, g in zip(metas, wants, got):
            ctx.count((op, t), nontrivial=len(t) > 0, stream=stream)
            ctx.traces_validated += 1
            ctx.hit(f"{op}:{w.split(' ')[0] if op in ('xmlcontent', 'blank') else 'ok'}")
            if w != g:
                ctx.disagree(stream, {"op": op, "text": t}, w, g)
    finally:
        m.close()


class Budget:
    def __init__(self, ctx: Ctx) -> None:
        self.models = ctx.n(26, 300)
        self.size = 4
        self.instances = ctx.n(25, 40)
        self.json_mutants = ctx.n(85, 140)
        self.xml_mutants = ctx.n(35, 60)
        self.enum_cap = ctx.n(700, 4000)
        self.xml_enum_per_instance = ctx.n(450, 2000)
        #: per representative instance of the value-shape matrix (large enough to keep EVERY systematic single edit)
        self.shape_cap = 5000


def model_sources(ctx: Ctx, budget: Budget) -> Iterator[Tuple[str, str]]:
    from harness import mm as MMP

    yield from fixed_sources()
    if ctx.tier == "thorough":
        # the real meta-model of the project's own test data (50 classes, 11 enumerations)
        from harness.core import REPO

        real = REPO / "dev" / "test_data" / "common_meta_models" / "aas_core_meta.v3.py"
        if real.exists():
            yield "real:aas_core_meta.v3", real.read_text(encoding="utf-8")
    for k in range(budget.models):
        f = MMP.Features()
        f.lists_of_non_classes = True
        f.quantifiers = False
        f.general_invariants = ctx.rng.random() < 0.2
        f.schema_invariants = ctx.rng.random() < 0.2
        f.pattern_functions = ctx.rng.random() < 0.3
        f.transpilable_functions = False
        f.constants = False
        f.constant_sets = ctx.rng.random() < 0.2
        f.descriptions = False
        f.descendants_without_model_type = ctx.rng.random() < 0.25
        size = ctx.rng.choice([2, 3, 4, 4, 5, 6])
        m = MMP.random_mm(ctx.rng, size=size, features=f)
        yield f"random:{k}", MMP.render(m)


def check_model(ctx: Ctx, m: Model, budget: Budget, with_model: bool, enumerated: bool) -> None:
    """All streams for one generated SDK."""
    from harness import c10_shapes
    from harness import mm as MMP

    stream_prefix = "enumerated" if enumerated else "random"
    rng = random.Random(20260922) if enumerated else ctx.rng
    abstract_mm = _abstract_mm_for_instances(m)
    reqs: List[str] = []
    wants: List[Tuple[str, Any, str, str]] = []  # (stream, input, impl outcome, kind)

    def ask(line: str, stream: str, inp: Any, impl: str) -> None:
        reqs.append(line)
        wants.append((stream, inp, impl, line.split(" ")[0]))

    if with_model:
        ask(f"wf {m.mm_wire}", "wf", {"mm": m.label}, "")
    #: (declared class, val wire, mutant policy: "default" | "rep" (every node × full menus) | "rep-light" (× one value per
    #: kind) | "none" (round trips and valid-document correspondence only))
    instances: List[Tuple[str, str, str]] = []
    names = [c.name for c in m.classes]
    per_class = max(1, budget.instances // max(1, len(names)))
    shape_model = next((sm for sm in c10_shapes.shape_models() if sm.label == m.label), None)
    if shape_model is not None:
        # the value-shape matrix: enumerated instances only (the random instances of the other models add nothing here)
        try:
            for declared, label, inst, is_rep in c10_shapes.model_instances(c10_shapes.Maker(m.sdk, m.arg_name), shape_model):
                # full menus at the four positions of every holder; one value per JSON kind / text class below a list item
                # and for the chains (same readers as the constrained primitives they derive from)
                light = declared == "Nest" or m.label == "fixed:shapes-chains"
                policy = "none" if not is_rep else ("rep-light" if light else "rep")
                instances.append((declared, m.val_wire(inst), policy))
                ctx.hit("shape-instance:" + label.split(":")[-1].rstrip("0123456789"))
        except BaseException as e:  # noqa: B902
            if isinstance(e, KeyboardInterrupt):
                raise
            report_not_built(ctx, m, e)
        per_class = 0
    for cname in names:
        for _ in range(per_class):
            try:
                built = MMP.random_instance(m.sdk, abstract_mm, cname, rng, special_floats=True, max_depth=2)
            except BaseException as e:  # noqa: B902
                ctx.note(f"random_instance failed on {m.label}/{cname}: {crash_name(e)}")
                break
            if built.instance is None:
                break
            instances.append((cname, m.val_wire(built.instance), "default"))
    if m.label == "fixed:shapes":
        try:
            holder = c10_shapes.Maker(m.sdk, m.arg_name).new(
                "Plain_URL_holder",
                some_URL="x" * 17000 + "\r&<>]]>" + "é" * 5000, numbers=list(range(2500)), ratios=[0.5] * 700, flags=[True, False] * 300,
                blobs=[bytes([i % 256] * (i % 7)) for i in range(400)], names=["n%d\r\n" % i for i in range(1500)])
            instances.append(("Plain_URL_holder", m.val_wire(holder), "default"))
            ctx.hit("instance:larger-than-one-iterparse-chunk")
        except BaseException as e:  # noqa: B902
            if isinstance(e, KeyboardInterrupt):
                raise
            report_not_built(ctx, m, e)
    if m.label == "fixed:shapes-ours":
        try:
            check_chunks(ctx, m)
        except BaseException as e:  # noqa: B902
            if isinstance(e, KeyboardInterrupt):
                raise
            report_not_built(ctx, m, e)
    n_default = sum(1 for i in instances if i[2] == "default")
    seen = set()
    for declared, wire, policy in instances:
        if wire in seen:
            continue
        seen.add(wire)
        inst = m.build(wire)
        meta = m.py_class_to_meta[type(inst).__name__]
        base_input = {"mm": m.source, "val": wire}
        ctx.count((m.label, wire), nontrivial=wire.count(",") > 0, stream=f"{stream_prefix}-instances")
        ctx.hit("instance:" + ("nested" if wire.count(",C") else "flat"))
        try:
            doc = m.sdk.to_jsonable(inst)
        except BaseException as e:  # noqa: B902  (reported by judge_roundtrip)
            if isinstance(e, KeyboardInterrupt):
                raise
            doc = None
        dw = json_wire(doc) if doc is not None else None
        throughs = m.ancestors_of(meta)
        # --- oracle: round trips through own class and every ancestor
        for through in throughs:
            for sig, what in judge_roundtrip(m, wire, through):
                ctx.fail(dict(base_input, through=through, kind="roundtrip"), what, sig)
        if with_model:
            ask(f"conforms {m.mm_wire} {enc_text(meta)} {wire}", "conforms", base_input, "1")
            # a result of to_jsonable that is not plain JSON (raw bytes, an exception) disagrees with every model answer
            ask(f"tojson {m.mm_wire} {wire}", f"{stream_prefix}-tojson", base_input, dw if dw is not None else "impl:not-plain-json")
        if with_model and dw is not None:
            for through in throughs:
                ask(f"fromjson {m.mm_wire} {enc_text(through)} {dw}", f"{stream_prefix}-fromjson-valid",
                    dict(base_input, through=through), m.from_jsonable(through, json.loads(json.dumps(doc))))
        # --- mutants of the JSON document
        through = declared if declared in throughs else meta
        mutants: List[Tuple[Any, str]] = []
        big = wire.count(",") > 3000
        if doc is None or dw is None or policy == "none":
            pass
        elif policy == "rep":
            mutants += enumerated_json_mutants(doc, budget.shape_cap)
        elif policy == "rep-light":
            mutants += enumerated_json_mutants(doc, budget.shape_cap, JSON_KIND_MENU)
        elif big:
            mutants += [(dict(doc, numbers=doc["numbers"] + [True]), "big:bool-item"), (dict(doc, blobs=doc["blobs"] + ["é"]), "big:non-ascii-base64")]
        elif enumerated:
            mutants += enumerated_json_mutants(doc, budget.enum_cap // max(1, n_default))
        else:
            for _ in range(max(1, budget.json_mutants // max(1, n_default))):
                mutants.append(MMP.mutate_jsonable(doc, rng))
            dup = MMP.duplicate_key_json_text(doc, rng)
            if dup is not None:
                try:
                    mutants.append((json.loads(dup[0]), dup[1]))
                except ValueError:
                    pass
        for mdoc, label in mutants:
            kind = label.split("@")[0]
            inp = {"mm": m.source, "through": through, "doc": mdoc, "kind": "json-doc", "label": label}
            outcome = m.from_jsonable(through, mdoc)
            ctx.count((m.label, through, json.dumps(mdoc, sort_keys=False, default=repr)), stream=f"{stream_prefix}-json-mutants")
            ctx.hit(f"json-mutant:{outcome.split(' ')[0].split(':')[0]}")
            ctx.hit(f"json-mutation-kind:{kind.split(':')[0][:24]}")
            for sig, what in judge_json_doc(m, through, mdoc):
                ctx.fail(inp, what, sig)
            mw = json_wire(mdoc)
            if with_model and mw is not None:
                ask(f"fromjson {m.mm_wire} {enc_text(through)} {mw}", f"{stream_prefix}-fromjson-mutants", inp, outcome)
        # --- mutants of the XML document
        if xml_representable(dump(m, inst)):
            try:
                xml = m.sdk.to_xml_str(inst)
            except BaseException:  # noqa: B902  (reported by judge_roundtrip)
                xml = None
            nsw = enc_text(m.sdk.xmlization.NAMESPACE)
            if xml is not None and with_model and len(xml) < XML_ONE_CHUNK:
                ew = elem_wire(xml)
                if ew is not None:
                    ask(f"toxml {m.mm_wire} {nsw} {wire}", f"{stream_prefix}-toxml", base_input, ew[0])
                    for thr in throughs:
                        ask(f"fromxml {m.mm_wire} {nsw} {enc_text(thr)} {ew[1]} {ew[0]}", f"{stream_prefix}-fromxml-valid",
                            dict(base_input, through=thr), xml_outcome(m, thr, xml))
            if xml is not None:
                texts: List[Tuple[str, str]] = []
                if policy == "none":
                    pass
                elif policy in ("rep", "rep-light"):
                    texts += [(xml[:cut], "truncate") for cut in sorted({1, len(xml) // 2, len(xml) - 1})]
                    texts += enumerated_xml_mutants(xml, budget.shape_cap, None if policy == "rep" else XML_KIND_MENU)
                elif big:
                    texts += [(xml[: len(xml) // 2], "big:truncate"), (xml.replace("<v>0.5</v>", "<v>x</v>", 1), "big:wrong-text")]
                elif enumerated:
                    texts += [(xml[:cut], "truncate") for cut in sorted({0, 1, len(xml) // 3, len(xml) // 2, len(xml) - 1})]
                    texts += [("", "empty"), ("<", "garbage"), ("not xml", "garbage"), ("<a><b></a></b>", "garbage"), (xml + "<x/>", "trailing")]
                    texts += enumerated_xml_mutants(xml, budget.xml_enum_per_instance)
                for _ in range(0 if big or policy != "default" else max(1, budget.xml_mutants // max(1, n_default))):
                    texts.append(MMP.mutate_xml(xml, rng))
                for mtext, label in texts:
                    ctx.count((m.label, through, mtext), stream=f"{stream_prefix}-xml-mutants")
                    kind0 = m.from_xml(through, mtext)[0]
                    ctx.hit(f"xml-mutant:{kind0.split(':')[0]}")
                    xinp = {"mm": m.source, "through": through, "xml": mtext, "kind": "xml-doc", "label": label}
                    for sig, what in judge_xml_doc(m, through, mtext):
                        ctx.fail(xinp, what, sig)
                    if with_model and len(mtext) < XML_ONE_CHUNK:
                        ew = elem_wire(mtext)
                        if ew is not None:
                            ask(f"fromxml {m.mm_wire} {nsw} {enc_text(through)} {ew[1]} {ew[0]}", f"{stream_prefix}-fromxml-mutants",
                                xinp, xml_outcome(m, through, mtext))
    if with_model and reqs:
        t_driver = time.time()
        answers = ctx.model(reqs)
        tm = ctx.extra_cov.setdefault("driver_s", {})
        key = m.label if enumerated else "random-models"
        tm[key] = round(tm.get(key, 0.0) + time.time() - t_driver, 1)
        tm[key + ":requests"] = tm.get(key + ":requests", 0) + len(reqs)
        tm[key + ":MB"] = round(tm.get(key + ":MB", 0.0) + sum(len(r) for r in reqs) / 1e6, 1)
        for (stream, inp, impl, fn), ans in zip(wants, answers):
            ctx.traces_validated += 1
            if fn == "wf":
                ctx.hit("wf=" + ans[:1])
                ctx.hit("wfXml=" + ans[1:2])
                for cname, bit in zip(names, ans[2:]):
                    ctx.hit("dispatchOkFor=" + bit)
                if ans[:2] != "11":
                    ctx.note(f"accepted meta-model {m.label} is not MM.wf / MM.wfXml: {ans[:2]}")
                    ctx.sample({"not-wf": m.source})
                continue
            if fn == "conforms":
                ctx.hit("conforms=" + ans)
                if ans != "1":
                    ctx.disagree("conforms", {"val": inp["val"], "mm": inp["mm"]}, "1", ans)
                continue
            if ans != impl:
                light = {k: v for k, v in inp.items() if k != "mm"}
                light["mm_label"] = m.label
                ctx.disagree(stream, light, impl[:400], ans[:400])
                # let the oracle decide on the disagreeing input with full data (search)
                ctx.extra_cov.setdefault("_disagreeing_inputs", []).append(inp)


def check_chunks(ctx: Ctx, m: Model) -> None:
    """Documents larger than one ``iterparse`` chunk (oracle only: ``Model/SdkXml.lean`` is the one-chunk semantics).

    For every kind of text element (str / bytes / enumeration literal, plain, empty, escaped, as a list item, nested in a
    class, below a discriminator element; also int / float / bool) and every chunk boundary (16, 32, 64 KiB) the padding
    is swept so that the boundary falls at EVERY character offset of the element (start tag, text, end tag): the round
    trip must give the instance back.  At the offset inside the start tag the element text is replaced by the mistyped menu
    and the document is cut at the boundary: only ``DeserializationException`` or a type-conforming instance."""
    from harness import c10_shapes

    through = "Chunk_holder"
    n = 0
    mk = c10_shapes.Maker(m.sdk, m.arg_name)
    for label, inst, boundary in c10_shapes.chunk_instances(mk, m.sdk.to_xml_str):
        n += 1
        ctx.count((m.label, "chunk", label), stream="enumerated-xml-chunk-roundtrips")
        ctx.hit("xml-chunk:" + label.split("@")[0])
        bad = judge_roundtrip_inst(m, inst, through)
        if bad:
            base_input = {"mm": m.source, "val": m.val_wire(inst), "through": through, "kind": "roundtrip", "label": "chunk:" + label}
            for sig, what in bad:
                ctx.fail(base_input, what, sig)
        if boundary and label.endswith("+1"):
            try:
                xml = m.sdk.to_xml_str(inst)
            except BaseException as e:  # noqa: B902  (reported by judge_roundtrip_inst)
                if isinstance(e, KeyboardInterrupt):
                    raise
                continue
            target = [t for t in c10_shapes.chunk_targets(mk) if t[0] == label.split("@")[0]][0]
            pos, span = c10_shapes.locate(xml, target[2], target[3])
            element = xml[pos:pos + span]
            gt, lt = element.find(">"), element.rfind("</")
            texts: List[Tuple[str, str]] = [(xml[:boundary], "chunk:cut-at-boundary"), (xml[:boundary + 1], "chunk:cut-after-boundary")]
            if 0 <= gt < lt:
                for k, t in enumerate(XML_KIND_MENU + [" ", "dark green", "-INF", "x" * 20000]):
                    texts.append((xml[:pos + gt + 1] + t + xml[pos + lt:], f"chunk:text{k}"))
                texts.append((xml[:pos + gt + 1] + "<unexpectedElement/>" + xml[pos + lt:], "chunk:child"))
                texts.append((xml[:pos + 1 + len(target[2])] + ' unexpected="1"' + xml[pos + 1 + len(target[2]):], "chunk:attribute"))
            texts.append((xml[:pos] + xml[pos + span:], "chunk:dropped"))
            texts.append((xml[:pos] + element + element + xml[pos + span:], "chunk:duplicated"))
            for mtext, mlabel in texts:
                ctx.count((m.label, "chunk", label, mlabel), stream="enumerated-xml-chunk-mutants")
                ctx.hit(f"xml-chunk-mutant:{m.from_xml(through, mtext)[0].split(':')[0]}")
                for sig, what in judge_xml_doc(m, through, mtext):
                    ctx.fail({"mm": m.source, "through": through, "xml": mtext, "kind": "xml-doc", "label": f"{mlabel}@{label}"}, what, sig)
    ctx.extra_cov["xml_chunk_documents"] = n


def _abstract_mm_for_instances(m: Model) -> Any:
    """``harness.mm`` abstract meta-model rebuilt from the symbol table (only what ``random_instance`` reads)."""
    from harness import mm as MMP

    im = m.intermediate

    def ty(t: Any) -> Any:
        if isinstance(t, im.OptionalTypeAnnotation):
            return MMP.OptionalOf(ty(t.value))
        if isinstance(t, im.ListTypeAnnotation):
            return MMP.ListOf(ty(t.items))
        if isinstance(t, im.PrimitiveTypeAnnotation):
            return MMP.Prim({"BOOL": "bool", "INT": "int", "FLOAT": "float", "STR": "str", "BYTEARRAY": "bytes"}[t.a_type.name])
        o = t.our_type
        if isinstance(o, im.ConstrainedPrimitive):
            return MMP.Prim({"BOOL": "bool", "INT": "int", "FLOAT": "float", "STR": "str", "BYTEARRAY": "bytes"}[o.constrainee.name])
        return MMP.Ref(o.name)

    classes = []
    for c in m.classes:
        own = [p for p in c.properties if p.specified_for is c]
        classes.append(MMP.Class(name=c.name, bases=[b.name for b in c.inheritances], abstract=isinstance(c, im.AbstractClass),
                                 props=[MMP.Prop(p.name, ty(p.type_annotation)) for p in own]))
    enums = [MMP.Enum.of(e.name, [(l.name, l.value) for l in e.literals]) for e in m.enums]
    return MMP.MM(classes=classes, enums=enums)


# =========================================================================== entry points


def judge_generation(error: Optional[str]) -> List[Tuple[str, str]]:
    """An accepted meta-model for which no importable SDK comes out: nothing can be round-tripped at all."""
    if error is None or error.startswith("front end:"):
        return []  # the property quantifies over ACCEPTED meta-models
    stage = error.split(":", 1)[0]
    return [(f"C10:sdk-not-generated:{stage}", f"the front end accepts the meta-model but no Python SDK comes out: {error[:600]}")]


def report_not_generated(ctx: Ctx, label: str, source: str, error: Optional[str]) -> None:
    ctx.hit("model:fixed-not-generated")
    ctx.note(f"fixed meta-model {label} is not accepted / not generated any more: {(error or '')[:300]}")
    for sig, what in judge_generation(error):
        ctx.fail({"mm": source, "kind": "generate", "label": label}, what, sig)


def build_matrix(m: Model) -> None:
    """Builds every enumerated instance of the fixed meta-model ``m.label`` through the generated constructors."""
    from harness import c10_shapes

    mk = c10_shapes.Maker(m.sdk, m.arg_name)
    for sm in c10_shapes.shape_models():
        if sm.label == m.label:
            for _, _, inst, _ in c10_shapes.model_instances(mk, sm):
                m.val_wire(inst)
            if sm.label == "fixed:shapes-ours":
                for _ in c10_shapes.chunk_instances(mk, m.sdk.to_xml_str, [c10_shapes.CHUNK]):
                    pass


def judge_build(m: Model) -> List[Tuple[str, str]]:
    try:
        build_matrix(m)
    except BaseException as e:  # noqa: B902
        if isinstance(e, KeyboardInterrupt):
            raise
        return [(f"C10:sdk-instance-not-built:{crash_name(e)}",
                 f"an instance with type-conforming values cannot be built through the generated SDK of {m.label} "
                 f"(constructor / naming / to_str of the probe): {crash_name(e)}: {str(e)[:300]}")]
    return []


def report_not_built(ctx: Ctx, m: Model, e: BaseException) -> None:
    """The enumerated instances of a fixed meta-model are built from type-conforming values through the names the
    tree's own ``python/naming.py`` gives: a failure is a change of the code under test, never a harness error."""
    ctx.hit("model:fixed-instance-not-built")
    ctx.fail({"mm": m.source, "kind": "build", "label": m.label},
             f"an instance with type-conforming values cannot be built through the generated SDK of {m.label}: {crash_name(e)}: {str(e)[:300]}",
             f"C10:sdk-instance-not-built:{crash_name(e)}")


def replay_one(ctx: Ctx, inp: Dict[str, Any], with_model: bool, cache: Optional[Dict[str, Model]] = None) -> Dict[str, Any]:
    """``cache`` (corpus stage): generated SDKs by meta-model text, closed by the caller."""
    m = cache.get(inp["mm"]) if cache is not None and inp.get("kind") not in ("build", "generate") else None
    if m is None:
        m = Model(inp["mm"], inp.get("label", "replay") if inp.get("kind") == "build" else "replay")
        if cache is not None and m.ok and inp.get("kind") not in ("build", "generate"):
            cache[inp["mm"]] = m
    if inp.get("kind") == "generate":
        if m.ok:
            m.close()
        return {"oracle": judge_generation(m.error), "error": m.error}
    if not m.ok:
        return {"error": m.error}
    try:
        res: Dict[str, Any] = {}
        kind = inp.get("kind")
        if kind == "build":
            res["oracle"] = judge_build(m)
        elif kind == "roundtrip":
            res["oracle"] = judge_roundtrip(m, inp["val"], inp["through"])
            inst = m.build(inp["val"])
            try:
                doc = m.sdk.to_jsonable(inst)
                plain = json.loads(json.dumps(doc))
            except BaseException as e:  # noqa: B902  (a failure of the writer: reported by the oracle above)
                if isinstance(e, KeyboardInterrupt):
                    raise
                res["impl"] = "to_jsonable/json.dumps: " + crash_name(e)
                return res
            res["impl"] = m.from_jsonable(inp["through"], plain)
            dw = json_wire(doc)
            if with_model and dw is not None:
                answers = ctx.model([f"fromjson {m.mm_wire} {enc_text(inp['through'])} {dw}", f"tojson {m.mm_wire} {inp['val']}", f"wf {m.mm_wire}"])
                res["model"] = answers[0]
                res["model_tojson_agrees"] = answers[1] == dw
                res["wf"] = answers[2]
        elif kind == "json-doc":
            res["oracle"] = judge_json_doc(m, inp["through"], inp["doc"])
            res["impl"] = m.from_jsonable(inp["through"], inp["doc"])
            mw = json_wire(inp["doc"])
            if with_model and mw is not None:
                res["model"] = ctx.model([f"fromjson {m.mm_wire} {enc_text(inp['through'])} {mw}"])[0]
        elif kind == "xml-doc":
            res["oracle"] = judge_xml_doc(m, inp["through"], inp["xml"])
            res["impl"] = m.from_xml(inp["through"], inp["xml"])[0]
        else:
            res["error"] = f"unknown kind {kind}"
        return res
    finally:
        if cache is None or cache.get(inp["mm"]) is not m:
            m.close()


def _run(ctx: Ctx, with_model: bool) -> None:
    budget = Budget(ctx)
    # corpus first (incl. the witnesses of fixed defects and of the known finding)
    t_corpus = time.time()
    cache: Dict[str, Model] = {}
    try:
        for c in corpus(ID):
            inp = c.get("input", c)
            ctx.count(json.dumps(inp, sort_keys=True, default=repr)[:2000], stream="corpus")
            res = replay_one(ctx, inp, with_model, cache)
            for sig, what in res.get("oracle", []):
                ctx.fail(inp, what, sig)
            if with_model and "model" in res and res["model"] != res.get("impl"):
                ctx.disagree("corpus", {k: v for k, v in inp.items() if k != "mm"}, res.get("impl"), res["model"])
    finally:
        for cm in cache.values():
            cm.close()
    timing: Dict[str, float] = {"corpus": round(time.time() - t_corpus, 1)}
    t1 = time.time()
    if with_model:
        run_small_streams(ctx)
        run_xml_text_stream(ctx)
    timing["small-streams"] = round(time.time() - t1, 1)
    t_gen = 0.0
    n_models = 0
    for label, source in model_sources(ctx, budget):
        t0 = time.time()
        m = Model(source, label)
        t_gen += time.time() - t0
        if not m.ok:
            ctx.hit("model:rejected-or-generator-error")
            if label.startswith("fixed"):
                # never a harness error: the fixed meta-models are accepted and generated on the pinned tree, so this is a
                # change of the code under test
                report_not_generated(ctx, label, source, m.error)
            continue
        n_models += 1
        ctx.hit("model:accepted")
        t1 = time.time()
        try:
            check_model(ctx, m, budget, with_model, enumerated=label.startswith("fixed"))
        finally:
            m.close()
        key = label if label.startswith("fixed") else "random-models"
        timing[key] = round(timing.get(key, 0.0) + time.time() - t1, 1)
    ctx.extra_cov["timing_s"] = timing
    ctx.extra_cov["models"] = n_models
    ctx.extra_cov["sdk_generation_s"] = round(t_gen, 1)
    ctx.extra_cov.pop("_disagreeing_inputs", None)


def correspond(ctx: Ctx) -> None:
    ctx.extra_cov["rule"] = (
        "per generated SDK (2 fixed meta-models that alone hit every branch of the model + seeded random ones): instances from "
        "mm.random_instance (distinct by Val wire; non-trivial = more than one token), their JSON documents read through the own class "
        "and every ancestor, systematic (fixed models) and random single-edit JSON mutants (distinct by document), XML mutants (oracle "
        "only); plus base64 texts (all strings <= 5 over 7 character classes + random) and identifiers for the naming functions"
    )
    ctx.assumptions += [
        "xml_roundtrip: py.intOk / floatsOk = the CPython facts int(str(i)) == i and repr(float(repr(x))) == repr(x) (oracle table; exercised by every real round trip)",
        "Model/SdkXml.lean is stated for documents that xml.etree iterparse reads in one chunk (< 16 KiB); larger and not-well-formed documents are covered by the direct oracle only",
        "the abstract meta-model is read from the intermediate symbol table the generator consumed; constructors / attribute storage of the generated types module are not modelled",
    ]
    _run(ctx, True)


def oracle(ctx: Ctx) -> None:
    # the oracle is evaluated on every correspondence input inside _run; alone when the driver is not available / searching
    if not ctx.driver_ok or ctx.searching:
        _run(ctx, False)


def replay(ctx: Ctx, data: Dict[str, Any]) -> Any:
    inp = data["failure"]["input"] if "failure" in data else data.get("input", data)
    return replay_one(ctx, inp, ctx.driver_ok)
