"""
C29 — Python SDK traversal and accessors are complete.

What runs is the GENERATED ``types`` module: ``aas_core_codegen.python.lib.generate_types`` is called on
the symbol table the real front end builds from the rendered abstract meta-model (the call
``python/main.py`` makes; a sample of the models also goes through ``main.execute`` and the written
``types.py`` must be the same text), the code is executed as a module, instances are built through the
generated constructors and exercised in-process.

Streams
-------
* ``body``      the statement tree of every generated ``descend_once`` / ``descend`` method (read back from
                the generated code with ``ast``) against ``SdkDescend.propBlock`` per property;
* ``once`` / ``descend``  the yields of ``x.descend_once()`` / ``x.descend()`` for every instance ``x`` of
                an instance tree against ``SdkDescend.descendOnce`` / ``descend`` (values compared in the wire
                form; every class of the focused generator carries a unique ``ident`` so equal wire form
                means the same position of the containment tree);
* ``dispatch``  which visitor / transformer method ``accept[_with_context]`` / ``transform[_with_context]``
                calls (recording subclasses) against ``SdkDescend.dispatch`` with the MRO of the class;
* ``over`` / ``ordefault``  the accessors against ``SdkDescend.overOrEmpty`` / ``orDefault`` and the
                existence of ``over_X_or_empty`` against ``hasOverOrEmpty``.

Names: the seed-independent part runs every enumerated model once per NAME SHAPE (``NAME_SHAPES``: upper-case
abbreviations, digits, single-letter parts, mixed case, empty parts, leading / trailing underscore — every shape
``IDENTIFIER_RE`` and the reserved-name rules accept) for classes, properties, enumerations, literals and constrained
primitives (``enumerated_named_trees``); the seeded streams decorate the names of 50–60 % of their models (``shaped``).

Oracle (independent of the Lean model, from the property text): a reflection-based traversal of the SDK
object over ``mm.all_props`` that looks only at the VALUES (an instance is yielded, a list is
flattened in order), compared by object identity; recording visitors/transformers; accessor results by
identity / declared default.
"""
from __future__ import annotations

import ast
import copy
import json
import random
import types as pytypes
from typing import Any, Dict, Iterator, List, Optional, Sequence, Tuple

from harness import mm
from harness import sdk_wire as W
from harness.core import Ctx, corpus, crash_name, dec_text, enc_list, enc_text
from harness.extract import ExtractError
from harness.sdk_wire import EnumVal, Inst

ID = "C29"
GEN = ["SdkDescend"]

P, R, L, O = mm.Prim, mm.Ref, mm.ListOf, mm.OptionalOf

KINDS = ("accept", "accept_with_context", "transform", "transform_with_context")

# =========================================================================== abstract model <-> JSON


def _descr(name: str) -> str:
    """The description of a class: the name only where it cannot be read as reStructuredText markup (``Leaf_`` is a
    hyperlink reference for docutils, the front end then fails to parse the description)."""
    return f"Represent {name}." if name.replace("_", "").isalnum() and "__" not in name and not name.endswith("_") and not name.startswith("_") else "Represent a class."


def ty_to_json(t: Any) -> Any:
    if isinstance(t, mm.Prim):
        return t.name
    if isinstance(t, mm.Ref):
        return {"r": t.name}
    if isinstance(t, mm.ListOf):
        return {"l": ty_to_json(t.item)}
    if isinstance(t, mm.OptionalOf):
        return {"o": ty_to_json(t.item)}
    raise TypeError(repr(t))


def ty_from_json(d: Any) -> Any:
    if isinstance(d, str):
        return P(d)
    if "r" in d:
        return R(d["r"])
    if "l" in d:
        return L(ty_from_json(d["l"]))
    return O(ty_from_json(d["o"]))


def mm_to_json(m: mm.MM, defaults: Dict[str, Any]) -> Dict[str, Any]:
    """The subset of the abstract meta-model this property uses (see ``project``)."""
    return {
        "classes": [
            {
                "name": c.name, "bases": list(c.bases), "abstract": c.abstract, "wmt": c.with_model_type,
                "props": [[p.name, ty_to_json(p.type)] for p in c.props],
                "methods": [[me.name, ty_to_json(me.returns)] for me in c.methods],
            }
            for c in m.classes
        ],
        "enums": [{"name": e.name, "literals": [[li.name, enc_text(li.value)] for li in e.literals]} for e in m.enums],
        "cps": [{"name": cp.name, "base": cp.base, "bases": list(cp.bases)} for cp in m.constrained_primitives],
        "order": m.order,
        "defaults": {k: W.jsonable(v) for k, v in defaults.items()},
    }


def mm_from_json(d: Dict[str, Any]) -> Tuple[mm.MM, Dict[str, Any]]:
    m = mm.MM(
        classes=[
            mm.Class(
                c["name"], bases=list(c["bases"]), abstract=c["abstract"], with_model_type=c["wmt"],
                props=[mm.Prop(n, ty_from_json(t)) for n, t in c["props"]],
                methods=[mm.Method(n, returns=ty_from_json(t), impl_specific=True) for n, t in c.get("methods", [])],
                description=_descr(c["name"]),
            )
            for c in d["classes"]
        ],
        enums=[mm.Enum.of(e["name"], [(n, dec_text(v)) for n, v in e["literals"]], description="Represent an enumeration.") for e in d["enums"]],
        constrained_primitives=[mm.ConstrainedPrimitive(cp["name"], cp["base"], list(cp["bases"]), description="Represent a constrained primitive.") for cp in d["cps"]],
        order=d.get("order"),
    )
    return m, {k: W.from_jsonable(v) for k, v in d.get("defaults", {}).items()}


def project(m: mm.MM) -> mm.MM:
    """Keep what matters for the ``types`` module: classes with properties, enumerations, constrained primitives."""
    out = mm.MM(order=copy.deepcopy(m.order))
    for c in m.classes:
        out.classes.append(
            mm.Class(c.name, bases=list(c.bases), abstract=c.abstract, with_model_type=c.with_model_type,
                     props=[mm.Prop(p.name, p.type) for p in c.props], description=_descr(c.name))
        )
    out.enums = [mm.Enum.of(e.name, [(li.name, li.value) for li in e.literals], description="Represent an enumeration.") for e in m.enums]
    out.constrained_primitives = [
        mm.ConstrainedPrimitive(cp.name, cp.base, list(cp.bases), description="Represent a constrained primitive.") for cp in m.constrained_primitives
    ]
    return out


# =========================================================================== the generated module


class Sdk:
    """The generated ``types`` module of one meta-model + the naming the harness needs."""

    def __init__(self, m: mm.MM, defaults: Dict[str, Any], source: Optional[str] = None, spec: Optional[Dict[str, str]] = None) -> None:
        self.mm = m
        self.defaults = defaults  # "Class.method" -> abstract default value
        #: ``source``/``spec``: an existing meta-model text + snippets of which ``m`` is the abstraction (``mm_from_symbol_table``)
        self.source = mm.render(m) if source is None else source
        self.spec = spec
        self.error: Optional[str] = None
        self.crash: Optional[str] = None
        self.code: Optional[str] = None
        self.module: Any = None
        self.symbol_table: Any = None
        self.py_class: Dict[str, Any] = {}
        self.meta_of: Dict[Any, str] = {}
        self.py_enum: Dict[str, Any] = {}
        self.tree: Any = None
        self.recorders: Any = None
        self._props: Dict[str, List[Any]] = {}

    def props(self, cls: str) -> List[Any]:
        """``mm.all_props`` (cached): ``[(Prop, owner)]``"""
        r = self._props.get(cls)
        if r is None:
            r = self._props[cls] = mm.all_props(self.mm, cls)
        return r

    def snippets(self) -> Dict[str, str]:
        """``Types/<cls>/<method>.py`` for every ``X_or_default`` method: the canonical implementation."""
        from aas_core_codegen.common import Identifier
        from aas_core_codegen.python import naming as N

        if self.spec is not None:
            return dict(self.spec)
        out: Dict[str, str] = {}
        for c in self.mm.classes:
            for me in c.methods:
                assert me.name.endswith("_or_default")
                prop = N.property_name(Identifier(me.name[: -len("_or_default")]))
                default = self.default_code(self.defaults[f"{c.name}.{me.name}"])
                out[f"Types/{c.name}/{me.name}.py"] = (
                    f"def {N.method_name(Identifier(me.name))}(self):  # type: ignore\n"
                    f"    return self.{prop} if self.{prop} is not None else {default}"
                )
        return out

    def default_code(self, v: Any) -> str:
        from aas_core_codegen.common import Identifier
        from aas_core_codegen.python import naming as N

        if isinstance(v, EnumVal):
            return f"{N.enum_name(Identifier(v.enum))}.{N.enum_literal_name(Identifier(v.literal))}"
        return repr(v)

    def build(self, module_name: str = "aasv_c29") -> "Sdk":
        from aas_core_codegen import specific_implementations as SI
        from aas_core_codegen.common import Identifier, Stripped
        from aas_core_codegen.python import common as python_common, lib as python_lib, naming as N

        ld = mm.load(self.source)
        if not ld.ok:
            self.error, self.crash = ld.error, ld.crash
            return self
        self.symbol_table = ld.symbol_table
        try:  # the project's code
            verified, errors = python_lib.verify_for_types(symbol_table=ld.symbol_table)
            if errors is not None:
                self.error = "verify_for_types: " + "; ".join(str(e.message) for e in errors)
                return self
            spec = {SI.ImplementationKey(k): Stripped(v) for k, v in self.snippets().items()}
            code, errors = python_lib.generate_types(
                symbol_table=verified, qualified_module_name=python_common.QualifiedModuleName(module_name), spec_impls=spec
            )
            if errors is not None:
                self.error = "generate_types: " + "; ".join(str(e.message) for e in errors)
                return self
        except BaseException as e:  # noqa: B902
            if isinstance(e, (KeyboardInterrupt, SystemExit)):
                raise
            self.crash = crash_name(e)
            return self
        self.code = code
        mod = pytypes.ModuleType(module_name + ".types")
        try:
            exec(compile(code, f"<generated {module_name}/types.py>", "exec"), mod.__dict__)  # noqa: S102
        except BaseException as e:  # noqa: B902
            if isinstance(e, (KeyboardInterrupt, SystemExit)):
                raise
            self.crash = "import:" + crash_name(e)
            return self
        self.module = mod
        for c in self.mm.classes:
            k = getattr(mod, N.class_name(Identifier(c.name)))
            self.py_class[c.name] = k
            self.meta_of[k] = c.name
        for e in self.mm.enums:
            self.py_enum[e.name] = getattr(mod, N.enum_name(Identifier(e.name)))
        return self

    @property
    def ok(self) -> bool:
        return self.module is not None

    # ---- naming (the project's own functions: naming is C21's subject, not this property's)
    _names: Dict[Tuple[str, str], str] = {}

    @staticmethod
    def prop_name(name: str) -> str:
        r = Sdk._names.get(("p", name))
        if r is None:
            from aas_core_codegen.common import Identifier
            from aas_core_codegen.python import naming as N

            r = Sdk._names[("p", name)] = str(N.property_name(Identifier(name)))
        return r

    @staticmethod
    def method_name(name: str) -> str:
        r = Sdk._names.get(("m", name))
        if r is None:
            from aas_core_codegen.common import Identifier
            from aas_core_codegen.python import naming as N

            r = Sdk._names[("m", name)] = str(N.method_name(Identifier(name)))
        return r

    def enum_member(self, v: EnumVal) -> Any:
        from aas_core_codegen.common import Identifier
        from aas_core_codegen.python import naming as N

        return getattr(self.py_enum[v.enum], N.enum_literal_name(Identifier(v.literal)))

    # ---- abstract value -> SDK object
    def realise(self, v: Any) -> Any:
        if isinstance(v, Inst):
            if v.obj is not None:
                return v.obj  # shared object: the same instance at a second place
            props = self.props(v.cls)
            kwargs = {self.prop_name(p.name): self.realise(x) for (p, _o), x in zip(props, v.fields)}
            v.obj = self.py_class[v.cls](**kwargs)
            return v.obj
        if isinstance(v, list):
            return [self.realise(x) for x in v]
        if isinstance(v, EnumVal):
            return self.enum_member(v)
        return v

    # ---- SDK object -> abstract value (reflection; for printing what the SDK yielded)
    def abstract(self, o: Any) -> Any:
        if o is None or isinstance(o, (bool, int, float, str, bytes, bytearray)):
            return o
        if isinstance(o, list):
            return [self.abstract(x) for x in o]
        if type(o) in self.meta_of:
            name = self.meta_of[type(o)]
            return Inst(name, [self.abstract(getattr(o, self.prop_name(p.name))) for p, _o in self.props(name)])
        for ename, k in self.py_enum.items():
            if isinstance(o, k):
                e = self.mm.find(ename)
                for lit in e.literals:  # type: ignore[union-attr]
                    if self.enum_member(EnumVal(ename, lit.name)) is o:
                        return EnumVal(ename, lit.name)
        return "?" + type(o).__name__


def python_mro(m: mm.MM, cls: str) -> List[str]:
    """The linearisation CPython computes for the class hierarchy of the meta-model (proper ancestors)."""
    made: Dict[str, Any] = {}

    def make(n: str) -> Any:
        if n not in made:
            made[n] = type(n, tuple(make(b) for b in m.cls(n).bases) or (object,), {})
        return made[n]

    return [k.__name__ for k in make(cls).__mro__[1:] if k is not object]


# =========================================================================== observations on the real module


def observe_body(sdk: Sdk, cls: str, method: str) -> Any:
    """``[(python property name, node wire)]`` of the generated ``descend_once`` / ``descend`` of a concrete class."""
    if sdk.tree is None:
        sdk.tree = ast.parse(sdk.code or "")
    tree = sdk.tree
    from aas_core_codegen.common import Identifier
    from aas_core_codegen.python import naming as N

    want = str(N.class_name(Identifier(cls)))
    for node in tree.body:
        if isinstance(node, ast.ClassDef) and node.name == want:
            for f in node.body:
                if isinstance(f, ast.FunctionDef) and f.name == method:
                    return _canon_body(f)
            return "no-method"
    return "no-class"


def _expr_key(e: ast.expr) -> str:
    if isinstance(e, ast.Name):
        return e.id
    if isinstance(e, ast.Attribute) and isinstance(e.value, ast.Name) and e.value.id == "self":
        return "self." + e.attr
    return "?" + ast.dump(e)


def _canon_stmt(s: ast.stmt, cur: str) -> List[str]:
    """One statement over the unrollee ``cur`` -> node tokens; anything unexpected becomes a ``?`` token."""
    if isinstance(s, ast.Expr) and isinstance(s.value, ast.Yield) and s.value.value is not None:
        return ["Y"] if _expr_key(s.value.value) == cur else ["?yield:" + _expr_key(s.value.value)]
    if isinstance(s, ast.Expr) and isinstance(s.value, ast.YieldFrom):
        v = s.value.value
        if isinstance(v, ast.Call) and isinstance(v.func, ast.Attribute) and v.func.attr == "descend" and not v.args and not v.keywords:
            return ["D"] if _expr_key(v.func.value) == cur else ["?descend:" + _expr_key(v.func.value)]
        return ["F"] if _expr_key(v) == cur else ["?from:" + ast.unparse(v)]
    if isinstance(s, ast.For) and isinstance(s.target, ast.Name) and not s.orelse:
        if _expr_key(s.iter) != cur:
            return ["?for:" + _expr_key(s.iter)]
        body: List[str] = []
        for b in s.body:
            body += _canon_stmt(b, s.target.id)
        return ["L", str(len(s.body))] + body
    if (
        isinstance(s, ast.If) and not s.orelse and isinstance(s.test, ast.Compare) and len(s.test.ops) == 1
        and isinstance(s.test.ops[0], ast.IsNot) and isinstance(s.test.comparators[0], ast.Constant) and s.test.comparators[0].value is None
    ):
        if _expr_key(s.test.left) != cur:
            return ["?if:" + _expr_key(s.test.left)]
        body = []
        for b in s.body:
            body += _canon_stmt(b, cur)
        return ["O", str(len(s.body))] + body
    return ["?" + type(s).__name__]


def _top_operand(s: ast.stmt) -> Optional[str]:
    for n in ast.walk(s):
        if isinstance(n, ast.Attribute) and isinstance(n.value, ast.Name) and n.value.id == "self":
            return n.attr
    return None


def _canon_body(f: ast.FunctionDef) -> Any:
    stmts = [s for s in f.body if not (isinstance(s, ast.Expr) and isinstance(s.value, ast.Constant) and isinstance(s.value.value, str))]
    # the "no descendable properties" body: ``return`` followed by a bare ``yield``
    if len(stmts) == 2 and isinstance(stmts[0], ast.Return) and stmts[0].value is None and isinstance(stmts[1], ast.Expr) \
            and isinstance(stmts[1].value, ast.Yield) and stmts[1].value.value is None:
        return []
    out: List[List[str]] = []
    for s in stmts:
        attr = _top_operand(s)
        if attr is None:
            out.append(["?", "?" + type(s).__name__])
            continue
        toks = _canon_stmt(s, "self." + attr)
        if out and out[-1][0] == attr:
            out[-1] += toks
        else:
            out.append([attr] + toks)
    return [[b[0], ",".join(b[1:])] for b in out]


def run_list(fn: Any) -> Any:
    try:
        return list(fn())
    except BaseException as e:  # noqa: B902
        if isinstance(e, (KeyboardInterrupt, SystemExit)):
            raise
        return crash_name(e)


def make_recorders(sdk: Sdk) -> Dict[str, Any]:
    """Recording subclasses of the four abstract visitors/transformers: every method logs its own name."""
    if sdk.recorders is not None:
        for _rec, log in sdk.recorders.values():
            del log[:]
        return sdk.recorders
    sdk.recorders = _make_recorders(sdk)
    return sdk.recorders


def _make_recorders(sdk: Sdk) -> Dict[str, Any]:
    mod = sdk.module
    concrete = [c.name for c in sdk.mm.classes if not c.abstract]

    def body(kind: str, log: List[Any]) -> Dict[str, Any]:
        d: Dict[str, Any] = {}
        for c in concrete:
            if kind == "accept":
                name = sdk.method_name(f"visit_{c}")
                d[name] = (lambda n: lambda self, that: log.append((n, that, None)))(name)
            elif kind == "accept_with_context":
                name = sdk.method_name(f"visit_{c}_with_context")
                d[name] = (lambda n: lambda self, that, context: log.append((n, that, context)))(name)
            elif kind == "transform":
                name = sdk.method_name(f"transform_{c}")
                d[name] = (lambda n: lambda self, that: (log.append((n, that, None)), ("result", n))[1])(name)
            else:
                name = sdk.method_name(f"transform_{c}_with_context")
                d[name] = (lambda n: lambda self, that, context: (log.append((n, that, context)), ("result", n))[1])(name)
        return d

    out: Dict[str, Any] = {}
    for kind, base in (("accept", "AbstractVisitor"), ("accept_with_context", "AbstractVisitorWithContext"),
                       ("transform", "AbstractTransformer"), ("transform_with_context", "AbstractTransformerWithContext")):
        log: List[Any] = []
        k = type("Rec" + base, (getattr(mod, base),), body(kind, log))
        out[kind] = (k(), log)
    return out


def call_dispatch(kind: str, obj: Any, rec: Any, ctxobj: Any) -> Any:
    try:
        if kind == "accept":
            return obj.accept(rec)
        if kind == "accept_with_context":
            return obj.accept_with_context(rec, ctxobj)
        if kind == "transform":
            return obj.transform(rec)
        return obj.transform_with_context(rec, ctxobj)
    except BaseException as e:  # noqa: B902
        if isinstance(e, (KeyboardInterrupt, SystemExit)):
            raise
        return crash_name(e)


# =========================================================================== the direct oracle


def _flatten(sdk: Sdk, v: Any) -> Iterator[Any]:
    """The class instances directly inside a property value, lists in order (looks at values only)."""
    if isinstance(v, sdk.module.Class):
        yield v
    elif isinstance(v, list):
        for x in v:
            yield from _flatten(sdk, x)


def oracle_children(sdk: Sdk, o: Any) -> List[Any]:
    out: List[Any] = []
    for p, _owner in sdk.props(sdk.meta_of[type(o)]):
        out += list(_flatten(sdk, getattr(o, sdk.prop_name(p.name))))
    return out


def oracle_below(sdk: Sdk, o: Any) -> List[Any]:
    out: List[Any] = []
    for c in oracle_children(sdk, o):
        out.append(c)
        out += oracle_below(sdk, c)
    return out


def same_objects(a: Any, b: List[Any]) -> bool:
    return isinstance(a, list) and len(a) == len(b) and all(x is y for x, y in zip(a, b))


def shape_of(sdk: Sdk, got: Any, want: List[Any]) -> str:
    """A short root-cause signature of a wrong traversal."""
    if isinstance(got, str):
        return got
    if len(got) < len(want):
        return "missing"
    if len(got) > len(want):
        return "extra"
    if sorted(map(id, got)) == sorted(map(id, want)):
        return "order"
    return "wrong-instance"


def judge(sdk: Sdk, root: Inst, inp: Dict[str, Any], ctx: Ctx) -> None:
    """The statement of C29 decided on one instance tree of the real module."""
    mod = sdk.module
    recs = make_recorders(sdk)
    for a in W.walk_insts(root):
        o = a.obj
        cls = sdk.meta_of[type(o)]
        # --- descend_once / descend
        want1 = oracle_children(sdk, o)
        got1 = run_list(o.descend_once)
        if not same_objects(got1, want1):
            ctx.fail(inp, f"{cls}.descend_once() yields {_names(sdk, got1)}, directly nested are {_names(sdk, want1)}",
                     f"C29:descend_once:{shape_of(sdk, got1, want1)}")
        want2 = oracle_below(sdk, o)
        got2 = run_list(o.descend)
        if not same_objects(got2, want2):
            ctx.fail(inp, f"{cls}.descend() yields {_names(sdk, got2)}, the pre-order is {_names(sdk, want2)}",
                     f"C29:descend:{shape_of(sdk, got2, want2)}")
        # --- dispatch
        for kind in KINDS:
            rec, log = recs[kind]
            del log[:]
            token = object()
            res = call_dispatch(kind, o, rec, token)
            stem = "visit" if kind.startswith("accept") else "transform"
            want_name = sdk.method_name(f"{stem}_{cls}" + ("_with_context" if kind.endswith("with_context") else ""))
            good = len(log) == 1 and log[0][0] == want_name and log[0][1] is o
            if good and kind.endswith("with_context"):
                good = log[0][2] is token
            if good and kind.startswith("transform"):
                good = res == ("result", want_name)
            if good and kind.startswith("accept"):
                good = res is None
            if not good:
                ctx.fail(inp, f"{cls}.{kind}() called {[x[0] for x in log]} -> {res!r}; expected exactly {want_name}",
                         f"C29:dispatch:{kind}")
        # --- accessors
        for p, _owner in sdk.props(cls):
            v = getattr(o, sdk.prop_name(p.name))
            acc = f"over_{sdk.prop_name(p.name)}_or_empty"
            if isinstance(p.type, mm.OptionalOf) and isinstance(p.type.item, mm.ListOf):
                got = run_list(getattr(o, acc)) if hasattr(o, acc) else "missing-accessor"
                want = [] if v is None else list(v)
                if not same_objects(got, want):
                    ctx.fail(inp, f"{cls}.{acc}() gives {got!r} for the value {v!r}", "C29:over_or_empty:" + ("none" if v is None else "set"))
            elif hasattr(o, acc):
                ctx.fail(inp, f"{cls}.{acc} exists although {p.name} is not an optional list", "C29:over_or_empty:unexpected")
        for c in [cls] + mm.ancestors(sdk.mm, cls):
            for me in sdk.mm.cls(c).methods:
                pname = me.name[: -len("_or_default")]
                v = getattr(o, sdk.prop_name(pname))
                try:
                    got = getattr(o, sdk.method_name(me.name))()
                except BaseException as e:  # noqa: B902
                    if isinstance(e, (KeyboardInterrupt, SystemExit)):
                        raise
                    got = crash_name(e)
                want = sdk.realise(sdk.defaults[f"{c}.{me.name}"]) if v is None else v
                same = got is want if (v is not None or isinstance(want, mod.Class)) else (type(got) is type(want) and got == want)
                if not same:
                    ctx.fail(inp, f"{cls}.{me.name}() gives {got!r} for the value {v!r} (default {want!r})", "C29:or_default:" + ("none" if v is None else "set"))
    # --- the pass-through visitors walk the whole tree in pre-order
    seen: List[Any] = []
    methods = {}
    for c in sdk.mm.classes:
        if not c.abstract:
            n = sdk.method_name(f"visit_{c.name}")
            methods[n] = (lambda n: lambda self, that: (seen.append(that), getattr(mod.PassThroughVisitor, n)(self, that))[1])(n)
    try:
        type("RecPass", (mod.PassThroughVisitor,), methods)().visit(root.obj)
    except BaseException as e:  # noqa: B902
        if isinstance(e, (KeyboardInterrupt, SystemExit)):
            raise
        seen = [crash_name(e)]
    want = [root.obj] + oracle_below(sdk, root.obj)
    if not same_objects(seen, want):
        ctx.fail(inp, f"PassThroughVisitor visits {_names(sdk, seen)}, the pre-order is {_names(sdk, want)}", "C29:pass_through:" + shape_of(sdk, seen, want))
    # --- TransformerWithDefault returns the default for every class
    try:
        r = mod.TransformerWithDefault("dflt").transform(root.obj)
    except BaseException as e:  # noqa: B902
        if isinstance(e, (KeyboardInterrupt, SystemExit)):
            raise
        r = crash_name(e)
    if r != "dflt":
        ctx.fail(inp, f"TransformerWithDefault.transform gives {r!r}", "C29:transformer_with_default")


def _names(sdk: Sdk, xs: Any) -> Any:
    if isinstance(xs, str):
        return xs
    out = []
    for x in xs:
        n = sdk.meta_of.get(type(x), type(x).__name__)
        ident = getattr(x, "ident", None)
        out.append(f"{n}#{ident}" if ident is not None else n)
    return out


# =========================================================================== model requests


def correspond_tree(sdk: Sdk, mmw: str, root: Inst, inp: Dict[str, Any], ctx: Ctx, batch: List[Any]) -> None:
    """Queue the model requests for one instance tree together with what the real module did."""
    insts = W.walk_insts(root)
    used = {a.cls for a in insts}
    for c in list(used):
        used |= set(mm.ancestors(sdk.mm, c))
    full = mmw
    mmw = W.enc_mm(sdk.mm, only=used)  # the traversal only looks up the classes of the instances (and their MRO)
    batch.append(("conforms", f"conforms {full} {W.val_wire(root)}", "1", inp))
    for a in insts:
        o = a.obj
        w = W.val_wire(a)
        cls = a.cls
        got1 = run_list(o.descend_once)
        got2 = run_list(o.descend)
        batch.append(("once", f"once {mmw} {w}", got1 if isinstance(got1, str) else W.vals_wire([sdk.abstract(x) for x in got1]), inp))
        batch.append(("descend", f"descend {mmw} {w}", got2 if isinstance(got2, str) else W.vals_wire([sdk.abstract(x) for x in got2]), inp))
        batch.append(("gen", f"gen {mmw} {w}", got2 if isinstance(got2, str) else W.vals_wire([sdk.abstract(x) for x in got2]), inp))
        ctx.hit("descend:empty" if got2 == [] else ("descend:flat" if got1 == got2 else "descend:deep"))
        recs = make_recorders(sdk)
        mro = enc_list(python_mro(sdk.mm, cls))
        for kind in KINDS:
            rec, log = recs[kind]
            del log[:]
            res = call_dispatch(kind, o, rec, None)
            called = ["+".join(x[0] for x in log)] if len(log) != 1 else [log[0][0]]
            stem = "visit" if kind.startswith("accept") else "transform"
            # map the python method name back to the meta-model identifier the model talks about
            meta = {sdk.method_name(f"{stem}_{c.name}" + ("_with_context" if kind.endswith("with_context") else "")):
                    f"{stem}_{c.name}" + ("_with_context" if kind.endswith("with_context") else "") for c in sdk.mm.classes}
            impl = enc_text(meta.get(called[0], "?" + called[0])) if not isinstance(res, str) or not res.startswith("crash:") else res
            batch.append(("dispatch", f"dispatch {kind} {mmw} {enc_text(cls)} {mro}", impl, inp))
        for (p, _owner), v in zip(sdk.props(cls), a.fields):
            acc = f"over_{sdk.prop_name(p.name)}_or_empty"
            if hasattr(o, acc):
                got = run_list(getattr(o, acc))
                impl = got if isinstance(got, str) else W.vals_wire([sdk.abstract(x) for x in got])
            else:
                impl = "no-accessor"
            batch.append(("over", f"over {W.ty_wire(sdk.mm, p.type)} {W.val_wire(v)}", impl, inp))
            ctx.hit("over:" + ("absent" if impl == "no-accessor" else ("none" if v is None else "set")))
        for c in [cls] + mm.ancestors(sdk.mm, cls):
            for me in sdk.mm.cls(c).methods:
                pname = me.name[: -len("_or_default")]
                idx = [p.name for p, _ in sdk.props(cls)].index(pname)
                d = sdk.defaults[f"{c}.{me.name}"]
                try:
                    got = W.val_wire(sdk.abstract(getattr(o, sdk.method_name(me.name))()))
                except BaseException as e:  # noqa: B902
                    if isinstance(e, (KeyboardInterrupt, SystemExit)):
                        raise
                    got = crash_name(e)
                batch.append(("ordefault", f"ordefault {W.val_wire(d)} {W.val_wire(a.fields[idx])}", got, inp))
                ctx.hit("ordefault:" + ("none" if a.fields[idx] is None else "set"))


def correspond_bodies(sdk: Sdk, inp: Dict[str, Any], ctx: Ctx, batch: List[Any]) -> None:
    for c in sdk.mm.classes:
        if c.abstract:
            continue
        props = sdk.props(c.name)
        for method, flag in (("descend_once", "0"), ("descend", "1")):
            got = observe_body(sdk, c.name, method)
            if isinstance(got, str):
                batch.append(("body", f"block {flag} p,int", got, inp))  # certainly a disagreement
                continue
            by_prop = {b[0]: b[1] for b in got}
            unknown = set(by_prop) - {sdk.prop_name(p.name) for p, _ in props}
            if unknown or len(by_prop) != len(got) or [b[0] for b in got] != [sdk.prop_name(p.name) for p, _ in props if sdk.prop_name(p.name) in by_prop]:
                batch.append(("body", f"block {flag} p,int", "order-or-unknown:" + json.dumps(got), inp))
                continue
            for p, _owner in props:
                impl = by_prop.get(sdk.prop_name(p.name), "[]")
                batch.append(("body", f"block {flag} {W.ty_wire(sdk.mm, p.type)}", impl, {"mm": inp["mm"], "class": c.name, "prop": p.name, "method": method}))


def flush(ctx: Ctx, batch: List[Any]) -> None:
    if not batch or not ctx.driver_ok:
        del batch[:]
        return
    answers = ctx.model([b[1] for b in batch])
    for (stream, line, impl, inp), want in zip(batch, answers):
        ctx.traces_validated += 1
        if impl != want:
            ctx.disagree(stream, {"request": line[:2000], **({"input": inp} if isinstance(inp, dict) else {})}, impl, want)
    del batch[:]


# =========================================================================== generators

LEAF_VALUES = {
    "int": [0, 1, -5, 2**40], "str": ["", "a", "x y", "ä\U0001F600"], "bool": [True, False],
    "float": [0.0, 1.5, -2.25], "bytes": [b"", b"\x00\xff"],
}


class Builder:
    """Random type-conforming abstract instances of a meta-model; every class instance gets a fresh ``ident`` if it has one."""

    def __init__(self, m: mm.MM, rng: random.Random) -> None:
        self.mm = m
        self.rng = rng
        self.counter = 0
        self.made: List[Inst] = []
        self.req = required_depth(m)

    def concrete_of(self, name: str) -> List[str]:
        c = self.mm.cls(name)
        return ([] if c.abstract else [name]) + mm.concrete_descendants(self.mm, name)

    def value(self, t: Any, depth: int, mode: str = "random") -> Any:
        rng = self.rng
        if isinstance(t, mm.OptionalOf):
            if depth <= 0 or rng.random() < 0.3:
                return None
            return self.value(t.item, depth, mode)
        if isinstance(t, mm.ListOf):
            if depth <= 0:
                return []
            n = rng.choice([0, 1, 1, 2, 3])
            return [self.value(t.item, depth - 1, mode) for _ in range(n)]
        if isinstance(t, mm.Prim):
            return rng.choice(LEAF_VALUES[t.name])
        x = self.mm.find(t.name)
        if isinstance(x, mm.Enum):
            return EnumVal(x.name, rng.choice(x.literals).name)
        if isinstance(x, mm.ConstrainedPrimitive):
            return rng.choice(LEAF_VALUES[x.base])
        cands = [c for c in self.concrete_of(t.name) if self.req[c] < 10**6]
        if not cands:
            raise IndexError(f"no instantiable class for {t.name}")
        fitting = [c for c in cands if self.req[c] <= depth]
        if not fitting:
            low = min(self.req[c] for c in cands)
            fitting = [c for c in cands if self.req[c] == low]
        return self.instance(rng.choice(fitting), depth - 1)

    def instance(self, cls: str, depth: int) -> Inst:
        self.counter += 1
        ident = self.counter
        fields = []
        for p, _owner in mm.all_props(self.mm, cls):
            if p.name == "ident" and p.type == P("int"):
                fields.append(ident)
            else:
                fields.append(self.value(p.type, depth))
        i = Inst(cls, fields)
        self.made.append(i)
        return i


def required_depth(m: mm.MM) -> Dict[str, int]:
    """Smallest depth at which every class can be instantiated (required class-typed properties); inf if impossible."""
    INF = 10**6
    d = {c.name: INF for c in m.classes}

    def need(t: Any) -> int:
        if isinstance(t, (mm.OptionalOf, mm.ListOf, mm.Prim)):
            return 0
        x = m.find(t.name)
        if not isinstance(x, mm.Class):
            return 0
        cands = ([] if x.abstract else [x.name]) + mm.concrete_descendants(m, x.name)
        return min([d[c] for c in cands], default=INF)

    changed = True
    while changed:
        changed = False
        for c in m.classes:
            if c.abstract:
                continue
            v = 1 + max([need(p.type) for p, _ in mm.all_props(m, c.name)], default=0)
            if v < d[c.name]:
                d[c.name] = v
                changed = True
    return d


# ---- the seed-independent enumerated part

def shapes_model() -> Tuple[mm.MM, Dict[str, Any]]:
    """One holder class per type shape (+ the classes they refer to)."""
    shapes = {
        "prim": P("int"), "oprim": O(P("str")), "en": R("Color"), "oen": O(R("Color")), "cp": R("Short_text"), "ocp": O(R("Short_text")),
        "c": R("Leaf"), "oc": O(R("Leaf")), "a": R("Shape"), "oa": O(R("Shape")), "k": R("Parcel"), "ok": O(R("Parcel")),
        "lc": L(R("Leaf")), "olc": O(L(R("Leaf"))), "la": L(R("Shape")), "ola": O(L(R("Shape"))), "lk": L(R("Parcel")),
        "lp": L(P("int")), "olp": O(L(P("str"))), "le": L(R("Color")), "ole": O(L(R("Color"))), "lcp": L(R("Short_text")),
        "llc": L(L(R("Leaf"))), "ollc": O(L(L(R("Leaf")))), "lla": L(L(R("Shape"))), "llp": L(L(P("int"))), "lllc": L(L(L(R("Leaf")))),
        "ollp": O(L(L(P("int")))),
    }
    classes = [
        mm.Class("Leaf", props=[mm.Prop("ident", P("int")), mm.Prop("label", O(P("str")))], with_model_type=True, description="Represent a leaf."),
        mm.Class("Shape", abstract=True, props=[mm.Prop("ident", P("int"))], with_model_type=True, description="Represent a shape."),
        mm.Class("Circle", bases=["Shape"], props=[mm.Prop("center", O(R("Leaf")))], description="Represent a circle."),
        mm.Class("Polygon", bases=["Shape"], props=[mm.Prop("corners", L(R("Leaf"))), mm.Prop("inner", O(L(R("Shape"))))], description="Represent a polygon."),
        mm.Class("Parcel", props=[mm.Prop("ident", P("int")), mm.Prop("content", O(R("Leaf")))], with_model_type=True, description="Represent a parcel."),
        mm.Class("Chest", bases=["Parcel"], props=[mm.Prop("lid", R("Leaf"))], description="Represent a chest."),
    ]
    defaults: Dict[str, Any] = {}
    for k, t in shapes.items():
        c = mm.Class(f"Holder_{k}", props=[mm.Prop("ident", P("int")), mm.Prop("first_leaf", O(R("Leaf"))), mm.Prop("held", t), mm.Prop("last_leaf", O(R("Leaf")))],
                     with_model_type=True, description="Represent a holder.")
        classes.append(c)
    # X_or_default accessors on an abstract parent, inherited by two concrete classes
    classes.append(mm.Class("With_defaults", abstract=True, with_model_type=True, description="Represent defaults.", props=[
        mm.Prop("ident", P("int")), mm.Prop("kind", O(R("Color"))), mm.Prop("level", O(P("int"))), mm.Prop("remark", O(P("str"))), mm.Prop("flag", O(P("bool")))],
        methods=[mm.Method("kind_or_default", returns=R("Color")), mm.Method("level_or_default", returns=P("int")),
                 mm.Method("remark_or_default", returns=P("str")), mm.Method("flag_or_default", returns=P("bool"))]))
    defaults.update({"With_defaults.kind_or_default": EnumVal("Color", "Green"), "With_defaults.level_or_default": 7,
                     "With_defaults.remark_or_default": "say \"hi\"", "With_defaults.flag_or_default": False})
    classes.append(mm.Class("Plain_defaults", bases=["With_defaults"], description="Represent plain defaults."))
    classes.append(mm.Class("More_defaults", bases=["With_defaults"], props=[mm.Prop("weight", O(P("float")))],
                            methods=[mm.Method("weight_or_default", returns=P("float"))], description="Represent more defaults."))
    defaults["More_defaults.weight_or_default"] = 2.5
    m = mm.MM(classes=classes, enums=[mm.Enum.of("Color", [("Red", "RED"), ("Green", "green")], description="Represent colors.")],
              constrained_primitives=[mm.ConstrainedPrimitive("Short_text", "str", description="Represent a short text.")])
    return m, defaults


def ordering_model() -> Tuple[mm.MM, Dict[str, Any]]:
    """Inherited properties interleaved with own ones, a diamond, a concrete class with a concrete descendant."""
    leaf = mm.Class("Leaf", props=[mm.Prop("ident", P("int"))], with_model_type=True, description="Represent a leaf.")
    classes = [
        leaf,
        mm.Class("Ground", abstract=True, props=[mm.Prop("ident", P("int")), mm.Prop("first", R("Leaf")), mm.Prop("many", L(R("Leaf")))], with_model_type=True, description="Represent a ground."),
        mm.Class("Left", abstract=True, bases=["Ground"], props=[mm.Prop("left_one", O(R("Leaf"))), mm.Prop("tags", O(L(P("str"))))], description="Represent left."),
        mm.Class("Right", abstract=True, bases=["Ground"], props=[mm.Prop("right_many", O(L(R("Leaf"))))], description="Represent right."),
        mm.Class("Both", bases=["Left", "Right"], props=[mm.Prop("own", R("Leaf")), mm.Prop("again", O(R("Both")))], description="Represent both."),
        mm.Class("Both_more", bases=["Both"], props=[mm.Prop("extra", L(R("Ground")))], description="Represent both and more."),
        mm.Class("Only_left", bases=["Left"], props=[mm.Prop("z_last", O(R("Ground")))], description="Represent only left."),
    ]
    return mm.MM(classes=classes), {}


def enumerated_values(b: Builder, t: Any) -> List[Any]:
    """{None, empty list, one, several} for a shape (where the type admits them); nested lists get empty members."""

    def thunks(tt: Any) -> List[Any]:
        if isinstance(tt, mm.OptionalOf):
            return [lambda: None] + thunks(tt.item)
        if isinstance(tt, mm.ListOf):
            inner = thunks(tt.item)
            several = (inner * 3)[: max(3, len(inner))]
            return [lambda: [], lambda: [inner[-1]()], lambda: [f() for f in several]]
        x = b.mm.find(tt.name) if isinstance(tt, mm.Ref) else None
        if isinstance(x, mm.Class):
            cs = b.concrete_of(x.name)
            return [(lambda c=c: b.instance(c, 0)) for c in cs] + [(lambda c=c: b.instance(c, 2)) for c in cs]
        return [lambda: b.value(tt, 1)]

    return [f() for f in thunks(t)]


def enumerated_trees() -> Iterator[Tuple[mm.MM, Dict[str, Any], List[Inst], str]]:
    rng = random.Random(20290)  # fixed: this part is seed independent
    m, defaults = shapes_model()
    b = Builder(m, rng)
    trees: List[Inst] = []
    for c in m.classes:
        if not c.name.startswith("Holder_"):
            continue
        held = c.props[2].type
        for v in enumerated_values(b, held):
            for before, after in ((None, None), (b.instance("Leaf", 0), b.instance("Leaf", 0))):
                b.counter += 1
                trees.append(Inst(c.name, [b.counter, before, v, after]))
    for cls in ("Plain_defaults", "More_defaults"):
        for mask in range(16):
            b.counter += 1
            vals = [EnumVal("Color", "Red") if mask & 1 else None, 0 if mask & 2 else None, "" if mask & 4 else None, True if mask & 8 else None]
            trees.append(Inst(cls, [b.counter] + vals + ([None if mask & 1 else 0.0] if cls == "More_defaults" else [])))
    yield m, defaults, trees, "enumerated"
    m2, d2 = ordering_model()
    b2 = Builder(m2, rng)
    yield m2, d2, [b2.instance(c, d) for c in ("Both", "Both_more", "Only_left") for d in (1, 2, 3, 4)], "enumerated"


# ---- name shapes (added after the seeded change C29-3)
#
# The generated code must use the PYTHON name of a property / class / literal everywhere, whatever the shape of the
# meta-model identifier.  Every shape ``common.IDENTIFIER_RE`` + the reserved-name rules of the front end accept is
# produced by DECORATING a plain base name, so distinct base names stay distinct (also after any case / underscore
# normalisation) and no reserved word can appear.

NAME_SHAPES = [
    "plain",         # held
    "abbr-last",     # held_ID            (upper-case abbreviation as the last part: referred_semantic_ID)
    "abbr-plural",   # held_IDs           (specific_asset_IDs)
    "abbr-first",    # URL_held           (URL_of_manual)
    "abbr-mid",      # held_URL_of
    "digit-part",    # held_2
    "digit-glued",   # held2
    "letter-part",   # held_x             (single lower-case letter part)
    "letter-first",  # a_held
    "upper-letter",  # held_X             (single upper-case letter part)
    "camel",         # heldThing          (mixed case inside one part)
    "cap-part",      # held_Thing         (capitalised later part)
    "upper",         # HELD               (everything upper case)
    "digit-mixed",   # held_1a_B2
    "double-us",     # held__b            (empty part)
    "trail-us",      # held_
    "lead-us",       # _held              (properties only; types and literals fall back to `cap-first`)
    "cap-first",     # Held               (a capitalised property / a type as it is)
]


def shape_name(base: str, shape: str, kind: str = "prop") -> str:
    """``base`` decorated with the name shape; ``kind``: ``prop`` | ``type`` | ``literal``."""
    if shape == "plain":
        s = base
    elif shape == "abbr-last":
        s = base + "_ID"
    elif shape == "abbr-plural":
        s = base + "_IDs"
    elif shape == "abbr-first":
        s = "URL_" + base
    elif shape == "abbr-mid":
        s = base + "_URL_of"
    elif shape == "digit-part":
        s = base + "_2"
    elif shape == "digit-glued":
        s = base + "2"
    elif shape == "letter-part":
        s = base + "_x"
    elif shape == "letter-first":
        s = ("A_" if kind != "prop" else "a_") + base
    elif shape == "upper-letter":
        s = base + "_X"
    elif shape == "camel":
        s = base + "Thing"
    elif shape == "cap-part":
        s = base + "_Thing"
    elif shape == "upper":
        s = base.upper()
    elif shape == "digit-mixed":
        s = base + "_1a_B2"
    elif shape == "double-us":
        s = base + "__b"
    elif shape == "trail-us":
        s = base + "_"
    elif shape == "lead-us" and kind == "prop":
        s = "_" + base
    elif shape in ("lead-us", "cap-first"):
        s = base[0].upper() + base[1:]
    else:
        raise ValueError(shape)
    if kind == "type" and not s[0].isupper():
        s = s[0].upper() + s[1:]
    return s


def rename_model(m: mm.MM, defaults: Dict[str, Any], trees: Sequence[Inst], type_shape: Any, prop_shape: Any, lit_shape: Any
                 ) -> Tuple[mm.MM, Dict[str, Any], List[Inst]]:
    """A copy of (model, defaults, trees) with every name decorated: ``type_shape(name)``, ``prop_shape(owner, name)``,
    ``lit_shape(enum, name)`` give the shape.  ``ident`` (the harness' identity property) keeps its name."""
    tmap = {x.name: shape_name(x.name, type_shape(x.name), "type") for x in list(m.classes) + list(m.enums) + list(m.constrained_primitives)}
    pmap = {(c.name, p.name): (p.name if p.name == "ident" else shape_name(p.name, prop_shape(c.name, p.name), "prop")) for c in m.classes for p in c.props}
    lmap = {(e.name, li.name): shape_name(li.name, lit_shape(e.name, li.name), "literal") for e in m.enums for li in e.literals}

    def ty(t: Any) -> Any:
        if isinstance(t, mm.Ref):
            return R(tmap[t.name])
        if isinstance(t, mm.ListOf):
            return L(ty(t.item))
        if isinstance(t, mm.OptionalOf):
            return O(ty(t.item))
        return t

    def val(v: Any) -> Any:
        if isinstance(v, Inst):
            return Inst(tmap[v.cls], [val(x) for x in v.fields])
        if isinstance(v, list):
            return [val(x) for x in v]
        if isinstance(v, EnumVal):
            return EnumVal(tmap[v.enum], lmap[(v.enum, v.literal)])
        return v

    def method(cname: str, me_name: str) -> str:
        pname = me_name[: -len("_or_default")]
        owner = next(o for p, o in mm.all_props(m, cname) if p.name == pname)
        return pmap[(owner, pname)] + "_or_default"

    out = mm.MM(order=[tmap.get(n, n) for n in m.order] if m.order is not None else None)
    for c in m.classes:
        out.classes.append(mm.Class(
            tmap[c.name], bases=[tmap[b] for b in c.bases], abstract=c.abstract, with_model_type=c.with_model_type,
            props=[mm.Prop(pmap[(c.name, p.name)], ty(p.type)) for p in c.props],
            methods=[mm.Method(method(c.name, me.name), returns=ty(me.returns), impl_specific=True) for me in c.methods],
            description=_descr(tmap[c.name])))
    out.enums = [mm.Enum.of(tmap[e.name], [(lmap[(e.name, li.name)], li.value) for li in e.literals], description="Represent an enumeration.") for e in m.enums]
    out.constrained_primitives = [
        mm.ConstrainedPrimitive(tmap[cp.name], cp.base, [tmap[b] for b in cp.bases], description="Represent a constrained primitive.")
        for cp in m.constrained_primitives]
    new_defaults = {}
    for k, v in defaults.items():
        cname, me_name = k.split(".", 1)
        new_defaults[f"{tmap[cname]}.{method(cname, me_name)}"] = val(v)
    # shared objects stay shared: one copy per original instance
    memo: Dict[int, Inst] = {}

    def tree(v: Any) -> Any:
        if isinstance(v, Inst):
            if id(v) not in memo:
                memo[id(v)] = Inst(tmap[v.cls], [])
                memo[id(v)].fields = [tree(x) for x in v.fields]
            return memo[id(v)]
        if isinstance(v, list):
            return [tree(x) for x in v]
        return val(v)

    return out, new_defaults, [tree(t) for t in trees]


def rotating(offset: int, shapes: Sequence[str] = tuple(NAME_SHAPES)) -> Any:
    """A shape chooser that hands the shapes out round-robin in the order of the calls, starting at ``offset``
    (per distinct argument: asking twice for the same entity gives the same shape)."""
    seen: Dict[Any, str] = {}

    def pick(*key: Any) -> str:
        if key not in seen:
            seen[key] = shapes[(offset + len(seen)) % len(shapes)]
        return seen[key]

    return pick


def enumerated_named_trees() -> Iterator[Tuple[mm.MM, Dict[str, Any], List[Inst], str]]:
    """The enumerated models once per NAME SHAPE (seed independent): in model ``j`` the held property of EVERY type shape,
    the class names, the enumeration, its literals and the constrained primitive carry shape ``j``; the neighbour
    properties and the accessor properties rotate through the other shapes.  The instance trees are a slice of the
    plain ones (None / empty / several + both neighbours set), enough to make every generated statement run."""
    rng = random.Random(20291)
    m, defaults = shapes_model()
    b = Builder(m, rng)
    trees: List[Inst] = []
    for c in m.classes:
        if not c.name.startswith("Holder_"):
            continue
        vals = enumerated_values(b, c.props[2].type)
        picked = [vals[0], vals[-1]] if len(vals) > 1 else vals
        for v in picked:
            b.counter += 1
            trees.append(Inst(c.name, [b.counter, b.instance("Leaf", 0), v, b.instance("Leaf", 0)]))
    for cls in ("Plain_defaults", "More_defaults"):
        for mask in (0, 5, 10, 15):
            b.counter += 1
            vals = [EnumVal("Color", "Red") if mask & 1 else None, 0 if mask & 2 else None, "" if mask & 4 else None, True if mask & 8 else None]
            trees.append(Inst(cls, [b.counter] + vals + ([None if mask & 1 else 0.0] if cls == "More_defaults" else [])))
    for j, shape in enumerate(NAME_SHAPES):
        if shape == "plain":
            continue
        others = rotating(j + 1)
        yield rename_model(
            m, defaults, trees,
            type_shape=lambda n, s=shape: s,
            prop_shape=lambda owner, n, s=shape, o=others: s if n == "held" else o(owner if not owner.startswith("Holder_") else "Holder", n),
            lit_shape=lambda e, n, s=shape: s,
        ) + ("enumerated:names",)
    # the inheritance-order model: every property another shape (inherited ones are read through the subclass)
    m2, d2 = ordering_model()
    b2 = Builder(m2, rng)
    trees2 = [b2.instance(c, d) for c in ("Both", "Both_more", "Only_left") for d in (2, 4)]
    for offset in (1, 7, 13):
        pick = rotating(offset)
        yield rename_model(m2, d2, trees2, type_shape=rotating(offset + 3), prop_shape=lambda owner, n, p=pick: p(owner, n), lit_shape=rotating(offset)) + ("enumerated:names",)


def random_shapes(rng: random.Random, p_plain: float = 0.4) -> Any:
    """A shape chooser for the seeded streams: plain with probability ``p_plain``, otherwise a random shape (stable per entity)."""
    seen: Dict[Any, str] = {}

    def pick(*key: Any) -> str:
        if key not in seen:
            seen[key] = "plain" if rng.random() < p_plain else rng.choice(NAME_SHAPES)
        return seen[key]

    return pick


def shaped(rng: random.Random, m: mm.MM, defaults: Dict[str, Any], trees: Sequence[Inst]) -> Tuple[mm.MM, Dict[str, Any], List[Inst]]:
    """(model, defaults, trees) with randomly shaped names; the input itself when two members of one class would
    become equal up to case / underscores (a collision is C21's subject, such a model is not accepted)."""
    pick = random_shapes(rng)
    m2, d2, t2 = rename_model(m, defaults, trees, type_shape=lambda n: pick("t", n), prop_shape=lambda o, n: pick("p", o, n), lit_shape=lambda e, n: pick("l", e, n))

    def key(n: str) -> str:
        return n.lower().replace("_", "")

    for c in m2.classes:
        names = [key(p.name) for p, _ in mm.all_props(m2, c.name)] + [key(me.name) for k in [c.name] + mm.ancestors(m2, c.name) for me in m2.cls(k).methods]
        if len(set(names)) != len(names):
            return m, defaults, list(trees)
    tnames = [key(x.name) for x in list(m2.classes) + list(m2.enums) + list(m2.constrained_primitives)]
    if len(set(tnames)) != len(tnames) or any(len({key(li.name) for li in e.literals}) != len(e.literals) for e in m2.enums):
        return m, defaults, list(trees)
    return m2, d2, t2


# ---- the random part

WORDS = ["alpha", "bravo", "cedar", "dune", "ember", "fjord", "grove", "harbor", "iris", "jade", "kelp", "lotus", "maple", "nectar",
         "onyx", "pearl", "quartz", "raven", "sable", "tulip", "umber", "velvet", "willow", "xenon", "yarrow", "zephyr"]


def has_nested_list(m: mm.MM) -> bool:
    def nested(t: Any) -> bool:
        if isinstance(t, mm.OptionalOf):
            return nested(t.item)
        if isinstance(t, mm.ListOf):
            return isinstance(t.item, mm.ListOf) or nested(t.item)
        return False

    return any(nested(p.type) for c in m.classes for p in c.props)


def random_model(rng: random.Random) -> Tuple[mm.MM, Dict[str, Any]]:
    """A focused random meta-model: class DAG, every root carries ``ident``, properties over the whole type grammar."""
    shapes = ["", "o", "l", "ol", "l", "ol", "ll", "oll", "lll"] if rng.random() < 0.6 else ["", "o", "l", "ol"]
    names = rng.sample(WORDS, 10)
    n = rng.randint(2, 6)
    cls_names = [w.capitalize() + ("_" + rng.choice(WORDS) if rng.random() < 0.3 else "") for w in names[:n]]
    enums = [mm.Enum.of("Hue", [("Dark", "dark"), ("Light", "LIGHT"), ("Mid_tone", "mid tone")], description="Represent hues.")]
    cps = [mm.ConstrainedPrimitive("Code", "str", description="Represent a code."), mm.ConstrainedPrimitive("Count", "int", description="Represent a count.")]
    classes: List[mm.Class] = []
    defaults: Dict[str, Any] = {}
    used_props: Dict[str, set] = {}
    for i, name in enumerate(cls_names):
        bases: List[str] = []
        if i > 0 and rng.random() < 0.6:
            k = 1 if rng.random() < 0.75 else 2
            bases = sorted(rng.sample(cls_names[:i], min(k, i)), key=cls_names.index)
            # python needs a consistent MRO: drop a base that is an ancestor of another base
            tmp = mm.MM(classes=classes)
            bases = [x for x in bases if not any(x in mm.ancestors(tmp, y) for y in bases if y != x)]
            # the same property name from two unrelated parents crashes the front end (ViolationError; C01's subject)
            if len(bases) == 2:
                owners: Dict[str, str] = {}
                for bname in bases:
                    for p, owner in mm.all_props(tmp, bname):
                        if owners.setdefault(p.name, owner) != owner:
                            bases = bases[:1]
                            break
                    if len(bases) == 1:
                        break
        c = mm.Class(name, bases=bases, abstract=False, description=f"Represent {name}.")
        if not bases:
            c.with_model_type = True
            c.props.append(mm.Prop("ident", P("int")))
        classes.append(c)
    m = mm.MM(classes=classes, enums=enums, constrained_primitives=cps)
    # abstract: only classes that will have a concrete descendant
    for c in classes:
        if mm.descendants(m, c.name) and rng.random() < 0.5:
            c.abstract = True
    for c in classes:
        if c.abstract and not mm.concrete_descendants(m, c.name):
            c.abstract = False
    depth_ok = [c.name for c in classes]
    for i, c in enumerate(classes):
        inherited = {p.name for p, _ in mm.all_props(m, c.name)}
        taken = set(inherited)
        for d in mm.descendants(m, c.name):
            taken |= used_props.get(d, set())
        for _ in range(rng.randint(0, 4)):
            pname = rng.choice(WORDS) + rng.choice(["", "_" + rng.choice(WORDS), "_x"])
            if pname in taken or any(pname in used_props.get(a, set()) for a in cls_names):
                continue
            r = rng.random()
            if r < 0.55:
                # required references only to EARLIER classes that can be instantiated (no required cycles)
                base_t: Any = R(rng.choice(depth_ok))
            elif r < 0.7:
                base_t = R(rng.choice(["Hue", "Code", "Count"]))
            else:
                base_t = P(rng.choice(["int", "str", "bool", "float", "bytes"]))
            shape = rng.choice(shapes)
            if shape in ("", "l", "ll", "lll") and isinstance(base_t, mm.Ref) and isinstance(m.find(base_t.name), mm.Class):
                if shape == "" and cls_names.index(base_t.name) >= i:
                    shape = "o"
            t = base_t
            for ch in reversed(shape):
                t = L(t) if ch == "l" else O(t)
            c.props.append(mm.Prop(pname, t))
            taken.add(pname)
            used_props.setdefault(c.name, set()).add(pname)
            if isinstance(t, mm.OptionalOf) and not isinstance(t.item, (mm.ListOf,)) and not (isinstance(t.item, mm.Ref) and isinstance(m.find(t.item.name), mm.Class)) and rng.random() < 0.5:
                inner = t.item
                kind = inner.name if isinstance(inner, mm.Prim) else ("enum" if inner.name == "Hue" else {"Code": "str", "Count": "int"}[inner.name])
                if kind != "bytes":
                    c.methods.append(mm.Method(f"{pname}_or_default", returns=inner))
                    defaults[f"{c.name}.{pname}_or_default"] = (
                        EnumVal("Hue", rng.choice(["Dark", "Light", "Mid_tone"])) if kind == "enum" else rng.choice(LEAF_VALUES[kind]))
    # no class may need itself: make required class-typed properties optional until every concrete class is instantiable
    for _ in range(20):
        req = required_depth(m)
        bad = [c for c in classes if not c.abstract and req[c.name] >= 10**6]
        if not bad:
            break
        for c in bad:
            for p, _owner in mm.all_props(m, c.name):
                if isinstance(p.type, mm.Ref) and isinstance(m.find(p.type.name), mm.Class):
                    p.type = O(p.type)
    return m, defaults


def platform_model(rng: random.Random) -> Tuple[mm.MM, Dict[str, Any]]:
    """A model of the shared platform generator, projected to what the types module is made of."""
    ft = mm.Features()
    ft.pattern_functions = ft.transpilable_functions = ft.schema_invariants = ft.general_invariants = ft.quantifiers = False
    ft.constants = ft.constant_sets = ft.descriptions = False
    ft.lists_of_non_classes = True
    ft.nested_lists = True
    return project(mm.random_mm(rng, rng.randint(3, 7), ft)), {}


# =========================================================================== run


def run_model(ctx: Ctx, m: mm.MM, defaults: Dict[str, Any], trees: Sequence[Inst], stream: str, with_model: bool, check_main: bool = False,
              sdk: Optional[Sdk] = None, twin_ok: bool = False) -> bool:
    """``twin_ok``: the same model with plain names was usable in this run (the enumerated name-shape models).  Returns
    whether the generated module could be used."""
    if sdk is None:
        sdk = Sdk(m, defaults).build()
    mj = mm_to_json(m, defaults) if sdk.spec is None else {"fixture": stream}
    if not sdk.ok:
        # a rejected / crashing model is not in the quantifier of C29 (crashes of the generators are C02's)
        ctx.hit("model:" + ("crash:" + sdk.crash if sdk.crash else "rejected"))
        ctx.note(f"{stream}: model not usable ({sdk.crash or (sdk.error or '')[:200]})")
        if sdk.crash:
            ctx.sample({"stream": stream, "crash": sdk.crash, "mm": mj})
        if twin_ok and sdk.crash and sdk.crash.startswith("import:"):
            # … except that the generated module of an ACCEPTED model (front end + verify_for_types passed, the code was
            # generated) cannot even be executed although the same model with plain names works: no instance can be
            # built, so nothing is ever yielded / dispatched
            ctx.fail({"mm": mj}, f"the generated types module of an accepted meta-model cannot be executed ({sdk.crash}); with plain names it can",
                     "C29:module-unusable:" + sdk.crash)
        return False
    ctx.hit("model:accepted")
    # the property order the front end hands to the generator must be the one of the abstract model
    for c in m.classes:
        real = [str(p.name) for p in sdk.symbol_table.must_find_class(_ident(c.name)).properties]
        if real != [p.name for p, _ in mm.all_props(m, c.name)]:
            ctx.note(f"{stream}: property order of {c.name} differs between the front end {real} and the abstract model; model skipped")
            ctx.hit("model:order-mismatch")
            return False
    if check_main and (has_nested_list(m) or any(c.methods for c in m.classes)):
        ctx.hit("main:skipped (nested lists crash the jsonization generator / snippets)")
    elif check_main:
        full = mm.load_python_sdk(sdk.source)
        try:
            if full.ok:
                text = (full.package_dir / "types.py").read_text(encoding="utf-8")  # type: ignore[operator]
                a = text.replace(full.module_name, "aasv_c29")
                if a != sdk.code:
                    ctx.disagree("main", {"mm": mj}, "types.py written by main.execute differs from generate_types", "same text")
                ctx.hit("main:compared")
            else:
                ctx.hit("main:not-comparable:" + (full.error or "")[:60].replace("\n", " "))
        finally:
            full.close()
    batch: List[Any] = []
    mmw = W.enc_mm(m)
    if with_model:
        correspond_bodies(sdk, {"mm": mj}, ctx, batch)
    for k, root in enumerate(trees):
        inp = {"mm": mj, "instance": W.jsonable(root)}
        try:
            sdk.realise(root)
        except BaseException as e:  # noqa: B902
            if isinstance(e, (KeyboardInterrupt, SystemExit)):
                raise
            ctx.fail(inp, f"the generated constructor raised {crash_name(e)}: {e}", "C29:constructor:" + crash_name(e))
            continue
        n_inst = len(W.walk_insts(root))
        ctx.count(("tree", W.val_wire(root), mmw), nontrivial=n_inst > 1, stream=stream)
        ctx.hit("tree:single" if n_inst == 1 else ("tree:small" if n_inst <= 5 else "tree:large"))
        if k % 97 == 0:
            ctx.sample({"stream": stream, "class": root.cls, "instances": n_inst, "descend": _names(sdk, run_list(root.obj.descend))})
        judge(sdk, root, inp, ctx)
        if with_model:
            correspond_tree(sdk, mmw, root, inp, ctx, batch)
            if len(batch) > 4000:
                flush(ctx, batch)
    flush(ctx, batch)
    return True


def _ident(s: str) -> Any:
    from aas_core_codegen.common import Identifier

    return Identifier(s)


def shared_variants(b: Builder, root: Inst, rng: random.Random) -> Optional[Inst]:
    """The same OBJECT at two places of the tree (a DAG): both places are yielded."""
    insts = W.walk_insts(root)[1:]
    if len(insts) < 2:
        return None
    a = rng.choice(insts)
    # find another slot of the same declared position type: replace a sibling list member by ``a``
    for holder in W.walk_insts(root):
        for idx, f in enumerate(holder.fields):
            if isinstance(f, list) and len(f) >= 2 and all(isinstance(x, Inst) for x in f) and a in f:
                j = rng.randrange(len(f))
                if f[j] is not a and f[j].cls == a.cls and a not in W.walk_insts(f[j]):
                    f[j] = a
                    return root
    return None


def _run(ctx: Ctx, with_model: bool) -> None:
    # corpus
    for c in corpus(ID):
        m, defaults = mm_from_json(c["mm"])
        run_model(ctx, m, defaults, [W.from_jsonable(c["instance"])] if "instance" in c else [], "corpus", with_model)
    # enumerated, seed independent
    plain_ok = True
    for m, defaults, trees, stream in enumerated_trees():
        plain_ok = run_model(ctx, m, defaults, trees, stream, with_model, check_main=False) and plain_ok
    # enumerated, seed independent: the same models with every name shape the front end accepts
    for k, (m, defaults, trees, stream) in enumerate(enumerated_named_trees()):
        run_model(ctx, m, defaults, trees, stream, with_model, check_main=(k % 6 == 0), twin_ok=plain_ok)
    # random: focused models
    for k in range(ctx.n(24, 300)):
        m, defaults = random_model(ctx.rng)
        b = Builder(m, ctx.rng)
        concrete = [c.name for c in m.classes if not c.abstract]
        trees = []
        for _ in range(ctx.n(14, 30) // (4 if ctx.searching else 1)):
            t = b.instance(ctx.rng.choice(concrete), ctx.rng.choice([1, 2, 3, 3, 4]))
            if len(W.walk_insts(t)) <= 60:
                trees.append(t)
        for t in list(trees[:6]):
            s = shared_variants(b, copy.deepcopy(t), ctx.rng)
            if s is not None:
                ctx.hit("tree:shared-object")
                trees.append(s)
        if ctx.rng.random() < 0.6:
            m, defaults, trees = shaped(ctx.rng, m, defaults, trees)
            ctx.hit("names:shaped")
        run_model(ctx, m, defaults, trees, "random", with_model, check_main=(k % 6 == 0))
    # random: models of the shared platform generator
    for k in range(ctx.n(10, 150)):
        m, defaults = platform_model(ctx.rng)
        if not m.classes:
            continue
        depth = required_depth(m)
        b = Builder(m, ctx.rng)
        concrete = [c.name for c in m.classes if not c.abstract and depth[c.name] < 6]
        trees = []
        for _ in range(ctx.n(10, 20) // (4 if ctx.searching else 1)):
            if not concrete:
                break
            cname = ctx.rng.choice(concrete)
            try:
                t = b.instance(cname, depth[cname] + ctx.rng.choice([0, 1, 2]))
            except (IndexError, RecursionError):
                continue
            if len(W.walk_insts(t)) <= 60:
                trees.append(t)
        if ctx.rng.random() < 0.5:
            m, defaults, trees = shaped(ctx.rng, m, defaults, trees)
            ctx.hit("names:shaped")
        run_model(ctx, m, defaults, trees, "platform", with_model, check_main=(k % 5 == 0))
    if ctx.tier == "thorough":
        run_fixture(ctx, with_model)


def mm_from_symbol_table(st: Any) -> mm.MM:
    """The abstraction of a loaded meta-model (classes with their OWN properties, enumerations, constrained primitives)."""
    from aas_core_codegen import intermediate as I

    def ty(a: Any) -> Any:
        if isinstance(a, I.PrimitiveTypeAnnotation):
            return P({"bytearray": "bytes"}.get(a.a_type.value, a.a_type.value))
        if isinstance(a, I.OurTypeAnnotation):
            return R(str(a.our_type.name))
        if isinstance(a, I.ListTypeAnnotation):
            return L(ty(a.items))
        if isinstance(a, I.OptionalTypeAnnotation):
            return O(ty(a.value))
        raise TypeError(repr(a))

    out = mm.MM()
    for t in st.our_types:
        if isinstance(t, I.Enumeration):
            out.enums.append(mm.Enum.of(str(t.name), [(str(li.name), li.value) for li in t.literals]))
        elif isinstance(t, I.ConstrainedPrimitive):
            out.constrained_primitives.append(mm.ConstrainedPrimitive(str(t.name), {"bytearray": "bytes"}.get(t.constrainee.value, t.constrainee.value)))
        else:
            out.classes.append(mm.Class(
                str(t.name), bases=[str(i.name) for i in t.inheritances], abstract=isinstance(t, I.AbstractClass),
                props=[mm.Prop(str(p.name), ty(p.type_annotation)) for p in t.properties if p.specified_for is t]))
    return out


def fixture_sdk(ctx: Ctx, name: str) -> Optional[Sdk]:
    from aas_core_codegen import specific_implementations as SI

    base = mm.REPO / "dev" / "test_data" / "main" / "python" / "expected" / name / "input"
    src = (mm.REPO / "dev" / "test_data" / "common_meta_models" / f"{name}.py")
    if not src.exists() or not (base / "snippets").exists():
        ctx.note(f"fixture {name} not found; stream skipped")
        return None
    spec, errors = SI.read_from_directory(snippets_dir=base / "snippets")
    if errors:
        ctx.note(f"fixture {name}: snippets unreadable; stream skipped")
        return None
    text = src.read_text(encoding="utf-8")
    ld = mm.load(text)
    if not ld.ok:
        ctx.note(f"fixture {name}: not accepted by the front end; stream skipped")
        return None
    m = mm_from_symbol_table(ld.symbol_table)
    return Sdk(m, {}, source=text, spec={str(k): str(v) for k, v in spec.items()}).build()  # type: ignore[union-attr]


def run_fixture(ctx: Ctx, with_model: bool, name: str = "aas_core_meta.v3") -> None:
    """The real meta-model of the test data with its real snippets (thorough tier): random conforming trees."""
    sdk = fixture_sdk(ctx, name)
    if sdk is None:
        return
    m = sdk.mm
    depth = required_depth(m)
    b = Builder(m, ctx.rng)
    concrete = [c.name for c in m.classes if not c.abstract and depth[c.name] < 6]
    trees = []
    for _ in range(ctx.n(0, 150)):
        cname = ctx.rng.choice(concrete)
        try:
            t = b.instance(cname, depth[cname] + ctx.rng.choice([0, 1, 2]))
        except (IndexError, RecursionError):
            continue
        if len(W.walk_insts(t)) <= 80:
            trees.append(t)
    run_model(ctx, m, {}, trees, "fixture:" + name, with_model, sdk=sdk)


def correspond(ctx: Ctx) -> None:
    ctx.extra_cov["rule"] = (
        "inputs = (meta-model, instance tree); enumerated: one holder class per type shape (prim/enum/constrained/class/abstract/"
        "concrete-with-descendant x plain/optional/list/optional list/nested lists) x {None, [], one, several, nested with empty members} "
        "x neighbours present/absent + X_or_default masks + an inheritance-order model; the same models once per name shape (17 "
        "shapes of class / property / enumeration / literal / constrained-primitive names: abbreviations, digits, single letters, "
        "mixed case, empty parts, leading / trailing underscore); random: focused class DAGs and models of the "
        "shared platform generator with random conforming trees (incl. shared objects); non-trivial = more than one instance; "
        "distinct by (model, tree) wire form; every instance of every tree is exercised"
    )
    ctx.assumptions.append("C29: python naming (class/property/method names) is taken from aas_core_codegen.python.naming (subject of C21)")
    _run(ctx, True)


def oracle(ctx: Ctx) -> None:
    # the oracle is evaluated on every correspondence input in run_model; alone when the driver is broken / searching
    if not ctx.driver_ok or ctx.searching:
        _run(ctx, False)


def replay(ctx: Ctx, data: Dict[str, Any]) -> Any:
    inp = data["failure"]["input"] if "failure" in data else data
    if "mm" not in inp and data.get("disagreements"):
        inp = data["disagreements"][0]["input"]  # a broken correspondence without a failing input: replay the first disagreement
    if "input" in inp and "mm" not in inp:
        inp = inp["input"]
    if "mm" not in inp:
        return {"error": "nothing to replay: the file names a broken theorem / extraction only", "no_longer_checks": data.get("no_longer_checks")}
    sub = Ctx(ctx.prop, ctx.tier, ctx.seed)
    sub.driver_ok = ctx.driver_ok
    trees = [W.from_jsonable(inp["instance"])] if "instance" in inp else []
    if "fixture" in inp["mm"]:
        fsdk = fixture_sdk(sub, inp["mm"]["fixture"].split(":", 1)[1])
        if fsdk is None:
            return {"error": sub.notes}
        run_model(sub, fsdk.mm, {}, trees, inp["mm"]["fixture"], ctx.driver_ok, sdk=fsdk)
        return {"oracle": [[f["sig"], f["what"]] for f in sub.failures], "model_vs_impl": sub.disagreements[:5], "notes": sub.notes}
    m, defaults = mm_from_json(inp["mm"])
    run_model(sub, m, defaults, trees, "replay", ctx.driver_ok)
    res: Dict[str, Any] = {"oracle": [[f["sig"], f["what"]] for f in sub.failures], "model_vs_impl": sub.disagreements[:5], "notes": sub.notes}
    if trees:
        sdk = Sdk(m, defaults).build()
        if sdk.ok:
            sdk.realise(trees[0])
            res["impl"] = {"descend_once": _names(sdk, run_list(trees[0].obj.descend_once)), "descend": _names(sdk, run_list(trees[0].obj.descend))}
    return res


# =========================================================================== Gen: skeleton of the generator


def gen_SdkDescend(repo: Any) -> str:
    """
    ``Gen/SdkDescend.lean``: the statement templates each ``_DescendBodyUnroller._unroll_*`` method can emit
    (the f-strings passed to ``python_unrolling.Node``), the name templates of the four dispatch methods of
    ``_generate_class`` and the guard of the ``over_X_or_empty`` accessor, read with ``ast``.
    """
    path = repo / "aas_core_codegen" / "python" / "lib" / "_generate_types.py"
    try:
        tree = ast.parse(path.read_text(encoding="utf-8"))
    except (OSError, SyntaxError) as e:
        raise ExtractError(f"cannot read {path}: {e}")

    def fstr(node: ast.expr) -> str:
        if isinstance(node, ast.Constant) and isinstance(node.value, str):
            return node.value
        if isinstance(node, ast.JoinedStr):
            out = ""
            for v in node.values:
                if isinstance(v, ast.Constant):
                    out += str(v.value)
                elif isinstance(v, ast.FormattedValue):
                    out += "{" + ast.unparse(v.value) + "}"
            return out
        raise ExtractError(f"not a string template: {ast.dump(node)[:80]}")

    unroller = next((n for n in tree.body if isinstance(n, ast.ClassDef) and n.name == "_DescendBodyUnroller"), None)
    if unroller is None:
        raise ExtractError("_DescendBodyUnroller not found")
    emitted: List[Tuple[str, List[str]]] = []
    for f in unroller.body:
        if isinstance(f, ast.FunctionDef) and f.name.startswith("_unroll_"):
            texts = []
            for n in ast.walk(f):
                if isinstance(n, ast.Call) and ast.unparse(n.func).endswith("Node"):
                    arg = n.args[0] if n.args else next((k.value for k in n.keywords if k.arg == "text"), None)
                    if arg is None:
                        raise ExtractError("Node(...) without text")
                    texts.append((n.lineno, n.col_offset, fstr(arg)))
            emitted.append((f.name, [t for _, _, t in sorted(texts)]))
    if [n for n, _ in emitted] != ["_unroll_primitive_type_annotation", "_unroll_our_type_annotation", "_unroll_list_type_annotation", "_unroll_optional_type_annotation"]:
        raise ExtractError(f"unexpected unroller methods: {[n for n, _ in emitted]}")
    gen_class = next((n for n in tree.body if isinstance(n, ast.FunctionDef) and n.name == "_generate_class"), None)
    if gen_class is None:
        raise ExtractError("_generate_class not found")
    # The dispatch methods are written in _generate_class itself or in module-level helpers it calls: a helper which
    # (transitively) writes one of the four `def accept…/transform…` blocks is read as if its body stood at the call.
    from harness import extract as _extract

    dispatch_heads = ("def accept", "def accept_with_context", "def transform", "def transform_with_context")

    def head_of(n: ast.AST) -> Optional[str]:
        if isinstance(n, ast.JoinedStr):
            try:
                first = fstr(n).lstrip().split("(")[0]
            except ExtractError:
                return None
            return first if first in dispatch_heads else None
        return None

    def writes_dispatch(g: ast.FunctionDef) -> bool:
        return any(head_of(n) is not None for scope in _extract._reachable_functions(tree, g) for n in ast.walk(scope))

    gen_class_nodes = _extract.nodes_in_execution_order(tree, gen_class, writes_dispatch)
    # name templates: Identifier(f"visit_{cls.name}") etc. in source order
    idents = []
    for i, n in enumerate(gen_class_nodes):
        if isinstance(n, ast.Call) and ast.unparse(n.func) == "Identifier" and n.args and isinstance(n.args[0], ast.JoinedStr):
            idents.append((i, 0, fstr(n.args[0])))
    idents_s = [t for _, _, t in sorted(idents)]
    # the method definitions and the call they make, from the Stripped(f"""...""") blocks
    blocks = []
    for i, n in enumerate(gen_class_nodes):
        if isinstance(n, ast.JoinedStr):
            text = fstr(n)
            first = text.lstrip().split("(")[0]
            if first in dispatch_heads:
                last = [ln.replace("{II}", "").replace("{I}", "").strip() for ln in text.strip().split("\n")]
                last = [ln for ln in last if ln]
                call = last[-2] + last[-1] if last[-1].startswith("self, context)") else last[-1]
                blocks.append((i, first[4:], call))
    blocks_s = [(a, b) for _, a, b in sorted(blocks)]
    if [a for a, _ in blocks_s] != list(KINDS):
        raise ExtractError(f"dispatch methods not found in order: {blocks_s}")
    # guard of over_X_or_empty: isinstance(prop.type_annotation, Optional) and isinstance(prop.type_annotation.value, List)
    guard = None
    for n in ast.walk(gen_class):
        if isinstance(n, ast.If) and isinstance(n.test, ast.BoolOp) and isinstance(n.test.op, ast.And):
            txt = ast.unparse(n.test)
            if "OptionalTypeAnnotation" in txt and "ListTypeAnnotation" in txt:
                guard = txt
    if guard is None:
        raise ExtractError("guard of over_X_or_empty not found")
    concrete_guard = any(isinstance(n, ast.If) and ast.unparse(n.test) == "isinstance(cls, intermediate.ConcreteClass)" for n in ast.walk(gen_class))

    def s(x: str) -> str:
        return json.dumps(x, ensure_ascii=True)

    lines = [
        "/-! GENERATED by harness/props/c29.py:gen_SdkDescend from aas_core_codegen/python/lib/_generate_types.py — do not edit. -/",
        "namespace AasVerif.Gen.SdkDescend",
        "",
        "/-- statement templates each `_DescendBodyUnroller._unroll_*` method can emit, in source order -/",
        "def emitted : List (String × List String) := [",
        ",\n".join(f"  ({s(n)}, [{', '.join(s(t) for t in ts)}])" for n, ts in emitted),
        "]",
        "",
        "/-- `Identifier(f\"…\")` templates of `_generate_class`, in source order -/",
        f"def identifiers : List String := [{', '.join(s(t) for t in idents_s)}]",
        "",
        "/-- (generated method, the call it makes) -/",
        "def dispatchers : List (String × String) := [",
        ",\n".join(f"  ({s(a)}, {s(b)})" for a, b in blocks_s),
        "]",
        "",
        "/-- the dispatch methods are written under `if isinstance(cls, intermediate.ConcreteClass)` -/",
        f"def dispatchersOnlyForConcrete : Bool := {'true' if concrete_guard else 'false'}",
        "",
        "/-- guard of the `over_X_or_empty` accessor -/",
        f"def overOrEmptyGuard : String := {s(guard)}",
        "",
        "end AasVerif.Gen.SdkDescend",
        "",
    ]
    return "\n".join(lines)
