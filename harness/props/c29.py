"""
C29 — Python SDK traversal and accessors are complete.

What runs is the GENERATED ``types`` module: ``aas_core_codegen.python.lib.generate_types`` is called on
the symbol table the real front end builds from the rendered abstract meta-model (the call
``python/main.py`` makes; a sample of the models also goes through ``main.execute`` and the written
``types.py`` must be the same text), the code is executed as a module, instances are built through the
generated constructors and exercised in-process.

Streams
-------
* ``body``      the statement tree of every generated ``descend_once`` / ``descend`` method (read back from
                the generated code with ``ast``) against ``SdkDescend.propBlock`` per property;
* ``once`` / ``descend``  the yields of ``x.descend_once()`` / ``x.descend()`` for every instance ``x`` of
                an instance tree against ``SdkDescend.descendOnce`` / ``descend`` (values compared in the wire
                form; every class of the focused generator carries a unique ``ident`` so equal wire form
                means the same position of the containment tree);
* ``dispatch``  which visitor / transformer method ``accept[_with_context]`` / ``transform[_with_context]``
                calls (recording subclasses) against ``SdkDescend.dispatch`` with the MRO of the class;
* ``over`` / ``ordefault``  the accessors against ``SdkDescend.overOrEmpty`` / ``orDefault`` and the
                existence of ``over_X_or_empty`` against ``hasOverOrEmpty``.

* ``ctor`` / ``construct`` / ``visitors``  the statements of every generated ``__init__`` against ``SdkCtor.renderBody``, the
                attribute after the constructor against ``SdkCtor.execStmt``, the methods each of the eight generated visitor /
                transformer classes declares against ``SdkCtor.declaredMethods``;
* ``history``   (not a model stream) the text generated for a model AFTER other models in the same process against the text
                generated for it alone in a fresh process (``harness/c29_fresh.py``); the history-generated module then goes
                through all the streams above.

Input classes added after the second round of seeded changes: HISTORIES (``history_model`` family: the same names / annotation
texts re-used as constrained primitive / enumeration / leaf class / nested class / hand-written class / abstract class, in
both orders; random models with colliding names), IMPLEMENTATION-SPECIFIC classes (complete hand-written snippet) at every
position (``enumerated_impl_trees``), CONSTRUCTORS WITH DECLARED DEFAULTS of every kind the front end accepts in every order,
built with and without the defaulted arguments (``ctor_model``, ``Inst.omit`` / ``Inst.nones``).

Names: the seed-independent part runs every enumerated model once per NAME SHAPE (``NAME_SHAPES``: upper-case
abbreviations, digits, single-letter parts, mixed case, empty parts, leading / trailing underscore — every shape
``IDENTIFIER_RE`` and the reserved-name rules accept) for classes, properties, enumerations, literals and constrained
primitives (``enumerated_named_trees``); the seeded streams decorate the names of 50–60 % of their models (``shaped``).

Oracle (independent of the Lean model, from the property text): a reflection-based traversal of the SDK
object over ``mm.all_props`` that looks only at the VALUES (an instance is yielded, a list is
flattened in order), compared by object identity; recording visitors/transformers; accessor results by
identity / declared default.
"""
from __future__ import annotations

import ast
import copy
import json
import random
import time
import types as pytypes
from typing import Any, Dict, Iterator, List, Optional, Sequence, Tuple

from harness import mm
from harness import sdk_wire as W
from harness.core import Ctx, corpus, crash_name, dec_text, enc_list, enc_text
from harness.extract import ExtractError
from harness.sdk_wire import EnumVal, Inst

ID = "C29"
GEN = ["SdkDescend"]

P, R, L, O = mm.Prim, mm.Ref, mm.ListOf, mm.OptionalOf

KINDS = ("accept", "accept_with_context", "transform", "transform_with_context")

# =========================================================================== abstract model <-> JSON


def _descr(name: str) -> str:
    """The description of a class: the name only where it cannot be read as reStructuredText markup (``Leaf_`` is a
    hyperlink reference for docutils, the front end then fails to parse the description)."""
    return f"Represent {name}." if name.replace("_", "").isalnum() and "__" not in name and not name.endswith("_") and not name.startswith("_") else "Represent a class."


def ty_to_json(t: Any) -> Any:
    if isinstance(t, mm.Prim):
        return t.name
    if isinstance(t, mm.Ref):
        return {"r": t.name}
    if isinstance(t, mm.ListOf):
        return {"l": ty_to_json(t.item)}
    if isinstance(t, mm.OptionalOf):
        return {"o": ty_to_json(t.item)}
    raise TypeError(repr(t))


def ty_from_json(d: Any) -> Any:
    if isinstance(d, str):
        return P(d)
    if "r" in d:
        return R(d["r"])
    if "l" in d:
        return L(ty_from_json(d["l"]))
    return O(ty_from_json(d["o"]))


def mm_to_json(m: mm.MM, defaults: Dict[str, Any]) -> Dict[str, Any]:
    """The subset of the abstract meta-model this property uses (see ``project``)."""
    return {
        "classes": [
            {
                "name": c.name, "bases": list(c.bases), "abstract": c.abstract, "wmt": c.with_model_type,
                "props": [[p.name, ty_to_json(p.type)] for p in c.props],
                "methods": [[me.name, ty_to_json(me.returns)] for me in c.methods],
                **({"impl": True} if c.impl_specific else {}),
                **({"ctor": copy.deepcopy(cspec_of(c))} if cspec_of(c) else {}),
            }
            for c in m.classes
        ],
        "enums": [{"name": e.name, "literals": [[li.name, enc_text(li.value)] for li in e.literals]} for e in m.enums],
        "cps": [{"name": cp.name, "base": cp.base, "bases": list(cp.bases)} for cp in m.constrained_primitives],
        "order": m.order,
        "defaults": {k: W.jsonable(v) for k, v in defaults.items()},
    }


def mm_from_json(d: Dict[str, Any]) -> Tuple[mm.MM, Dict[str, Any]]:
    m = mm.MM(
        classes=[
            with_cspec(mm.Class(
                c["name"], bases=list(c["bases"]), abstract=c["abstract"], with_model_type=c["wmt"],
                props=[mm.Prop(n, ty_from_json(t)) for n, t in c["props"]],
                methods=[mm.Method(n, returns=ty_from_json(t), impl_specific=True) for n, t in c.get("methods", [])],
                description=_descr(c["name"]), impl_specific=bool(c.get("impl", False)),
            ), c.get("ctor"))
            for c in d["classes"]
        ],
        enums=[mm.Enum.of(e["name"], [(n, dec_text(v)) for n, v in e["literals"]], description="Represent an enumeration.") for e in d["enums"]],
        constrained_primitives=[mm.ConstrainedPrimitive(cp["name"], cp["base"], list(cp["bases"]), description="Represent a constrained primitive.") for cp in d["cps"]],
        order=d.get("order"),
    )
    return m, {k: W.from_jsonable(v) for k, v in d.get("defaults", {}).items()}


def project(m: mm.MM) -> mm.MM:
    """Keep what matters for the ``types`` module: classes with properties, enumerations, constrained primitives."""
    out = mm.MM(order=copy.deepcopy(m.order))
    for c in m.classes:
        out.classes.append(
            mm.Class(c.name, bases=list(c.bases), abstract=c.abstract, with_model_type=c.with_model_type,
                     props=[mm.Prop(p.name, p.type) for p in c.props], description=_descr(c.name))
        )
    out.enums = [mm.Enum.of(e.name, [(li.name, li.value) for li in e.literals], description="Represent an enumeration.") for e in m.enums]
    out.constrained_primitives = [
        mm.ConstrainedPrimitive(cp.name, cp.base, list(cp.bases), description="Represent a constrained primitive.") for cp in m.constrained_primitives
    ]
    return out


# =========================================================================== constructors with defaults, hand-written classes
#
# (added after the seeded changes C29-5 / C29-6)
#
# ``Class.cspec`` (a plain JSON-able dict, absent = the canonical constructor) describes the constructor of a class the way the
# front end understands it (``intermediate/construction.py`` + the argument defaults of ``intermediate/_translate.py``):
#
#   "order":    own property names in the order of the assignment statements (default: declaration order)
#   "super_at": number of assignment statements written BEFORE the calls of the super constructors (default 0)
#   "stmt":     {own property: {"d": ["list"] | ["enum", <enumeration>, <literal>], "form": "isnot" | "is"}} — the statement
#               ``self.x = x if x is not None else D``  /  ``self.x = D if x is None else x``
#   "sig":      {own REQUIRED property: jsonable value} — a default in the signature (``level: int = 7``, ``hue: Color = Color.Red``);
#               optional arguments always default to ``None`` (the front end demands it)
#
# ``Class.impl_specific``: the whole class is taken from the snippet ``Types/<name>.py``; the harness supplies a complete
# hand-written class (``impl_class_snippet``).


def cspec_of(c: mm.Class) -> Dict[str, Any]:
    return getattr(c, "cspec", None) or {}


def with_cspec(c: mm.Class, spec: Optional[Dict[str, Any]]) -> mm.Class:
    if spec:
        c.cspec = copy.deepcopy(spec)  # type: ignore[attr-defined]
    return c


def stmt_order(c: mm.Class) -> List[str]:
    """Own properties in the order of their assignment statements (properties the specification does not name come first)."""
    order = list(cspec_of(c).get("order") or [])
    return [p.name for p in c.props if p.name not in order] + order


def uses_ctor_specs(m: mm.MM) -> bool:
    return any(cspec_of(c) for c in m.classes)


def stmt_default_value(st: Dict[str, Any]) -> Any:
    """The abstract value of a statement default (a FRESH list every time)."""
    return [] if st["d"][0] == "list" else EnumVal(st["d"][1], st["d"][2])


def declared_default(m: mm.MM, owner: str, pname: str) -> Optional[Tuple[str, Any]]:
    """``("sig", value)`` / ``("stmt", value)`` / None: what the meta-model declares for a missing argument of the property."""
    spec = cspec_of(m.cls(owner))
    if pname in spec.get("sig", {}):
        return "sig", W.from_jsonable(spec["sig"][pname])
    if pname in spec.get("stmt", {}):
        return "stmt", stmt_default_value(spec["stmt"][pname])
    return None


def _mm_literal(v: Any) -> str:
    """A default value as the source text of the META-MODEL (a Python literal / ``Enum.Literal``)."""
    if isinstance(v, EnumVal):
        return f"{v.enum}.{v.literal}"
    if isinstance(v, str):
        return ascii(v)
    assert isinstance(v, (bool, int, float)), v
    return repr(v)


def build_ctor(m: mm.MM, cname: str) -> Optional[mm.Ctor]:
    """The constructor of a class according to the ``cspec`` of the class and of its ancestors (``mm.default_ctor`` if there are none)."""
    c = m.cls(cname)
    props = mm.all_props(m, cname)
    if not props:
        return None

    def default_text(p: mm.Prop, owner: str) -> Optional[str]:
        d = declared_default(m, owner, p.name)
        if d is not None and d[0] == "sig":
            return _mm_literal(d[1])
        return "None" if mm.is_optional(p.type) else None

    # the front end wants: arguments without a default in property order, then those with a default in property order
    args = [mm.Arg(p.name, p.type) for p, o in props if default_text(p, o) is None]
    args += [mm.Arg(p.name, p.type, default_text(p, o)) for p, o in props if default_text(p, o) is not None]
    super_calls: List[Tuple[str, List[str], List[Tuple[str, str]]]] = []
    for b in c.bases:
        bc = build_ctor(m, b)
        if bc is not None:
            super_calls.append((b, [a.name for a in bc.args], []))
    spec = cspec_of(c)
    assigns: List[Tuple[str, str]] = []
    for n in stmt_order(c):
        st = spec.get("stmt", {}).get(n)
        if st is None:
            assigns.append((n, n))
        else:
            d = _mm_literal(stmt_default_value(st)) if st["d"][0] != "list" else "[]"
            assigns.append((n, f"{n} if {n} is not None else {d}" if st.get("form", "isnot") == "isnot" else f"{d} if {n} is None else {n}"))
    return mm.Ctor(args=args, super_calls=super_calls, assigns=assigns)


def render_with_ctors(m: mm.MM) -> str:
    """``mm.render``; with constructor specifications every class gets its explicit constructor, the super calls at ``super_at``."""
    if not uses_ctor_specs(m):
        return mm.render(m)
    saved = [c.ctor for c in m.classes]
    try:
        for c in m.classes:
            c.ctor = build_ctor(m, c.name)
        text = mm.render(m)
        moves = [(c.name, len(c.ctor.super_calls), int(cspec_of(c).get("super_at", 0))) for c in m.classes
                 if c.ctor is not None and c.ctor.super_calls and cspec_of(c).get("super_at", 0)]
    finally:
        for c, old in zip(m.classes, saved):
            c.ctor = old
    if not moves:
        return text
    lines = text.split("\n")
    for cname, n_super, k in moves:
        start = next(i for i, ln in enumerate(lines) if ln.startswith(f"class {cname}("))
        first = next(i for i in range(start, len(lines)) if lines[i].startswith("        ") and ".__init__(self" in lines[i])
        calls = lines[first:first + n_super]
        assigns = []
        j = first + n_super
        while j < len(lines) and lines[j].startswith("        self."):
            assigns.append(lines[j])
            j += 1
        k = min(k, len(assigns))
        lines[first:j] = assigns[:k] + calls + assigns[k:]
    return "\n".join(lines)


# =========================================================================== the generated module


class Sdk:
    """The generated ``types`` module of one meta-model + the naming the harness needs."""

    def __init__(self, m: mm.MM, defaults: Dict[str, Any], source: Optional[str] = None, spec: Optional[Dict[str, str]] = None) -> None:
        self.mm = m
        self.defaults = defaults  # "Class.method" -> abstract default value
        #: ``source``/``spec``: an existing meta-model text + snippets of which ``m`` is the abstraction (``mm_from_symbol_table``)
        self.source = render_with_ctors(m) if source is None else source
        self.spec = spec
        #: property order of every class as the front end computed it
        self.front_order: Optional[Dict[str, List[str]]] = None
        self.error: Optional[str] = None
        self.crash: Optional[str] = None
        self.code: Optional[str] = None
        self.module: Any = None
        self.symbol_table: Any = None
        self.py_class: Dict[str, Any] = {}
        self.meta_of: Dict[Any, str] = {}
        self.py_enum: Dict[str, Any] = {}
        self.tree: Any = None
        self.recorders: Any = None
        self._props: Dict[str, List[Any]] = {}
        #: id(list) -> (list, instance): the default lists seen in this module (``judge_constructed``)
        self.default_lists: Dict[int, Any] = {}

    def props(self, cls: str) -> List[Any]:
        """``mm.all_props`` (cached): ``[(Prop, owner)]``"""
        r = self._props.get(cls)
        if r is None:
            r = self._props[cls] = mm.all_props(self.mm, cls)
        return r

    def snippets(self) -> Dict[str, str]:
        """``Types/<cls>/<method>.py`` for every ``X_or_default`` method: the canonical implementation."""
        from aas_core_codegen.common import Identifier
        from aas_core_codegen.python import naming as N

        if self.spec is not None:
            return dict(self.spec)
        out: Dict[str, str] = {}
        for c in self.mm.classes:
            if c.impl_specific:
                out[f"Types/{c.name}.py"] = self.impl_class_snippet(c)
                continue
            for me in c.methods:
                out[f"Types/{c.name}/{me.name}.py"] = self.method_snippet(c, me)
        return out

    def method_snippet(self, c: mm.Class, me: mm.Method) -> str:
        from aas_core_codegen.common import Identifier
        from aas_core_codegen.python import naming as N

        assert me.name.endswith("_or_default")
        prop = N.property_name(Identifier(me.name[: -len("_or_default")]))
        default = self.default_code(self.defaults[f"{c.name}.{me.name}"])
        return (
            f"def {N.method_name(Identifier(me.name))}(self):  # type: ignore\n"
            f"    return self.{prop} if self.{prop} is not None else {default}"
        )

    def impl_class_snippet(self, c: mm.Class) -> str:
        """
        ``Types/<name>.py`` of an implementation-specific class: a COMPLETE hand-written class (constructor with the declared
        defaults, ``over_X_or_empty``, and for a concrete class ``descend_once`` / ``descend`` / the four dispatch methods) —
        what a user of the generator has to supply.  Written by reflection over the attribute values, not with the generator.
        """
        from aas_core_codegen.common import Identifier
        from aas_core_codegen.python import naming as N

        m = self.mm
        ctor = build_ctor(m, c.name)
        bases = [str(N.class_name(Identifier(b))) for b in c.bases] or ["Class"]
        out = [f"class {N.class_name(Identifier(c.name))}({', '.join(bases)}):", '    """Represent a hand-written class."""', ""]
        if ctor is not None:
            owner_of = {p.name: o for p, o in mm.all_props(m, c.name)}
            args = ["self"]
            for a in ctor.args:
                d = declared_default(m, owner_of[a.name], a.name)
                code = None if a.default is None else ("None" if a.default == "None" else self.default_code(d[1]))  # type: ignore[index]
                args.append(str(N.argument_name(Identifier(a.name))) + ("" if code is None else f"={code}"))
            out.append(f"    def __init__({', '.join(args)}) -> None:")
            body = [f"        {N.class_name(Identifier(b))}.__init__({', '.join(['self'] + [str(N.argument_name(Identifier(n))) for n in pos])})"
                    for b, pos, _kw in ctor.super_calls]
            assigns = []
            for n in stmt_order(c):
                st = cspec_of(c).get("stmt", {}).get(n)
                arg, prop = N.argument_name(Identifier(n)), N.property_name(Identifier(n))
                assigns.append(f"        self.{prop} = {arg}" if st is None else
                               f"        self.{prop} = {arg} if {arg} is not None else {self.default_code(stmt_default_value(st))}")
            k = min(int(cspec_of(c).get("super_at", 0)), len(assigns))
            out += (assigns[:k] + body + assigns[k:]) or ["        pass"]
            out.append("")
        for p in c.props:
            if isinstance(p.type, mm.OptionalOf) and isinstance(p.type.item, mm.ListOf):
                pn = N.property_name(Identifier(p.name))
                out += [f"    def over_{pn}_or_empty(self):  # type: ignore", f"        if self.{pn} is not None:", f"            yield from self.{pn}", ""]
        for me in c.methods:
            out += ["    " + ln for ln in self.method_snippet(c, me).split("\n")] + [""]
        if not c.abstract:
            attrs = "".join(f"self.{N.property_name(Identifier(p.name))}, " for p, _o in mm.all_props(m, c.name))
            out += [
                "    def descend_once(self):  # type: ignore",
                "        def flat(value):  # type: ignore",
                "            if isinstance(value, Class):",
                "                yield value",
                "            elif isinstance(value, list):",
                "                for item in value:",
                "                    yield from flat(item)",
                "",
                f"        for value in ({attrs}):",
                "            yield from flat(value)",
                "",
                "    def descend(self):  # type: ignore",
                "        for child in self.descend_once():",
                "            yield child",
                "            yield from child.descend()",
                "",
                "    def accept(self, visitor):  # type: ignore",
                f"        visitor.{N.method_name(Identifier('visit_' + c.name))}(self)",
                "",
                "    def accept_with_context(self, visitor, context):  # type: ignore",
                f"        visitor.{N.method_name(Identifier('visit_' + c.name + '_with_context'))}(self, context)",
                "",
                "    def transform(self, transformer):  # type: ignore",
                f"        return transformer.{N.method_name(Identifier('transform_' + c.name))}(self)",
                "",
                "    def transform_with_context(self, transformer, context):  # type: ignore",
                f"        return transformer.{N.method_name(Identifier('transform_' + c.name + '_with_context'))}(self, context)",
                "",
            ]
        while out[-1] == "":
            out.pop()
        return "\n".join(out)

    def default_code(self, v: Any) -> str:
        from aas_core_codegen.common import Identifier
        from aas_core_codegen.python import naming as N

        if isinstance(v, EnumVal):
            return f"{N.enum_name(Identifier(v.enum))}.{N.enum_literal_name(Identifier(v.literal))}"
        return repr(v)

    def build(self, module_name: str = "aasv_c29") -> "Sdk":
        from aas_core_codegen import specific_implementations as SI
        from aas_core_codegen.common import Identifier, Stripped
        from aas_core_codegen.python import common as python_common, lib as python_lib, naming as N

        ld = mm.load(self.source)
        if not ld.ok:
            self.error, self.crash = ld.error, ld.crash
            return self
        self.symbol_table = ld.symbol_table
        self.front_order = {str(c.name): [str(p.name) for p in c.properties] for c in ld.symbol_table.classes}
        try:  # the project's code
            verified, errors = python_lib.verify_for_types(symbol_table=ld.symbol_table)
            if errors is not None:
                self.error = "verify_for_types: " + "; ".join(str(e.message) for e in errors)
                return self
            spec = {SI.ImplementationKey(k): Stripped(v) for k, v in self.snippets().items()}
            code, errors = python_lib.generate_types(
                symbol_table=verified, qualified_module_name=python_common.QualifiedModuleName(module_name), spec_impls=spec
            )
            if errors is not None:
                self.error = "generate_types: " + "; ".join(str(e.message) for e in errors)
                return self
        except BaseException as e:  # noqa: B902
            if isinstance(e, (KeyboardInterrupt, SystemExit)):
                raise
            self.crash = crash_name(e)
            return self
        return self.adopt(code, module_name)

    def job(self, module_name: str = "aasv_c29") -> Dict[str, Any]:
        """The model as a job of ``c29_fresh`` (generation in another process)."""
        return {"source": self.source, "snippets": self.snippets(), "module": module_name}

    def adopt_result(self, res: Dict[str, Any], module_name: str = "aasv_c29") -> "Sdk":
        """Take over what another process generated for this model (``c29_fresh.generate_one``)."""
        if "code" not in res:
            self.error, self.crash = res.get("error"), res.get("crash")
            return self
        self.front_order = res.get("order")
        return self.adopt(res["code"], module_name)

    def adopt(self, code: str, module_name: str = "aasv_c29") -> "Sdk":
        """Execute the generated text as a module."""
        from aas_core_codegen.common import Identifier
        from aas_core_codegen.python import naming as N

        self.code = code
        mod = pytypes.ModuleType(module_name + ".types")
        try:
            exec(compile(code, f"<generated {module_name}/types.py>", "exec"), mod.__dict__)  # noqa: S102
        except BaseException as e:  # noqa: B902
            if isinstance(e, (KeyboardInterrupt, SystemExit)):
                raise
            self.crash = "import:" + crash_name(e)
            return self
        self.module = mod
        for c in self.mm.classes:
            k = getattr(mod, N.class_name(Identifier(c.name)))
            self.py_class[c.name] = k
            self.meta_of[k] = c.name
        for e in self.mm.enums:
            self.py_enum[e.name] = getattr(mod, N.enum_name(Identifier(e.name)))
        return self

    @property
    def ok(self) -> bool:
        return self.module is not None

    # ---- naming (the project's own functions: naming is C21's subject, not this property's)
    _names: Dict[Tuple[str, str], str] = {}

    @staticmethod
    def prop_name(name: str) -> str:
        r = Sdk._names.get(("p", name))
        if r is None:
            from aas_core_codegen.common import Identifier
            from aas_core_codegen.python import naming as N

            r = Sdk._names[("p", name)] = str(N.property_name(Identifier(name)))
        return r

    @staticmethod
    def method_name(name: str) -> str:
        r = Sdk._names.get(("m", name))
        if r is None:
            from aas_core_codegen.common import Identifier
            from aas_core_codegen.python import naming as N

            r = Sdk._names[("m", name)] = str(N.method_name(Identifier(name)))
        return r

    def enum_member(self, v: EnumVal) -> Any:
        from aas_core_codegen.common import Identifier
        from aas_core_codegen.python import naming as N

        return getattr(self.py_enum[v.enum], N.enum_literal_name(Identifier(v.literal)))

    # ---- abstract value -> SDK object
    def realise(self, v: Any) -> Any:
        if isinstance(v, Inst):
            if v.obj is not None:
                return v.obj  # shared object: the same instance at a second place
            props = self.props(v.cls)
            kwargs = {}
            for i, ((p, _o), x) in enumerate(zip(props, v.fields)):
                if i in v.omit:
                    self.realise_nested(x)  # (a default holds no instances; kept general)
                elif i in v.nones:
                    kwargs[self.arg_name(p.name)] = None
                else:
                    kwargs[self.arg_name(p.name)] = self.realise(x)
            v.obj = self.py_class[v.cls](**kwargs)
            return v.obj
        if isinstance(v, list):
            return [self.realise(x) for x in v]
        if isinstance(v, EnumVal):
            return self.enum_member(v)
        return v

    def realise_nested(self, v: Any) -> None:
        for i in W.walk_insts(v):
            self.realise(i)

    @staticmethod
    def arg_name(name: str) -> str:
        r = Sdk._names.get(("a", name))
        if r is None:
            from aas_core_codegen.common import Identifier
            from aas_core_codegen.python import naming as N

            r = Sdk._names[("a", name)] = str(N.argument_name(Identifier(name)))
        return r

    # ---- SDK object -> abstract value (reflection; for printing what the SDK yielded)
    def abstract(self, o: Any) -> Any:
        if o is None or isinstance(o, (bool, int, float, str, bytes, bytearray)):
            return o
        if isinstance(o, list):
            return [self.abstract(x) for x in o]
        if type(o) in self.meta_of:
            name = self.meta_of[type(o)]
            return Inst(name, [self.abstract(getattr(o, self.prop_name(p.name), "<no attribute>")) for p, _o in self.props(name)])
        for ename, k in self.py_enum.items():
            if isinstance(o, k):
                e = self.mm.find(ename)
                for lit in e.literals:  # type: ignore[union-attr]
                    if self.enum_member(EnumVal(ename, lit.name)) is o:
                        return EnumVal(ename, lit.name)
        return "?" + type(o).__name__


def python_mro(m: mm.MM, cls: str) -> List[str]:
    """The linearisation CPython computes for the class hierarchy of the meta-model (proper ancestors)."""
    made: Dict[str, Any] = {}

    def make(n: str) -> Any:
        if n not in made:
            made[n] = type(n, tuple(make(b) for b in m.cls(n).bases) or (object,), {})
        return made[n]

    return [k.__name__ for k in make(cls).__mro__[1:] if k is not object]


# =========================================================================== observations on the real module


def observe_body(sdk: Sdk, cls: str, method: str) -> Any:
    """``[(python property name, node wire)]`` of the generated ``descend_once`` / ``descend`` of a concrete class."""
    if sdk.tree is None:
        sdk.tree = ast.parse(sdk.code or "")
    tree = sdk.tree
    from aas_core_codegen.common import Identifier
    from aas_core_codegen.python import naming as N

    want = str(N.class_name(Identifier(cls)))
    for node in tree.body:
        if isinstance(node, ast.ClassDef) and node.name == want:
            for f in node.body:
                if isinstance(f, ast.FunctionDef) and f.name == method:
                    return _canon_body(f)
            return "no-method"
    return "no-class"


def _expr_key(e: ast.expr) -> str:
    if isinstance(e, ast.Name):
        return e.id
    if isinstance(e, ast.Attribute) and isinstance(e.value, ast.Name) and e.value.id == "self":
        return "self." + e.attr
    return "?" + ast.dump(e)


def _canon_stmt(s: ast.stmt, cur: str) -> List[str]:
    """One statement over the unrollee ``cur`` -> node tokens; anything unexpected becomes a ``?`` token."""
    if isinstance(s, ast.Expr) and isinstance(s.value, ast.Yield) and s.value.value is not None:
        return ["Y"] if _expr_key(s.value.value) == cur else ["?yield:" + _expr_key(s.value.value)]
    if isinstance(s, ast.Expr) and isinstance(s.value, ast.YieldFrom):
        v = s.value.value
        if isinstance(v, ast.Call) and isinstance(v.func, ast.Attribute) and v.func.attr == "descend" and not v.args and not v.keywords:
            return ["D"] if _expr_key(v.func.value) == cur else ["?descend:" + _expr_key(v.func.value)]
        return ["F"] if _expr_key(v) == cur else ["?from:" + ast.unparse(v)]
    if isinstance(s, ast.For) and isinstance(s.target, ast.Name) and not s.orelse:
        if _expr_key(s.iter) != cur:
            return ["?for:" + _expr_key(s.iter)]
        body: List[str] = []
        for b in s.body:
            body += _canon_stmt(b, s.target.id)
        return ["L", str(len(s.body))] + body
    if (
        isinstance(s, ast.If) and not s.orelse and isinstance(s.test, ast.Compare) and len(s.test.ops) == 1
        and isinstance(s.test.ops[0], ast.IsNot) and isinstance(s.test.comparators[0], ast.Constant) and s.test.comparators[0].value is None
    ):
        if _expr_key(s.test.left) != cur:
            return ["?if:" + _expr_key(s.test.left)]
        body = []
        for b in s.body:
            body += _canon_stmt(b, cur)
        return ["O", str(len(s.body))] + body
    return ["?" + type(s).__name__]


def _top_operand(s: ast.stmt) -> Optional[str]:
    for n in ast.walk(s):
        if isinstance(n, ast.Attribute) and isinstance(n.value, ast.Name) and n.value.id == "self":
            return n.attr
    return None


def _canon_body(f: ast.FunctionDef) -> Any:
    stmts = [s for s in f.body if not (isinstance(s, ast.Expr) and isinstance(s.value, ast.Constant) and isinstance(s.value.value, str))]
    # the "no descendable properties" body: ``return`` followed by a bare ``yield``
    if len(stmts) == 2 and isinstance(stmts[0], ast.Return) and stmts[0].value is None and isinstance(stmts[1], ast.Expr) \
            and isinstance(stmts[1].value, ast.Yield) and stmts[1].value.value is None:
        return []
    out: List[List[str]] = []
    for s in stmts:
        attr = _top_operand(s)
        if attr is None:
            out.append(["?", "?" + type(s).__name__])
            continue
        toks = _canon_stmt(s, "self." + attr)
        if out and out[-1][0] == attr:
            out[-1] += toks
        else:
            out.append([attr] + toks)
    return [[b[0], ",".join(b[1:])] for b in out]


def run_list(fn: Any) -> Any:
    try:
        return list(fn())
    except BaseException as e:  # noqa: B902
        if isinstance(e, (KeyboardInterrupt, SystemExit)):
            raise
        return crash_name(e)


def make_recorders(sdk: Sdk) -> Dict[str, Any]:
    """Recording subclasses of the four abstract visitors/transformers: every method logs its own name."""
    if sdk.recorders is not None:
        for _rec, log in sdk.recorders.values():
            del log[:]
        return sdk.recorders
    sdk.recorders = _make_recorders(sdk)
    return sdk.recorders


def _make_recorders(sdk: Sdk) -> Dict[str, Any]:
    mod = sdk.module
    concrete = [c.name for c in sdk.mm.classes if not c.abstract]

    def body(kind: str, log: List[Any]) -> Dict[str, Any]:
        d: Dict[str, Any] = {}
        for c in concrete:
            if kind == "accept":
                name = sdk.method_name(f"visit_{c}")
                d[name] = (lambda n: lambda self, that: log.append((n, that, None)))(name)
            elif kind == "accept_with_context":
                name = sdk.method_name(f"visit_{c}_with_context")
                d[name] = (lambda n: lambda self, that, context: log.append((n, that, context)))(name)
            elif kind == "transform":
                name = sdk.method_name(f"transform_{c}")
                d[name] = (lambda n: lambda self, that: (log.append((n, that, None)), ("result", n))[1])(name)
            else:
                name = sdk.method_name(f"transform_{c}_with_context")
                d[name] = (lambda n: lambda self, that, context: (log.append((n, that, context)), ("result", n))[1])(name)
        return d

    out: Dict[str, Any] = {}
    for kind, base in (("accept", "AbstractVisitor"), ("accept_with_context", "AbstractVisitorWithContext"),
                       ("transform", "AbstractTransformer"), ("transform_with_context", "AbstractTransformerWithContext")):
        log: List[Any] = []
        k = type("Rec" + base, (getattr(mod, base),), body(kind, log))
        out[kind] = (k(), log)
    return out


def call_dispatch(kind: str, obj: Any, rec: Any, ctxobj: Any) -> Any:
    try:
        if kind == "accept":
            return obj.accept(rec)
        if kind == "accept_with_context":
            return obj.accept_with_context(rec, ctxobj)
        if kind == "transform":
            return obj.transform(rec)
        return obj.transform_with_context(rec, ctxobj)
    except BaseException as e:  # noqa: B902
        if isinstance(e, (KeyboardInterrupt, SystemExit)):
            raise
        return crash_name(e)


# =========================================================================== the direct oracle


def _flatten(sdk: Sdk, v: Any) -> Iterator[Any]:
    """The class instances directly inside a property value, lists in order (looks at values only)."""
    if isinstance(v, sdk.module.Class):
        yield v
    elif isinstance(v, list):
        for x in v:
            yield from _flatten(sdk, x)


def oracle_children(sdk: Sdk, o: Any) -> List[Any]:
    out: List[Any] = []
    for p, _owner in sdk.props(sdk.meta_of[type(o)]):
        # (an attribute the constructor did not set is reported by ``judge_constructed``; nothing is nested there)
        out += list(_flatten(sdk, getattr(o, sdk.prop_name(p.name), None)))
    return out


def oracle_below(sdk: Sdk, o: Any) -> List[Any]:
    out: List[Any] = []
    for c in oracle_children(sdk, o):
        out.append(c)
        out += oracle_below(sdk, c)
    return out


def same_objects(a: Any, b: List[Any]) -> bool:
    return isinstance(a, list) and len(a) == len(b) and all(x is y for x, y in zip(a, b))


def shape_of(sdk: Sdk, got: Any, want: List[Any]) -> str:
    """A short root-cause signature of a wrong traversal."""
    if isinstance(got, str):
        return got
    if len(got) < len(want):
        return "missing"
    if len(got) > len(want):
        return "extra"
    if sorted(map(id, got)) == sorted(map(id, want)):
        return "order"
    return "wrong-instance"


DISPATCHERS = (
    ("AbstractVisitor", "visit_{}"), ("AbstractVisitorWithContext", "visit_{}_with_context"),
    ("PassThroughVisitor", "visit_{}"), ("PassThroughVisitorWithContext", "visit_{}_with_context"),
    ("AbstractTransformer", "transform_{}"), ("AbstractTransformerWithContext", "transform_{}_with_context"),
    ("TransformerWithDefault", "transform_{}"), ("TransformerWithDefaultAndContext", "transform_{}_with_context"),
)


def judge_module(sdk: Sdk, inp: Dict[str, Any], ctx: Ctx) -> None:
    """Every visitor / transformer class of the module has the method of EVERY concrete class of the meta-model (also of the
    hand-written, implementation-specific ones: their ``accept`` / ``transform`` can only dispatch to these methods)."""
    for kname, pattern in DISPATCHERS:
        k = getattr(sdk.module, kname, None)
        missing = [c.name for c in sdk.mm.classes if not c.abstract and not callable(getattr(k, sdk.method_name(pattern.format(c.name)), None))]
        if k is None or missing:
            ctx.fail(inp, f"{kname} has no method {[sdk.method_name(pattern.format(n)) for n in missing]} for the concrete classes {missing}",
                     f"C29:dispatcher-incomplete:{kname}" + (":impl-specific" if missing and all(sdk.mm.cls(n).impl_specific for n in missing) else ""))


def holds(sdk: Sdk, actual: Any, want: Any) -> bool:
    """The attribute value IS the abstract value (instances by identity, everything else by type and value)."""
    if isinstance(want, Inst):
        return actual is want.obj
    if isinstance(want, list):
        return type(actual) is list and len(actual) == len(want) and all(holds(sdk, x, y) for x, y in zip(actual, want))
    if isinstance(want, EnumVal):
        return actual is sdk.enum_member(want)
    if want is None:
        return actual is None
    if isinstance(want, (bytes, bytearray)):
        return isinstance(actual, (bytes, bytearray)) and bytes(actual) == bytes(want)
    return type(actual) is type(want) and (actual == want or (isinstance(want, float) and want != want and actual != actual))


def judge_constructed(sdk: Sdk, root: Inst, inp: Dict[str, Any], ctx: Ctx) -> None:
    """After the generated constructor every property holds the argument, or the DECLARED default where the argument was
    left out / ``None`` (``Inst.omit`` / ``Inst.nones``); two instances never share a default list."""
    for a in W.walk_insts(root):
        o = a.obj
        for i, ((p, owner), want) in enumerate(zip(sdk.props(a.cls), a.fields)):
            got = getattr(o, sdk.prop_name(p.name), "<no attribute>")
            missing = i in a.omit or i in a.nones
            d = declared_default(sdk.mm, owner, p.name) if missing else None
            kind = "assign" if not missing else ("none" if d is None else ("sig" if d[0] == "sig" else ("list" if isinstance(d[1], list) else "enum")))
            if missing:
                ctx.hit(f"ctor:{'omitted' if i in a.omit else 'none-passed'}:{kind}")
            if not holds(sdk, got, want):
                ctx.fail(inp, f"{a.cls}.{p.name} holds {got!r} after the constructor (argument {'omitted' if i in a.omit else ('None' if i in a.nones else 'passed')}); "
                              f"expected {W.jsonable(want)!r}", f"C29:constructor:{'default-' + kind if missing else 'assign'}")
            elif missing and kind == "list":
                other = sdk.default_lists.setdefault(id(got), (got, o))
                if other[1] is not o:
                    ctx.fail(inp, f"two instances share the default list of {a.cls}.{p.name}", "C29:constructor:default-list:shared")


def judge(sdk: Sdk, root: Inst, inp: Dict[str, Any], ctx: Ctx) -> None:
    """The statement of C29 decided on one instance tree of the real module."""
    mod = sdk.module
    recs = make_recorders(sdk)
    judge_constructed(sdk, root, inp, ctx)
    for a in W.walk_insts(root):
        o = a.obj
        cls = sdk.meta_of[type(o)]
        # --- descend_once / descend
        want1 = oracle_children(sdk, o)
        got1 = run_list(o.descend_once)
        if not same_objects(got1, want1):
            ctx.fail(inp, f"{cls}.descend_once() yields {_names(sdk, got1)}, directly nested are {_names(sdk, want1)}",
                     f"C29:descend_once:{shape_of(sdk, got1, want1)}")
        want2 = oracle_below(sdk, o)
        got2 = run_list(o.descend)
        if not same_objects(got2, want2):
            ctx.fail(inp, f"{cls}.descend() yields {_names(sdk, got2)}, the pre-order is {_names(sdk, want2)}",
                     f"C29:descend:{shape_of(sdk, got2, want2)}")
        # --- dispatch
        for kind in KINDS:
            rec, log = recs[kind]
            del log[:]
            token = object()
            res = call_dispatch(kind, o, rec, token)
            stem = "visit" if kind.startswith("accept") else "transform"
            want_name = sdk.method_name(f"{stem}_{cls}" + ("_with_context" if kind.endswith("with_context") else ""))
            good = len(log) == 1 and log[0][0] == want_name and log[0][1] is o
            if good and kind.endswith("with_context"):
                good = log[0][2] is token
            if good and kind.startswith("transform"):
                good = res == ("result", want_name)
            if good and kind.startswith("accept"):
                good = res is None
            if not good:
                ctx.fail(inp, f"{cls}.{kind}() called {[x[0] for x in log]} -> {res!r}; expected exactly {want_name}",
                         f"C29:dispatch:{kind}")
        # --- accessors
        for p, _owner in sdk.props(cls):
            v = getattr(o, sdk.prop_name(p.name), "<no attribute>")
            acc = f"over_{sdk.prop_name(p.name)}_or_empty"
            if isinstance(p.type, mm.OptionalOf) and isinstance(p.type.item, mm.ListOf):
                got = run_list(getattr(o, acc)) if hasattr(o, acc) else "missing-accessor"
                want = [] if v is None else (list(v) if isinstance(v, list) else ["<the value is not a list>"])
                if not same_objects(got, want):
                    ctx.fail(inp, f"{cls}.{acc}() gives {got!r} for the value {v!r}", "C29:over_or_empty:" + ("none" if v is None else "set"))
                if isinstance(v, list) and declared_default(sdk.mm, _owner, p.name) is not None:
                    # a property with a declared default list is still OPTIONAL: it may be set to None afterwards
                    setattr(o, sdk.prop_name(p.name), None)
                    try:
                        got = run_list(getattr(o, acc)) if hasattr(o, acc) else "missing-accessor"
                        if got != []:
                            ctx.fail(inp, f"{cls}.{acc}() gives {got!r} after {p.name} was set to None", "C29:over_or_empty:none")
                        got1, want1n = run_list(o.descend_once), oracle_children(sdk, o)
                        if not same_objects(got1, want1n):
                            ctx.fail(inp, f"{cls}.descend_once() yields {_names(sdk, got1)} after {p.name} was set to None, directly nested are {_names(sdk, want1n)}",
                                     f"C29:descend_once:{shape_of(sdk, got1, want1n)}")
                        ctx.hit("over:none-after-default")
                    finally:
                        setattr(o, sdk.prop_name(p.name), v)
            elif hasattr(o, acc):
                ctx.fail(inp, f"{cls}.{acc} exists although {p.name} is not an optional list", "C29:over_or_empty:unexpected")
        for c in [cls] + mm.ancestors(sdk.mm, cls):
            for me in sdk.mm.cls(c).methods:
                pname = me.name[: -len("_or_default")]
                v = getattr(o, sdk.prop_name(pname), "<no attribute>")
                try:
                    got = getattr(o, sdk.method_name(me.name))()
                except BaseException as e:  # noqa: B902
                    if isinstance(e, (KeyboardInterrupt, SystemExit)):
                        raise
                    got = crash_name(e)
                want = sdk.realise(sdk.defaults[f"{c}.{me.name}"]) if v is None else v
                same = got is want if (v is not None or isinstance(want, mod.Class)) else (type(got) is type(want) and got == want)
                if not same:
                    ctx.fail(inp, f"{cls}.{me.name}() gives {got!r} for the value {v!r} (default {want!r})", "C29:or_default:" + ("none" if v is None else "set"))
        # --- the transformers with a default give the default for an instance of EVERY concrete class
        for kname, with_context in (("TransformerWithDefault", False), ("TransformerWithDefaultAndContext", True)):
            try:
                t = getattr(mod, kname)("dflt")
                r = t.transform_with_context(o, object()) if with_context else t.transform(o)
            except BaseException as e:  # noqa: B902
                if isinstance(e, (KeyboardInterrupt, SystemExit)):
                    raise
                r = crash_name(e)
            if r != "dflt":
                ctx.fail(inp, f"{kname} gives {r!r} for an instance of {cls}", "C29:transformer_with_default" + (":context" if with_context else ""))
    # --- the pass-through visitors walk the whole tree in pre-order
    seen: List[Any] = []
    methods = {}
    for c in sdk.mm.classes:
        if not c.abstract:
            n = sdk.method_name(f"visit_{c.name}")
            methods[n] = (lambda n: lambda self, that: (seen.append(that), getattr(mod.PassThroughVisitor, n)(self, that))[1])(n)
    try:
        type("RecPass", (mod.PassThroughVisitor,), methods)().visit(root.obj)
    except BaseException as e:  # noqa: B902
        if isinstance(e, (KeyboardInterrupt, SystemExit)):
            raise
        seen = [crash_name(e)]
    want = [root.obj] + oracle_below(sdk, root.obj)
    if not same_objects(seen, want):
        ctx.fail(inp, f"PassThroughVisitor visits {_names(sdk, seen)}, the pre-order is {_names(sdk, want)}", "C29:pass_through:" + shape_of(sdk, seen, want))
    # … and so does the variant with a context, handing the context on; a pass-through visitor that overrides NOTHING ends
    seen = []
    token = object()
    methods = {}
    for c in sdk.mm.classes:
        if not c.abstract:
            n = sdk.method_name(f"visit_{c.name}_with_context")
            methods[n] = (lambda n: lambda self, that, context: (seen.append(that if context is token else "wrong-context"),
                                                                 getattr(mod.PassThroughVisitorWithContext, n)(self, that, context))[1])(n)
    try:
        type("RecPassCtx", (mod.PassThroughVisitorWithContext,), methods)().visit_with_context(root.obj, token)
        mod.PassThroughVisitor().visit(root.obj)
    except BaseException as e:  # noqa: B902
        if isinstance(e, (KeyboardInterrupt, SystemExit)):
            raise
        seen = [crash_name(e)]
    if not same_objects(seen, want):
        ctx.fail(inp, f"PassThroughVisitorWithContext visits {_names(sdk, seen)}, the pre-order is {_names(sdk, want)}",
                 "C29:pass_through_with_context:" + shape_of(sdk, seen, want))


def _names(sdk: Sdk, xs: Any) -> Any:
    if isinstance(xs, str):
        return xs
    out = []
    for x in xs:
        if isinstance(x, str):
            out.append(x)
            continue
        n = sdk.meta_of.get(type(x), type(x).__name__)
        ident = getattr(x, "ident", None)
        out.append(f"{n}#{ident}" if ident is not None else n)
    return out


# =========================================================================== model requests


def correspond_tree(sdk: Sdk, mmw: str, root: Inst, inp: Dict[str, Any], ctx: Ctx, batch: List[Any]) -> None:
    """Queue the model requests for one instance tree together with what the real module did."""
    insts = W.walk_insts(root)
    used = {a.cls for a in insts}
    for c in list(used):
        used |= set(mm.ancestors(sdk.mm, c))
    full = mmw
    mmw = W.enc_mm(sdk.mm, only=used)  # the traversal only looks up the classes of the instances (and their MRO)
    batch.append(("conforms", f"conforms {full} {W.val_wire(root)}", "1", inp))
    for a in insts:
        o = a.obj
        w = W.val_wire(a)
        cls = a.cls
        got1 = run_list(o.descend_once)
        got2 = run_list(o.descend)
        batch.append(("once", f"once {mmw} {w}", got1 if isinstance(got1, str) else W.vals_wire([sdk.abstract(x) for x in got1]), inp))
        batch.append(("descend", f"descend {mmw} {w}", got2 if isinstance(got2, str) else W.vals_wire([sdk.abstract(x) for x in got2]), inp))
        batch.append(("gen", f"gen {mmw} {w}", got2 if isinstance(got2, str) else W.vals_wire([sdk.abstract(x) for x in got2]), inp))
        ctx.hit("descend:empty" if got2 == [] else ("descend:flat" if got1 == got2 else "descend:deep"))
        recs = make_recorders(sdk)
        mro = enc_list(python_mro(sdk.mm, cls))
        for kind in KINDS:
            rec, log = recs[kind]
            del log[:]
            res = call_dispatch(kind, o, rec, None)
            called = ["+".join(x[0] for x in log)] if len(log) != 1 else [log[0][0]]
            stem = "visit" if kind.startswith("accept") else "transform"
            # map the python method name back to the meta-model identifier the model talks about
            meta = {sdk.method_name(f"{stem}_{c.name}" + ("_with_context" if kind.endswith("with_context") else "")):
                    f"{stem}_{c.name}" + ("_with_context" if kind.endswith("with_context") else "") for c in sdk.mm.classes}
            impl = enc_text(meta.get(called[0], "?" + called[0])) if not isinstance(res, str) or not res.startswith("crash:") else res
            batch.append(("dispatch", f"dispatch {kind} {mmw} {enc_text(cls)} {mro}", impl, inp))
        if not sdk.mm.cls(cls).impl_specific:
            for k, ((p, owner), v) in enumerate(zip(sdk.props(cls), a.fields)):
                missing = k in a.omit or k in a.nones
                if not missing and not (cspec_of(sdk.mm.cls(owner)) and p.name != "ident"):
                    continue
                d = declared_default(sdk.mm, owner, p.name)
                code = "N" if d is None or d[0] == "sig" else ("L" if isinstance(d[1], list) else f"E,{enc_text(d[1].enum)},{enc_text(d[1].literal)}")
                arg = v if not missing or (d is not None and d[0] == "sig") else None  # (an omitted argument is its signature default)
                try:
                    got = W.val_wire(sdk.abstract(getattr(o, sdk.prop_name(p.name))))
                except BaseException as e:  # noqa: B902
                    if isinstance(e, (KeyboardInterrupt, SystemExit)):
                        raise
                    got = crash_name(e)
                batch.append(("construct", f"construct {code} {W.val_wire(arg)}", got, inp))
        for (p, _owner), v in zip(sdk.props(cls), a.fields):
            acc = f"over_{sdk.prop_name(p.name)}_or_empty"
            if hasattr(o, acc):
                got = run_list(getattr(o, acc))
                impl = got if isinstance(got, str) else W.vals_wire([sdk.abstract(x) for x in got])
            else:
                impl = "no-accessor"
            batch.append(("over", f"over {W.ty_wire(sdk.mm, p.type)} {W.val_wire(v)}", impl, inp))
            ctx.hit("over:" + ("absent" if impl == "no-accessor" else ("none" if v is None else "set")))
        for c in [cls] + mm.ancestors(sdk.mm, cls):
            for me in sdk.mm.cls(c).methods:
                pname = me.name[: -len("_or_default")]
                idx = [p.name for p, _ in sdk.props(cls)].index(pname)
                d = sdk.defaults[f"{c}.{me.name}"]
                try:
                    got = W.val_wire(sdk.abstract(getattr(o, sdk.method_name(me.name))()))
                except BaseException as e:  # noqa: B902
                    if isinstance(e, (KeyboardInterrupt, SystemExit)):
                        raise
                    got = crash_name(e)
                batch.append(("ordefault", f"ordefault {W.val_wire(d)} {W.val_wire(a.fields[idx])}", got, inp))
                ctx.hit("ordefault:" + ("none" if a.fields[idx] is None else "set"))


def correspond_bodies(sdk: Sdk, inp: Dict[str, Any], ctx: Ctx, batch: List[Any]) -> None:
    for c in sdk.mm.classes:
        if c.abstract or c.impl_specific:  # (a hand-written class is not the generator's text)
            continue
        props = sdk.props(c.name)
        for method, flag in (("descend_once", "0"), ("descend", "1")):
            got = observe_body(sdk, c.name, method)
            if isinstance(got, str):
                batch.append(("body", f"block {flag} p,int", got, inp))  # certainly a disagreement
                continue
            by_prop = {b[0]: b[1] for b in got}
            unknown = set(by_prop) - {sdk.prop_name(p.name) for p, _ in props}
            if unknown or len(by_prop) != len(got) or [b[0] for b in got] != [sdk.prop_name(p.name) for p, _ in props if sdk.prop_name(p.name) in by_prop]:
                batch.append(("body", f"block {flag} p,int", "order-or-unknown:" + json.dumps(got), inp))
                continue
            for p, _owner in props:
                impl = by_prop.get(sdk.prop_name(p.name), "[]")
                batch.append(("body", f"block {flag} {W.ty_wire(sdk.mm, p.type)}", impl, {"mm": inp["mm"], "class": c.name, "prop": p.name, "method": method}))


def meta_stmts(m: mm.MM, c: mm.Class) -> List[str]:
    """The constructor statements of a class as the META-MODEL states them (wire of ``SdkCtor.Stmt``)."""
    ctor = build_ctor(m, c.name)
    if ctor is None:
        return []
    spec = cspec_of(c)
    calls = ["S," + enc_text(b) for b, _pos, _kw in ctor.super_calls]
    assigns = []
    for n in stmt_order(c):
        st = spec.get("stmt", {}).get(n)
        d = "N" if st is None else ("L" if st["d"][0] == "list" else f"E,{enc_text(st['d'][1])},{enc_text(st['d'][2])}")
        assigns.append(f"A,{enc_text(n)},{enc_text(n)},{d}")
    k = min(int(spec.get("super_at", 0)), len(assigns))
    return assigns[:k] + calls + assigns[k:]


def observe_ctor(sdk: Sdk, c: mm.Class) -> str:
    """The statements of the generated ``__init__`` of a class, read back with ``ast`` (names mapped to the meta-model's)."""
    from aas_core_codegen.common import Identifier
    from aas_core_codegen.python import naming as N

    if sdk.tree is None:
        sdk.tree = ast.parse(sdk.code or "")
    want = str(N.class_name(Identifier(c.name)))
    node = next((n for n in sdk.tree.body if isinstance(n, ast.ClassDef) and n.name == want), None)
    if node is None:
        return "no-class"
    init = next((f for f in node.body if isinstance(f, ast.FunctionDef) and f.name == "__init__"), None)
    if init is None:
        return "[]"
    cls_of = {str(N.class_name(Identifier(x.name))): x.name for x in sdk.mm.classes}
    prop_of = {sdk.prop_name(p.name): p.name for p, _o in sdk.props(c.name)}
    enum_of = {str(N.enum_name(Identifier(e.name))): e for e in sdk.mm.enums}

    def name(table: Dict[str, str], py: str) -> str:
        return enc_text(table[py]) if py in table else "?" + py

    out = []
    for st in init.body:
        if isinstance(st, ast.Expr) and isinstance(st.value, ast.Constant) and isinstance(st.value.value, str):
            continue
        if (isinstance(st, ast.Expr) and isinstance(st.value, ast.Call) and isinstance(st.value.func, ast.Attribute) and st.value.func.attr == "__init__"
                and isinstance(st.value.func.value, ast.Name)):
            out.append("super," + name(cls_of, st.value.func.value.id))
            continue
        if (isinstance(st, ast.Assign) and len(st.targets) == 1 and isinstance(st.targets[0], ast.Attribute) and isinstance(st.targets[0].value, ast.Name)
                and st.targets[0].value.id == "self"):
            p = name(prop_of, st.targets[0].attr)
            v = st.value
            if isinstance(v, ast.Name):
                out.append(f"set,{p},{name(prop_of, v.id)}")
                continue
            if (isinstance(v, ast.IfExp) and isinstance(v.test, ast.Compare) and isinstance(v.test.left, ast.Name) and len(v.test.ops) == 1
                    and isinstance(v.test.ops[0], ast.IsNot) and isinstance(v.test.comparators[0], ast.Constant) and v.test.comparators[0].value is None
                    and isinstance(v.body, ast.Name) and v.body.id == v.test.left.id):
                d = v.orelse
                if isinstance(d, ast.List) and not d.elts:
                    code = "L"
                elif isinstance(d, ast.Attribute) and isinstance(d.value, ast.Name) and d.value.id in enum_of:
                    e = enum_of[d.value.id]
                    lit = next((li.name for li in e.literals if str(N.enum_literal_name(Identifier(li.name))) == d.attr), None)
                    code = f"E,{enc_text(e.name)}," + (enc_text(lit) if lit is not None else "?" + d.attr)
                else:
                    code = "?" + ast.unparse(d)
                out.append(f"setd,{p},{name(prop_of, v.body.id)},{code}")
                continue
        out.append("?" + ast.unparse(st)[:80].replace(" ", "_").replace("\n", "|"))
    return ";".join(out) if out else "[]"


def correspond_ctors(sdk: Sdk, inp: Dict[str, Any], ctx: Ctx, batch: List[Any]) -> None:
    """Stream ``ctor``: the generated ``__init__`` of every generated class against ``SdkCtor.renderBody``."""
    for c in sdk.mm.classes:
        if c.impl_specific:
            continue
        stmts = meta_stmts(sdk.mm, c)
        batch.append(("ctor", "ctor " + (";".join(stmts) if stmts else "[]"), observe_ctor(sdk, c), {"mm": inp["mm"], "class": c.name}))
        ctx.hit("ctor:body:" + ("defaults" if any(x.endswith(",L") or ",E," in x for x in stmts) else "plain"))


def correspond_visitors(sdk: Sdk, mmw: str, inp: Dict[str, Any], ctx: Ctx, batch: List[Any]) -> None:
    """Stream ``visitors``: the methods each of the eight generated visitor / transformer classes declares against
    ``SdkCtor.declaredMethods`` (in the order of the meta-model unless the model was rendered in another order)."""
    if sdk.tree is None:
        sdk.tree = ast.parse(sdk.code or "")
    for kname, pattern in DISPATCHERS:
        node = next((n for n in sdk.tree.body if isinstance(n, ast.ClassDef) and n.name == kname), None)
        if node is None:
            batch.append(("visitors", f"visitors {kname} {mmw}", "no-class", inp))
            continue
        meta = {sdk.method_name(pattern.format(c.name)): pattern.format(c.name) for c in sdk.mm.classes}
        generic = {"visit", "visit_with_context", "transform", "transform_with_context", "__init__"}
        got = [meta.get(f.name, "?" + f.name) for f in node.body if isinstance(f, ast.FunctionDef) and f.name not in generic]
        batch.append(("visitors" if sdk.mm.order is None else "visitors:set", f"visitors {kname} {mmw}", enc_list(got if sdk.mm.order is None else sorted(got)), inp))


def flush(ctx: Ctx, batch: List[Any]) -> None:
    if not batch or not ctx.driver_ok:
        del batch[:]
        return
    answers = ctx.model([b[1] for b in batch])
    for (stream, line, impl, inp), want in zip(batch, answers):
        ctx.traces_validated += 1
        if stream == "visitors:set":  # (a model rendered in an explicit order: the order of the methods is not compared)
            want, impl = ",".join(sorted(want.split(","))), ",".join(sorted(impl.split(",")))
        if impl != want:
            ctx.disagree(stream, {"request": line[:2000], **({"input": inp} if isinstance(inp, dict) else {})}, impl, want)
    del batch[:]


# =========================================================================== generators

LEAF_VALUES = {
    "int": [0, 1, -5, 2**40], "str": ["", "a", "x y", "ä\U0001F600"], "bool": [True, False],
    "float": [0.0, 1.5, -2.25], "bytes": [b"", b"\x00\xff"],
}


class Builder:
    """Random type-conforming abstract instances of a meta-model; every class instance gets a fresh ``ident`` if it has one."""

    def __init__(self, m: mm.MM, rng: random.Random) -> None:
        self.mm = m
        self.rng = rng
        self.counter = 0
        self.made: List[Inst] = []
        self.req = required_depth(m)
        self.specs = uses_ctor_specs(m)

    def concrete_of(self, name: str) -> List[str]:
        c = self.mm.cls(name)
        return ([] if c.abstract else [name]) + mm.concrete_descendants(self.mm, name)

    def value(self, t: Any, depth: int, mode: str = "random") -> Any:
        rng = self.rng
        if isinstance(t, mm.OptionalOf):
            if depth <= 0 or rng.random() < 0.3:
                return None
            return self.value(t.item, depth, mode)
        if isinstance(t, mm.ListOf):
            if depth <= 0:
                return []
            n = rng.choice([0, 1, 1, 2, 3])
            return [self.value(t.item, depth - 1, mode) for _ in range(n)]
        if isinstance(t, mm.Prim):
            return rng.choice(LEAF_VALUES[t.name])
        x = self.mm.find(t.name)
        if isinstance(x, mm.Enum):
            return EnumVal(x.name, rng.choice(x.literals).name)
        if isinstance(x, mm.ConstrainedPrimitive):
            return rng.choice(LEAF_VALUES[x.base])
        cands = [c for c in self.concrete_of(t.name) if self.req[c] < 10**6]
        if not cands:
            raise IndexError(f"no instantiable class for {t.name}")
        fitting = [c for c in cands if self.req[c] <= depth]
        if not fitting:
            low = min(self.req[c] for c in cands)
            fitting = [c for c in cands if self.req[c] == low]
        return self.instance(rng.choice(fitting), depth - 1)

    def instance(self, cls: str, depth: int) -> Inst:
        self.counter += 1
        ident = self.counter
        fields = []
        omit: List[int] = []
        nones: List[int] = []
        for k, (p, owner) in enumerate(mm.all_props(self.mm, cls)):
            if p.name == "ident" and p.type == P("int"):
                fields.append(ident)
                continue
            v = self.value(p.type, depth)
            if self.specs:
                # constructors with declared defaults: leave arguments out / pass None; the field is what the property must hold then
                d = declared_default(self.mm, owner, p.name)
                if d is not None and d[0] == "stmt" and v is None:
                    v = d[1]
                    (omit if self.rng.random() < 0.5 else nones).append(k)
                elif d is not None and d[0] == "sig" and self.rng.random() < 0.35:
                    v = d[1]
                    omit.append(k)
                elif v is None and self.rng.random() < 0.5:
                    omit.append(k)
            fields.append(v)
        i = Inst(cls, fields, omit=omit, nones=nones)
        self.made.append(i)
        return i

    def present(self, t: Any, avoid: Any = None) -> Any:
        """A deterministic value that is 'there': no None, lists of two, an enumeration literal other than ``avoid``."""
        if isinstance(t, mm.OptionalOf):
            return self.present(t.item, avoid)
        if isinstance(t, mm.ListOf):
            return [self.present(t.item, avoid), self.present(t.item, avoid)]
        if isinstance(t, mm.Prim):
            return [x for x in LEAF_VALUES[t.name] if x != avoid][-1]
        x = self.mm.find(t.name)
        if isinstance(x, mm.Enum):
            return [EnumVal(x.name, li.name) for li in x.literals if EnumVal(x.name, li.name) != avoid][-1]
        if isinstance(x, mm.ConstrainedPrimitive):
            return LEAF_VALUES[x.base][1]
        cands = [c for c in self.concrete_of(t.name) if self.req[c] < 10**6]
        self.counter += 1
        return self.instance(cands[self.counter % len(cands)], 1)


def required_depth(m: mm.MM) -> Dict[str, int]:
    """Smallest depth at which every class can be instantiated (required class-typed properties); inf if impossible."""
    INF = 10**6
    d = {c.name: INF for c in m.classes}

    def need(t: Any) -> int:
        if isinstance(t, (mm.OptionalOf, mm.ListOf, mm.Prim)):
            return 0
        x = m.find(t.name)
        if not isinstance(x, mm.Class):
            return 0
        cands = ([] if x.abstract else [x.name]) + mm.concrete_descendants(m, x.name)
        return min([d[c] for c in cands], default=INF)

    changed = True
    while changed:
        changed = False
        for c in m.classes:
            if c.abstract:
                continue
            v = 1 + max([need(p.type) for p, _ in mm.all_props(m, c.name)], default=0)
            if v < d[c.name]:
                d[c.name] = v
                changed = True
    return d


# ---- the seed-independent enumerated part

def shapes_model() -> Tuple[mm.MM, Dict[str, Any]]:
    """One holder class per type shape (+ the classes they refer to)."""
    shapes = {
        "prim": P("int"), "oprim": O(P("str")), "en": R("Color"), "oen": O(R("Color")), "cp": R("Short_text"), "ocp": O(R("Short_text")),
        "c": R("Leaf"), "oc": O(R("Leaf")), "a": R("Shape"), "oa": O(R("Shape")), "k": R("Parcel"), "ok": O(R("Parcel")),
        "lc": L(R("Leaf")), "olc": O(L(R("Leaf"))), "la": L(R("Shape")), "ola": O(L(R("Shape"))), "lk": L(R("Parcel")),
        "lp": L(P("int")), "olp": O(L(P("str"))), "le": L(R("Color")), "ole": O(L(R("Color"))), "lcp": L(R("Short_text")),
        "llc": L(L(R("Leaf"))), "ollc": O(L(L(R("Leaf")))), "lla": L(L(R("Shape"))), "llp": L(L(P("int"))), "lllc": L(L(L(R("Leaf")))),
        "ollp": O(L(L(P("int")))),
    }
    classes = [
        mm.Class("Leaf", props=[mm.Prop("ident", P("int")), mm.Prop("label", O(P("str")))], with_model_type=True, description="Represent a leaf."),
        mm.Class("Shape", abstract=True, props=[mm.Prop("ident", P("int"))], with_model_type=True, description="Represent a shape."),
        mm.Class("Circle", bases=["Shape"], props=[mm.Prop("center", O(R("Leaf")))], description="Represent a circle."),
        mm.Class("Polygon", bases=["Shape"], props=[mm.Prop("corners", L(R("Leaf"))), mm.Prop("inner", O(L(R("Shape"))))], description="Represent a polygon."),
        mm.Class("Parcel", props=[mm.Prop("ident", P("int")), mm.Prop("content", O(R("Leaf")))], with_model_type=True, description="Represent a parcel."),
        mm.Class("Chest", bases=["Parcel"], props=[mm.Prop("lid", R("Leaf"))], description="Represent a chest."),
    ]
    defaults: Dict[str, Any] = {}
    for k, t in shapes.items():
        c = mm.Class(f"Holder_{k}", props=[mm.Prop("ident", P("int")), mm.Prop("first_leaf", O(R("Leaf"))), mm.Prop("held", t), mm.Prop("last_leaf", O(R("Leaf")))],
                     with_model_type=True, description="Represent a holder.")
        classes.append(c)
    # X_or_default accessors on an abstract parent, inherited by two concrete classes
    classes.append(mm.Class("With_defaults", abstract=True, with_model_type=True, description="Represent defaults.", props=[
        mm.Prop("ident", P("int")), mm.Prop("kind", O(R("Color"))), mm.Prop("level", O(P("int"))), mm.Prop("remark", O(P("str"))), mm.Prop("flag", O(P("bool")))],
        methods=[mm.Method("kind_or_default", returns=R("Color")), mm.Method("level_or_default", returns=P("int")),
                 mm.Method("remark_or_default", returns=P("str")), mm.Method("flag_or_default", returns=P("bool"))]))
    defaults.update({"With_defaults.kind_or_default": EnumVal("Color", "Green"), "With_defaults.level_or_default": 7,
                     "With_defaults.remark_or_default": "say \"hi\"", "With_defaults.flag_or_default": False})
    classes.append(mm.Class("Plain_defaults", bases=["With_defaults"], description="Represent plain defaults."))
    classes.append(mm.Class("More_defaults", bases=["With_defaults"], props=[mm.Prop("weight", O(P("float")))],
                            methods=[mm.Method("weight_or_default", returns=P("float"))], description="Represent more defaults."))
    defaults["More_defaults.weight_or_default"] = 2.5
    m = mm.MM(classes=classes, enums=[mm.Enum.of("Color", [("Red", "RED"), ("Green", "green")], description="Represent colors.")],
              constrained_primitives=[mm.ConstrainedPrimitive("Short_text", "str", description="Represent a short text.")])
    return m, defaults


def ordering_model() -> Tuple[mm.MM, Dict[str, Any]]:
    """Inherited properties interleaved with own ones, a diamond, a concrete class with a concrete descendant."""
    leaf = mm.Class("Leaf", props=[mm.Prop("ident", P("int"))], with_model_type=True, description="Represent a leaf.")
    classes = [
        leaf,
        mm.Class("Ground", abstract=True, props=[mm.Prop("ident", P("int")), mm.Prop("first", R("Leaf")), mm.Prop("many", L(R("Leaf")))], with_model_type=True, description="Represent a ground."),
        mm.Class("Left", abstract=True, bases=["Ground"], props=[mm.Prop("left_one", O(R("Leaf"))), mm.Prop("tags", O(L(P("str"))))], description="Represent left."),
        mm.Class("Right", abstract=True, bases=["Ground"], props=[mm.Prop("right_many", O(L(R("Leaf"))))], description="Represent right."),
        mm.Class("Both", bases=["Left", "Right"], props=[mm.Prop("own", R("Leaf")), mm.Prop("again", O(R("Both")))], description="Represent both."),
        mm.Class("Both_more", bases=["Both"], props=[mm.Prop("extra", L(R("Ground")))], description="Represent both and more."),
        mm.Class("Only_left", bases=["Left"], props=[mm.Prop("z_last", O(R("Ground")))], description="Represent only left."),
    ]
    return mm.MM(classes=classes), {}


def enumerated_values(b: Builder, t: Any) -> List[Any]:
    """{None, empty list, one, several} for a shape (where the type admits them); nested lists get empty members."""

    def thunks(tt: Any) -> List[Any]:
        if isinstance(tt, mm.OptionalOf):
            return [lambda: None] + thunks(tt.item)
        if isinstance(tt, mm.ListOf):
            inner = thunks(tt.item)
            several = (inner * 3)[: max(3, len(inner))]
            return [lambda: [], lambda: [inner[-1]()], lambda: [f() for f in several]]
        x = b.mm.find(tt.name) if isinstance(tt, mm.Ref) else None
        if isinstance(x, mm.Class):
            cs = b.concrete_of(x.name)
            return [(lambda c=c: b.instance(c, 0)) for c in cs] + [(lambda c=c: b.instance(c, 2)) for c in cs]
        return [lambda: b.value(tt, 1)]

    return [f() for f in thunks(t)]


def enumerated_trees() -> Iterator[Tuple[mm.MM, Dict[str, Any], List[Inst], str]]:
    rng = random.Random(20290)  # fixed: this part is seed independent
    m, defaults = shapes_model()
    b = Builder(m, rng)
    trees: List[Inst] = []
    for c in m.classes:
        if not c.name.startswith("Holder_"):
            continue
        held = c.props[2].type
        for v in enumerated_values(b, held):
            for before, after in ((None, None), (b.instance("Leaf", 0), b.instance("Leaf", 0))):
                b.counter += 1
                trees.append(Inst(c.name, [b.counter, before, v, after]))
    for cls in ("Plain_defaults", "More_defaults"):
        for mask in range(16):
            b.counter += 1
            vals = [EnumVal("Color", "Red") if mask & 1 else None, 0 if mask & 2 else None, "" if mask & 4 else None, True if mask & 8 else None]
            trees.append(Inst(cls, [b.counter] + vals + ([None if mask & 1 else 0.0] if cls == "More_defaults" else [])))
    yield m, defaults, trees, "enumerated"
    m2, d2 = ordering_model()
    b2 = Builder(m2, rng)
    yield m2, d2, [b2.instance(c, d) for c in ("Both", "Both_more", "Only_left") for d in (1, 2, 3, 4)], "enumerated"


# ---- constructors with declared defaults (added after the seeded change C29-6)

#: kind of a property with a default -> (type, where the default is declared, the default); ``E`` gets its literal by position
CTOR_KINDS: Dict[str, Tuple[Any, Optional[str], Any]] = {
    "N": (O(R("Leaf")), None, None),                      # optional, no declared default (the argument defaults to None)
    "Lc": (O(L(R("Leaf"))), "stmt", ["list"]),            # `[]`-default statements over every kind of list
    "Ls": (O(L(P("str"))), "stmt", ["list"]),
    "Ll": (O(L(L(R("Leaf")))), "stmt", ["list"]),
    "Le": (O(L(R("Color"))), "stmt", ["list"]),
    "E": (O(R("Color")), "stmt", ["enum", "Color", None]),  # enumeration literal default statement
    "Lr": (L(R("Leaf")), "stmt", ["list"]),               # a REQUIRED argument with a `[]`-default statement
    "Pi": (P("int"), "sig", 7),                           # primitive defaults in the signature
    "Ps": (P("str"), "sig", "say \"hi\""),
    "Pb": (P("bool"), "sig", True),
    "Pf": (P("float"), "sig", 2.5),
    "S": (R("Color"), "sig", EnumVal("Color", "Green")),  # enumeration literal default in the signature
}
CTOR_LITERALS = ["Red", "Green", "Blue"]


def ctor_class(name: str, kinds: Sequence[str], *, decl: Optional[Sequence[int]] = None, forms: str = "isnot", bases: Sequence[str] = (),
               super_at: int = 0, abstract: bool = False, impl: bool = False, ident: bool = True, first_literal: int = 0, tag: str = "") -> mm.Class:
    """A class with one property ``<letter>_<kind>`` per entry of ``kinds``, ASSIGNED in that order and DECLARED in the order
    ``decl`` (indices into ``kinds``; default: the same); ``forms``: ``isnot`` | ``is`` | ``mixed`` (alternating)."""
    names = [f"{tag}{'abcdefgh'[j]}_{k.lower()}" for j, k in enumerate(kinds)]  # (``tag``: distinct names along a hierarchy)
    spec: Dict[str, Any] = {"order": list(names), "stmt": {}, "sig": {}}
    if super_at:
        spec["super_at"] = super_at
    props: Dict[str, mm.Prop] = {}
    for j, (k, n) in enumerate(zip(kinds, names)):
        t, where, d = CTOR_KINDS[k]
        props[n] = mm.Prop(n, t)
        if where == "stmt":
            dd = list(d)
            if dd[0] == "enum":
                dd[2] = CTOR_LITERALS[(first_literal + j) % 3]
            spec["stmt"][n] = {"d": dd, "form": forms if forms != "mixed" else ("is" if j % 2 else "isnot")}
        elif where == "sig":
            spec["sig"][n] = W.jsonable(d)
    own = [props[names[j]] for j in (decl if decl is not None else range(len(kinds)))]
    c = mm.Class(name, bases=list(bases), abstract=abstract, props=([mm.Prop("ident", P("int"))] if ident and not bases else []) + own,
                 with_model_type=True if not bases else None, description="Represent defaults.", impl_specific=impl)
    return with_cspec(c, spec)


def ctor_model() -> Tuple[mm.MM, Dict[str, Any]]:
    """Constructors with default values of every kind the front end accepts, in every order and combination (one model)."""
    classes = [mm.Class("Leaf", props=[mm.Prop("ident", P("int")), mm.Prop("label", O(P("str")))], with_model_type=True, description="Represent a leaf.")]
    # every ORDERED pair of kinds (the same kind twice too); the declaration order is the reverse for every second class
    pair_kinds = ["N", "Lc", "Ls", "E", "Pi", "S"]
    for i, k1 in enumerate(pair_kinds):
        for j, k2 in enumerate(pair_kinds):
            classes.append(ctor_class(f"Pair_{k1}_{k2}", [k1, k2], decl=[1, 0] if (i + j) % 2 else None, forms="mixed" if (i * 6 + j) % 3 == 0 else "isnot",
                                      first_literal=i + j))
    # every order of three statement defaults
    import itertools

    for perm in itertools.permutations(["Lc", "E", "Ls"]):
        classes.append(ctor_class("Triple_" + "_".join(perm), list(perm), decl=[2, 0, 1]))
    # longer constructors: every kind at several positions, repeated kinds, both syntactic forms
    for n, (kinds, forms) in enumerate([
        (["E", "Ll", "Pf", "Lr", "N"], "isnot"), (["Lr", "Ps", "E", "Lc", "Pb"], "is"), (["Ls", "N", "E", "E", "Ll"], "mixed"),
        (["S", "E", "Le", "Pi", "Ls"], "is"), (["Pb", "Lc", "Lc", "E", "S"], "isnot"), (["E", "Pf", "Ps", "Ls", "Lr"], "mixed"),
        (["N", "N", "E", "Ll", "Lc"], "isnot"), (["Lc", "E", "Ls", "E", "Le", "E"], "mixed"),
    ]):
        classes.append(ctor_class(f"Long_{n}", kinds, decl=list(reversed(range(len(kinds)))) if n % 2 else None, forms=forms, first_literal=n))
    # defaults split between the constructors of a hierarchy; the super call before / between / after the assignments
    classes += [
        ctor_class("Base_d", tag="ba", kinds=["E", "Lc"], abstract=True),
        ctor_class("Child_a", tag="ca", kinds=["Ls", "E"], bases=["Base_d"], first_literal=2),
        ctor_class("Child_b", tag="cb", kinds=["E", "Lc"], bases=["Base_d"], super_at=1, first_literal=1),
        ctor_class("Child_c", tag="cc", kinds=["Lc", "E", "N"], bases=["Base_d"], super_at=3),
        ctor_class("Grand_a", tag="ga", kinds=["Lc"], bases=["Child_a"], super_at=1),
        ctor_class("Parent_s", tag="ps", kinds=["Pi", "S", "Lc"]),
        ctor_class("Kid_s", tag="ks", kinds=["E", "Ls"], bases=["Parent_s"], super_at=2),
        ctor_class("Left_d", tag="le", kinds=["Lc"], abstract=True),
        ctor_class("Right_d", tag="ri", kinds=["E"], abstract=True, ident=False, first_literal=1),
        ctor_class("Both_d", tag="bo", kinds=["Ls", "E"], bases=["Left_d", "Right_d"], super_at=1),
        # a hand-written class with defaults and a generated class below it, and the other way round
        ctor_class("Hand_d", tag="hd", kinds=["E", "Lc", "Pi"], impl=True),
        ctor_class("Hand_kid", tag="hk", kinds=["Ls", "E"], bases=["Hand_d"], first_literal=2),
        ctor_class("Hand_below", tag="hb", kinds=["E", "Lc"], bases=["Parent_s"], impl=True, super_at=1),
    ]
    # the classes above as nested instances
    classes.append(mm.Class("Bag", props=[mm.Prop("ident", P("int")), mm.Prop("things", L(R("Base_d"))), mm.Prop("one", O(R("Long_0"))),
                                          mm.Prop("hand", O(R("Hand_d"))), mm.Prop("parents", O(L(R("Parent_s"))))],
                            with_model_type=True, description="Represent a bag."))
    m = mm.MM(classes=classes, enums=[mm.Enum.of("Color", [("Red", "RED"), ("Green", "green"), ("Blue", "blue")], description="Represent colors.")])
    return m, {}


def ctor_states(n: int) -> List[Tuple[str, ...]]:
    """Which of ``n`` defaulted arguments are passed (P), left out (O), passed as None (N): everything for n <= 2, a covering slice above."""
    import itertools

    if n <= 1:
        return list(itertools.product("PON", repeat=n))
    if n == 2:
        return [st for st in itertools.product("PON", repeat=2) if st not in (("P", "N"), ("N", "P"))]
    out = [tuple("P" * n), tuple("O" * n), tuple("N" * n), tuple("ON"[i % 2] for i in range(n))]
    for j in range(n):
        out.append(tuple("O" if i == j else "P" for i in range(n)))
    if n == 3:
        out += list(itertools.product("PO", repeat=3))
    else:
        out += [tuple("P" if i == j else "O" for i in range(n)) for j in (0, n - 1)]
    seen: List[Tuple[str, ...]] = []
    for st in out:
        if st not in seen:
            seen.append(st)
    return seen


def ctor_trees(b: Builder, cname: str) -> List[Inst]:
    """Instances of a class for ``ctor_states`` of its defaulted arguments (own and inherited)."""
    m = b.mm
    props = mm.all_props(m, cname)
    slots = [k for k, (p, o) in enumerate(props) if p.name != "ident" and (declared_default(m, o, p.name) is not None or mm.is_optional(p.type))]
    out = []
    for states in ctor_states(len(slots)):
        b.counter += 1
        inst = Inst(cname, [None] * len(props))
        for k, (p, o) in enumerate(props):
            d = declared_default(m, o, p.name)
            state = states[slots.index(k)] if k in slots else "P"
            if state == "N" and not mm.is_optional(p.type):
                state = "O" if d is not None and d[0] == "sig" else "P"  # a required argument cannot be None
            if state == "O" and not (mm.is_optional(p.type) or (d is not None and d[0] == "sig")):
                state = "P"  # (a required argument with a `[]` statement but no default in the signature)
            if p.name == "ident":
                inst.fields[k] = b.counter
            elif state == "P":
                inst.fields[k] = b.present(p.type, avoid=None if d is None else d[1])
            else:
                inst.fields[k] = None if d is None else d[1]
                (inst.omit if state == "O" else inst.nones).append(k)
        out.append(inst)
    return out


def enumerated_ctor_trees() -> Iterator[Tuple[mm.MM, Dict[str, Any], List[Inst], str]]:
    rng = random.Random(20296)
    m, defaults = ctor_model()
    b = Builder(m, rng)
    trees: List[Inst] = []
    for c in m.classes:
        if not c.abstract and c.name not in ("Leaf", "Bag"):
            trees += ctor_trees(b, c.name)
    by_class: Dict[str, List[Inst]] = {}
    for t in trees:
        by_class.setdefault(t.cls, []).append(t)
    for k in range(4):
        b.counter += 1
        things = [copy.deepcopy(by_class[n][(k * 3 + j) % len(by_class[n])]) for j, n in enumerate(["Child_a", "Child_b", "Child_c", "Grand_a"])]
        trees.append(Inst("Bag", [b.counter, things, copy.deepcopy(by_class["Long_0"][k]), copy.deepcopy(by_class["Hand_d"][k + 1]),
                                  [copy.deepcopy(by_class[n][k + 2]) for n in ("Parent_s", "Kid_s", "Hand_below")]]))
    yield m, defaults, trees, "enumerated:ctor"
    # the literal / property names of the defaults in other name shapes
    slim = [t for k, t in enumerate(trees) if k % 4 == 0 or t.cls == "Bag"]
    yield rename_model(m, defaults, slim, type_shape=rotating(5), prop_shape=lambda owner, n, o=rotating(2): o(owner, n), lit_shape=rotating(1)) + ("enumerated:ctor:names",)


# ---- implementation-specific classes at every position (added after the seeded change C29-5)

IMPL_VARIANTS = [
    ("leaf", ["Leaf"]),                                              # a concrete leaf: property type and list item of every holder
    ("parents", ["Parcel", "Leaf"]),                                 # a concrete class with a generated descendant (an abstract class can not be implementation-specific)
    # below generated classes (abstract / concrete parent, inherited accessors); holders of generated classes
    ("children+holders", ["Circle", "Chest", "Plain_defaults", "Holder_c", "Holder_oc", "Holder_lc", "Holder_olc", "Holder_la", "Holder_ola", "Holder_llc",
                          "Holder_ollc", "Holder_lk", "Holder_ok", "Holder_oen"]),
    ("all", None),                                                   # every concrete class is hand-written: only the visitors / transformers are generated
]


def enumerated_impl_trees() -> Iterator[Tuple[mm.MM, Dict[str, Any], List[Inst], str]]:
    """The shapes model with hand-written (implementation-specific) classes at every position of the hierarchy / containment."""
    rng = random.Random(20295)
    for variant, names in IMPL_VARIANTS:
        m, defaults = shapes_model()
        for c in m.classes:
            if (names is None or c.name in names) and not c.abstract:
                c.impl_specific = True
        b = Builder(m, rng)
        trees: List[Inst] = []
        for c in m.classes:
            if not c.name.startswith("Holder_"):
                continue
            held = c.props[2].type
            # only the holders that HOLD or ARE a hand-written class (the others are the plain enumerated stream again)
            refs = {x.name for x in _refs(held)}
            touched = c.impl_specific or any(m.cls(r).impl_specific or any(m.cls(d).impl_specific for d in mm.descendants(m, r))
                                             for r in refs if isinstance(m.find(r), mm.Class))
            if not touched:
                continue
            vals = enumerated_values(b, held)
            for v in ([vals[0], vals[-1]] if len(vals) > 1 else vals):
                b.counter += 1
                trees.append(Inst(c.name, [b.counter, b.instance("Leaf", 0), v, b.instance("Leaf", 0)]))
        for cls in ("Plain_defaults", "More_defaults"):
            for mask in (0, 6, 9, 15):
                b.counter += 1
                vals = [EnumVal("Color", "Red") if mask & 1 else None, 0 if mask & 2 else None, "" if mask & 4 else None, True if mask & 8 else None]
                trees.append(Inst(cls, [b.counter] + vals + ([None if mask & 1 else 0.0] if cls == "More_defaults" else [])))
        yield m, defaults, trees, "enumerated:impl:" + variant


def _refs(t: Any) -> List[Any]:
    if isinstance(t, mm.Ref):
        return [t]
    if isinstance(t, (mm.ListOf, mm.OptionalOf)):
        return _refs(t.item)
    return []


# ---- histories: several meta-models generated one after the other in ONE process (added after the seeded change C29-4)
#
# The SDK generated for a model must not depend on what the process generated before.  The models of a history RE-USE names
# (and so the texts of type annotations: ``Item``, ``List[Item]``, ``Optional[List[Item]]`` …) for different kinds of things.

HISTORY_KINDS = ["cprim", "leaf", "enum", "deep", "impl", "abstract"]


def history_entity(name: str, kind: str, part: str) -> Tuple[List[mm.Class], List[mm.Enum], List[mm.ConstrainedPrimitive]]:
    """What the name ``name`` is in one model of a history."""
    ident = mm.Prop("ident", P("int"))
    if kind == "enum":
        return [], [mm.Enum.of(name, [("First", "first"), ("Second", "SECOND")], description="Represent an enumeration.")], []
    if kind == "cprim":
        return [], [], [mm.ConstrainedPrimitive(name, "str", description="Represent a constrained primitive.")]
    if kind == "leaf":
        return [mm.Class(name, props=[ident, mm.Prop("name", O(P("str")))], with_model_type=True, description="Represent a leaf.")], [], []
    if kind == "deep":
        return [mm.Class(name, props=[ident, mm.Prop("next_one", O(R(name))), mm.Prop("parts", L(R(part)))], with_model_type=True,
                         description="Represent a deep class.")], [], []
    if kind == "impl":
        return [mm.Class(name, props=[ident, mm.Prop("part", O(R(part)))], with_model_type=True, impl_specific=True, description="Represent a hand-written class.")], [], []
    assert kind == "abstract", kind
    return [
        mm.Class(name, abstract=True, props=[ident], with_model_type=True, description="Represent an abstract class."),
        mm.Class(name + "_a", bases=[name], props=[mm.Prop("part", O(R(part)))], description="Represent the first descendant."),
        mm.Class(name + "_b", bases=[name], props=[mm.Prop("inner", O(L(R(name))))], description="Represent the second descendant."),
    ], [], []


def history_model(k: int) -> Tuple[mm.MM, Dict[str, Any]]:
    """Model ``k`` of the history family: ``Item`` is ``HISTORY_KINDS[k]``, ``Tag`` is three kinds further; the holders have the
    same property names in every model (in a rotated order) so that every annotation text is re-used with another meaning."""
    n = len(HISTORY_KINDS)
    k %= n
    item_kind, tag_kind = HISTORY_KINDS[k], HISTORY_KINDS[(k + 3) % n]
    classes = [mm.Class("Part", props=[mm.Prop("ident", P("int")), mm.Prop("remark", O(P("str")))], with_model_type=True, description="Represent a part.")]
    enums: List[mm.Enum] = []
    cps: List[mm.ConstrainedPrimitive] = []
    for name, kind in (("Item", item_kind), ("Tag", tag_kind)):
        c, e, cp = history_entity(name, kind, "Part")
        classes += c
        enums += e
        cps += cp
    held = [mm.Prop("items", L(R("Item"))), mm.Prop("item", O(R("Item"))), mm.Prop("more_items", O(L(R("Item")))), mm.Prop("one", R("Item")),
            mm.Prop("grid", L(L(R("Item")))), mm.Prop("parts", L(R("Part"))), mm.Prop("tags", O(L(R("Tag")))), mm.Prop("tag", O(R("Tag")))]
    held = held[k:] + held[:k]
    classes.append(mm.Class("Holder", props=[mm.Prop("ident", P("int"))] + held, with_model_type=True, description="Represent a holder."))
    shelf = [mm.Prop("holder", R("Holder")), mm.Prop("spare", O(R("Item"))), mm.Prop("holders", O(L(R("Holder")))), mm.Prop("label", O(R("Tag")))]
    shelf = shelf[k % 4:] + shelf[:k % 4]
    classes.append(mm.Class("Shelf", props=[mm.Prop("ident", P("int"))] + shelf, with_model_type=True, description="Represent a shelf."))
    return mm.MM(classes=classes, enums=enums, constrained_primitives=cps), {}


def full_instance(b: Builder, cls: str, depth: int) -> Inst:
    """Every optional property set, every list with two members (down to ``depth``)."""
    def val(t: Any, d: int) -> Any:
        if isinstance(t, mm.OptionalOf):
            return val(t.item, d) if d > 0 else None
        if isinstance(t, mm.ListOf):
            return [val(t.item, d), val(t.item, d)] if d > 0 else []
        if isinstance(t, mm.Ref) and isinstance(b.mm.find(t.name), mm.Class):
            cands = [c for c in b.concrete_of(t.name) if b.req[c] < 10**6]
            b.counter += 1
            return full_instance(b, cands[b.counter % len(cands)], d - 1)
        return b.value(t, 1)

    b.counter += 1
    ident = b.counter
    return Inst(cls, [ident if (p.name == "ident" and p.type == P("int")) else val(p.type, depth) for p, _o in mm.all_props(b.mm, cls)])


def history_trees(m: mm.MM, rng: random.Random) -> List[Inst]:
    b = Builder(m, rng)
    trees = [full_instance(b, "Shelf", 3), full_instance(b, "Holder", 2), full_instance(b, "Holder", 1)]
    trees += [b.instance("Shelf", 4), b.instance("Holder", 3), b.instance("Holder", 2)]
    for c in m.classes:
        if c.name.startswith(("Item", "Tag")) and not c.abstract:
            trees.append(full_instance(b, c.name, 2))
    return trees


def enumerated_histories(quick: bool) -> List[List[int]]:
    """Histories over the family (indices into ``HISTORY_KINDS``): every model first (= generated ALONE) and every other model
    somewhere after it, in both directions — each ordered pair (earlier, later) occurs, each model directly after its two
    neighbours.  The thorough tier adds every ordered pair as a history of its own."""
    n = len(HISTORY_KINDS)
    out = [[(i + j) % n for j in range(n)] for i in range(n)] + [[(i - j) % n for j in range(n)] for i in range(n)]
    if not quick:
        out += [[i, j] for i in range(n) for j in range(n) if i != j] + [[i, j, i] for i in range(n) for j in range(n) if i < j]
    return out


def colliding_history(rng: random.Random, length: int) -> List[Tuple[mm.MM, Dict[str, Any], List[Inst]]]:
    """Random focused models whose type names are re-used across the models for OTHER kinds: a class of one model carries the
    name of the enumeration / a constrained primitive of its predecessor and the other way round."""
    out: List[Tuple[mm.MM, Dict[str, Any], List[Inst]]] = []
    prev_classes: List[str] = []
    for _ in range(length):
        m, defaults = random_model(rng)
        b = Builder(m, rng)
        concrete = [c.name for c in m.classes if not c.abstract]
        trees = [t for t in (b.instance(rng.choice(concrete), rng.choice([2, 3, 3, 4])) for _ in range(8)) if len(W.walk_insts(t)) <= 60]
        own = [c.name for c in m.classes]
        free = [n for n in prev_classes if n not in own and n not in ("Hue", "Code", "Count")]
        rng.shuffle(free)
        tmap: Dict[str, str] = {}
        for cname, other in zip(rng.sample(own, min(len(own), 3)), ["Hue", "Code", "Count"]):
            if free and rng.random() < 0.8:
                tmap[cname], tmap[other] = other, free.pop()  # the class takes the enumeration's / primitive's name; that one a class name of before
        if tmap:
            m, defaults, trees = apply_renaming(m, defaults, trees, tmap, {}, {})
        prev_classes = [c.name for c in m.classes]
        out.append((m, defaults, trees))
    return out


# ---- name shapes (added after the seeded change C29-3)
#
# The generated code must use the PYTHON name of a property / class / literal everywhere, whatever the shape of the
# meta-model identifier.  Every shape ``common.IDENTIFIER_RE`` + the reserved-name rules of the front end accept is
# produced by DECORATING a plain base name, so distinct base names stay distinct (also after any case / underscore
# normalisation) and no reserved word can appear.

NAME_SHAPES = [
    "plain",         # held
    "abbr-last",     # held_ID            (upper-case abbreviation as the last part: referred_semantic_ID)
    "abbr-plural",   # held_IDs           (specific_asset_IDs)
    "abbr-first",    # URL_held           (URL_of_manual)
    "abbr-mid",      # held_URL_of
    "digit-part",    # held_2
    "digit-glued",   # held2
    "letter-part",   # held_x             (single lower-case letter part)
    "letter-first",  # a_held
    "upper-letter",  # held_X             (single upper-case letter part)
    "camel",         # heldThing          (mixed case inside one part)
    "cap-part",      # held_Thing         (capitalised later part)
    "upper",         # HELD               (everything upper case)
    "digit-mixed",   # held_1a_B2
    "double-us",     # held__b            (empty part)
    "trail-us",      # held_
    "lead-us",       # _held              (properties only; types and literals fall back to `cap-first`)
    "cap-first",     # Held               (a capitalised property / a type as it is)
]


def shape_name(base: str, shape: str, kind: str = "prop") -> str:
    """``base`` decorated with the name shape; ``kind``: ``prop`` | ``type`` | ``literal``."""
    if shape == "plain":
        s = base
    elif shape == "abbr-last":
        s = base + "_ID"
    elif shape == "abbr-plural":
        s = base + "_IDs"
    elif shape == "abbr-first":
        s = "URL_" + base
    elif shape == "abbr-mid":
        s = base + "_URL_of"
    elif shape == "digit-part":
        s = base + "_2"
    elif shape == "digit-glued":
        s = base + "2"
    elif shape == "letter-part":
        s = base + "_x"
    elif shape == "letter-first":
        s = ("A_" if kind != "prop" else "a_") + base
    elif shape == "upper-letter":
        s = base + "_X"
    elif shape == "camel":
        s = base + "Thing"
    elif shape == "cap-part":
        s = base + "_Thing"
    elif shape == "upper":
        s = base.upper()
    elif shape == "digit-mixed":
        s = base + "_1a_B2"
    elif shape == "double-us":
        s = base + "__b"
    elif shape == "trail-us":
        s = base + "_"
    elif shape == "lead-us" and kind == "prop":
        s = "_" + base
    elif shape in ("lead-us", "cap-first"):
        s = base[0].upper() + base[1:]
    else:
        raise ValueError(shape)
    if kind == "type" and not s[0].isupper():
        s = s[0].upper() + s[1:]
    return s


def rename_model(m: mm.MM, defaults: Dict[str, Any], trees: Sequence[Inst], type_shape: Any, prop_shape: Any, lit_shape: Any
                 ) -> Tuple[mm.MM, Dict[str, Any], List[Inst]]:
    """A copy of (model, defaults, trees) with every name decorated: ``type_shape(name)``, ``prop_shape(owner, name)``,
    ``lit_shape(enum, name)`` give the shape.  ``ident`` (the harness' identity property) keeps its name."""
    tmap = {x.name: shape_name(x.name, type_shape(x.name), "type") for x in list(m.classes) + list(m.enums) + list(m.constrained_primitives)}
    pmap = {(c.name, p.name): (p.name if p.name == "ident" else shape_name(p.name, prop_shape(c.name, p.name), "prop")) for c in m.classes for p in c.props}
    lmap = {(e.name, li.name): shape_name(li.name, lit_shape(e.name, li.name), "literal") for e in m.enums for li in e.literals}
    return apply_renaming(m, defaults, trees, tmap, pmap, lmap)


def apply_renaming(m: mm.MM, defaults: Dict[str, Any], trees: Sequence[Inst], tmap: Dict[str, str], pmap: Dict[Tuple[str, str], str],
                   lmap: Dict[Tuple[str, str], str]) -> Tuple[mm.MM, Dict[str, Any], List[Inst]]:
    """A copy of (model, defaults, trees) renamed by explicit maps: type name, (class, own property), (enumeration, literal);
    names that are not in a map stay."""
    tmap = {**{x.name: x.name for x in list(m.classes) + list(m.enums) + list(m.constrained_primitives)}, **tmap}
    pmap = {**{(c.name, p.name): p.name for c in m.classes for p in c.props}, **pmap}
    lmap = {**{(e.name, li.name): li.name for e in m.enums for li in e.literals}, **lmap}

    def ty(t: Any) -> Any:
        if isinstance(t, mm.Ref):
            return R(tmap[t.name])
        if isinstance(t, mm.ListOf):
            return L(ty(t.item))
        if isinstance(t, mm.OptionalOf):
            return O(ty(t.item))
        return t

    def val(v: Any) -> Any:
        if isinstance(v, Inst):
            return Inst(tmap[v.cls], [val(x) for x in v.fields], omit=list(v.omit), nones=list(v.nones))
        if isinstance(v, list):
            return [val(x) for x in v]
        if isinstance(v, EnumVal):
            return EnumVal(tmap[v.enum], lmap[(v.enum, v.literal)])
        return v

    def method(cname: str, me_name: str) -> str:
        pname = me_name[: -len("_or_default")]
        owner = next(o for p, o in mm.all_props(m, cname) if p.name == pname)
        return pmap[(owner, pname)] + "_or_default"

    def spec(c: mm.Class) -> Optional[Dict[str, Any]]:
        sp = cspec_of(c)
        if not sp:
            return None
        new: Dict[str, Any] = {k: v for k, v in sp.items() if k not in ("order", "stmt", "sig")}
        if "order" in sp:
            new["order"] = [pmap[(c.name, n)] for n in sp["order"]]
        if "stmt" in sp:
            new["stmt"] = {pmap[(c.name, n)]: {**st, "d": st["d"] if st["d"][0] == "list" else ["enum", tmap[st["d"][1]], lmap[(st["d"][1], st["d"][2])]]}
                           for n, st in sp["stmt"].items()}
        if "sig" in sp:
            new["sig"] = {pmap[(c.name, n)]: W.jsonable(val(W.from_jsonable(v))) for n, v in sp["sig"].items()}
        return new

    out = mm.MM(order=[tmap.get(n, n) for n in m.order] if m.order is not None else None)
    for c in m.classes:
        out.classes.append(with_cspec(mm.Class(
            tmap[c.name], bases=[tmap[b] for b in c.bases], abstract=c.abstract, with_model_type=c.with_model_type,
            props=[mm.Prop(pmap[(c.name, p.name)], ty(p.type)) for p in c.props],
            methods=[mm.Method(method(c.name, me.name), returns=ty(me.returns), impl_specific=True) for me in c.methods],
            description=_descr(tmap[c.name]), impl_specific=c.impl_specific), spec(c)))
    out.enums = [mm.Enum.of(tmap[e.name], [(lmap[(e.name, li.name)], li.value) for li in e.literals], description="Represent an enumeration.") for e in m.enums]
    out.constrained_primitives = [
        mm.ConstrainedPrimitive(tmap[cp.name], cp.base, [tmap[b] for b in cp.bases], description="Represent a constrained primitive.")
        for cp in m.constrained_primitives]
    new_defaults = {}
    for k, v in defaults.items():
        cname, me_name = k.split(".", 1)
        new_defaults[f"{tmap[cname]}.{method(cname, me_name)}"] = val(v)
    # shared objects stay shared: one copy per original instance
    memo: Dict[int, Inst] = {}

    def tree(v: Any) -> Any:
        if isinstance(v, Inst):
            if id(v) not in memo:
                memo[id(v)] = Inst(tmap[v.cls], [], omit=list(v.omit), nones=list(v.nones))
                memo[id(v)].fields = [tree(x) for x in v.fields]
            return memo[id(v)]
        if isinstance(v, list):
            return [tree(x) for x in v]
        return val(v)

    return out, new_defaults, [tree(t) for t in trees]


def rotating(offset: int, shapes: Sequence[str] = tuple(NAME_SHAPES)) -> Any:
    """A shape chooser that hands the shapes out round-robin in the order of the calls, starting at ``offset``
    (per distinct argument: asking twice for the same entity gives the same shape)."""
    seen: Dict[Any, str] = {}

    def pick(*key: Any) -> str:
        if key not in seen:
            seen[key] = shapes[(offset + len(seen)) % len(shapes)]
        return seen[key]

    return pick


def enumerated_named_trees() -> Iterator[Tuple[mm.MM, Dict[str, Any], List[Inst], str]]:
    """The enumerated models once per NAME SHAPE (seed independent): in model ``j`` the held property of EVERY type shape,
    the class names, the enumeration, its literals and the constrained primitive carry shape ``j``; the neighbour
    properties and the accessor properties rotate through the other shapes.  The instance trees are a slice of the
    plain ones (None / empty / several + both neighbours set), enough to make every generated statement run."""
    rng = random.Random(20291)
    m, defaults = shapes_model()
    b = Builder(m, rng)
    trees: List[Inst] = []
    for c in m.classes:
        if not c.name.startswith("Holder_"):
            continue
        vals = enumerated_values(b, c.props[2].type)
        picked = [vals[0], vals[-1]] if len(vals) > 1 else vals
        for v in picked:
            b.counter += 1
            trees.append(Inst(c.name, [b.counter, b.instance("Leaf", 0), v, b.instance("Leaf", 0)]))
    for cls in ("Plain_defaults", "More_defaults"):
        for mask in (0, 5, 10, 15):
            b.counter += 1
            vals = [EnumVal("Color", "Red") if mask & 1 else None, 0 if mask & 2 else None, "" if mask & 4 else None, True if mask & 8 else None]
            trees.append(Inst(cls, [b.counter] + vals + ([None if mask & 1 else 0.0] if cls == "More_defaults" else [])))
    for j, shape in enumerate(NAME_SHAPES):
        if shape == "plain":
            continue
        others = rotating(j + 1)
        yield rename_model(
            m, defaults, trees,
            type_shape=lambda n, s=shape: s,
            prop_shape=lambda owner, n, s=shape, o=others: s if n == "held" else o(owner if not owner.startswith("Holder_") else "Holder", n),
            lit_shape=lambda e, n, s=shape: s,
        ) + ("enumerated:names",)
    # the inheritance-order model: every property another shape (inherited ones are read through the subclass)
    m2, d2 = ordering_model()
    b2 = Builder(m2, rng)
    trees2 = [b2.instance(c, d) for c in ("Both", "Both_more", "Only_left") for d in (2, 4)]
    for offset in (1, 7, 13):
        pick = rotating(offset)
        yield rename_model(m2, d2, trees2, type_shape=rotating(offset + 3), prop_shape=lambda owner, n, p=pick: p(owner, n), lit_shape=rotating(offset)) + ("enumerated:names",)


def random_shapes(rng: random.Random, p_plain: float = 0.4) -> Any:
    """A shape chooser for the seeded streams: plain with probability ``p_plain``, otherwise a random shape (stable per entity)."""
    seen: Dict[Any, str] = {}

    def pick(*key: Any) -> str:
        if key not in seen:
            seen[key] = "plain" if rng.random() < p_plain else rng.choice(NAME_SHAPES)
        return seen[key]

    return pick


def shaped(rng: random.Random, m: mm.MM, defaults: Dict[str, Any], trees: Sequence[Inst]) -> Tuple[mm.MM, Dict[str, Any], List[Inst]]:
    """(model, defaults, trees) with randomly shaped names; the input itself when two members of one class would
    become equal up to case / underscores (a collision is C21's subject, such a model is not accepted)."""
    pick = random_shapes(rng)
    m2, d2, t2 = rename_model(m, defaults, trees, type_shape=lambda n: pick("t", n), prop_shape=lambda o, n: pick("p", o, n), lit_shape=lambda e, n: pick("l", e, n))

    def key(n: str) -> str:
        return n.lower().replace("_", "")

    for c in m2.classes:
        names = [key(p.name) for p, _ in mm.all_props(m2, c.name)] + [key(me.name) for k in [c.name] + mm.ancestors(m2, c.name) for me in m2.cls(k).methods]
        if len(set(names)) != len(names):
            return m, defaults, list(trees)
    tnames = [key(x.name) for x in list(m2.classes) + list(m2.enums) + list(m2.constrained_primitives)]
    if len(set(tnames)) != len(tnames) or any(len({key(li.name) for li in e.literals}) != len(e.literals) for e in m2.enums):
        return m, defaults, list(trees)
    return m2, d2, t2


# ---- the random part

WORDS = ["alpha", "bravo", "cedar", "dune", "ember", "fjord", "grove", "harbor", "iris", "jade", "kelp", "lotus", "maple", "nectar",
         "onyx", "pearl", "quartz", "raven", "sable", "tulip", "umber", "velvet", "willow", "xenon", "yarrow", "zephyr"]


def has_nested_list(m: mm.MM) -> bool:
    def nested(t: Any) -> bool:
        if isinstance(t, mm.OptionalOf):
            return nested(t.item)
        if isinstance(t, mm.ListOf):
            return isinstance(t.item, mm.ListOf) or nested(t.item)
        return False

    return any(nested(p.type) for c in m.classes for p in c.props)


def random_model(rng: random.Random) -> Tuple[mm.MM, Dict[str, Any]]:
    """A focused random meta-model: class DAG, every root carries ``ident``, properties over the whole type grammar."""
    shapes = ["", "o", "l", "ol", "l", "ol", "ll", "oll", "lll"] if rng.random() < 0.6 else ["", "o", "l", "ol"]
    names = rng.sample(WORDS, 10)
    n = rng.randint(2, 6)
    cls_names = [w.capitalize() + ("_" + rng.choice(WORDS) if rng.random() < 0.3 else "") for w in names[:n]]
    enums = [mm.Enum.of("Hue", [("Dark", "dark"), ("Light", "LIGHT"), ("Mid_tone", "mid tone")], description="Represent hues.")]
    cps = [mm.ConstrainedPrimitive("Code", "str", description="Represent a code."), mm.ConstrainedPrimitive("Count", "int", description="Represent a count.")]
    classes: List[mm.Class] = []
    defaults: Dict[str, Any] = {}
    used_props: Dict[str, set] = {}
    for i, name in enumerate(cls_names):
        bases: List[str] = []
        if i > 0 and rng.random() < 0.6:
            k = 1 if rng.random() < 0.75 else 2
            bases = sorted(rng.sample(cls_names[:i], min(k, i)), key=cls_names.index)
            # python needs a consistent MRO: drop a base that is an ancestor of another base
            tmp = mm.MM(classes=classes)
            bases = [x for x in bases if not any(x in mm.ancestors(tmp, y) for y in bases if y != x)]
            # the same property name from two unrelated parents crashes the front end (ViolationError; C01's subject)
            if len(bases) == 2:
                owners: Dict[str, str] = {}
                for bname in bases:
                    for p, owner in mm.all_props(tmp, bname):
                        if owners.setdefault(p.name, owner) != owner:
                            bases = bases[:1]
                            break
                    if len(bases) == 1:
                        break
        c = mm.Class(name, bases=bases, abstract=False, description=f"Represent {name}.")
        if not bases:
            c.with_model_type = True
            c.props.append(mm.Prop("ident", P("int")))
        classes.append(c)
    m = mm.MM(classes=classes, enums=enums, constrained_primitives=cps)
    # abstract: only classes that will have a concrete descendant
    for c in classes:
        if mm.descendants(m, c.name) and rng.random() < 0.5:
            c.abstract = True
    for c in classes:
        if c.abstract and not mm.concrete_descendants(m, c.name):
            c.abstract = False
    depth_ok = [c.name for c in classes]
    for i, c in enumerate(classes):
        inherited = {p.name for p, _ in mm.all_props(m, c.name)}
        taken = set(inherited)
        for d in mm.descendants(m, c.name):
            taken |= used_props.get(d, set())
        for _ in range(rng.randint(0, 4)):
            pname = rng.choice(WORDS) + rng.choice(["", "_" + rng.choice(WORDS), "_x"])
            if pname in taken or any(pname in used_props.get(a, set()) for a in cls_names):
                continue
            r = rng.random()
            if r < 0.55:
                # required references only to EARLIER classes that can be instantiated (no required cycles)
                base_t: Any = R(rng.choice(depth_ok))
            elif r < 0.7:
                base_t = R(rng.choice(["Hue", "Code", "Count"]))
            else:
                base_t = P(rng.choice(["int", "str", "bool", "float", "bytes"]))
            shape = rng.choice(shapes)
            if shape in ("", "l", "ll", "lll") and isinstance(base_t, mm.Ref) and isinstance(m.find(base_t.name), mm.Class):
                if shape == "" and cls_names.index(base_t.name) >= i:
                    shape = "o"
            t = base_t
            for ch in reversed(shape):
                t = L(t) if ch == "l" else O(t)
            c.props.append(mm.Prop(pname, t))
            taken.add(pname)
            used_props.setdefault(c.name, set()).add(pname)
            if isinstance(t, mm.OptionalOf) and not isinstance(t.item, (mm.ListOf,)) and not (isinstance(t.item, mm.Ref) and isinstance(m.find(t.item.name), mm.Class)) and rng.random() < 0.5:
                inner = t.item
                kind = inner.name if isinstance(inner, mm.Prim) else ("enum" if inner.name == "Hue" else {"Code": "str", "Count": "int"}[inner.name])
                if kind != "bytes":
                    c.methods.append(mm.Method(f"{pname}_or_default", returns=inner))
                    defaults[f"{c.name}.{pname}_or_default"] = (
                        EnumVal("Hue", rng.choice(["Dark", "Light", "Mid_tone"])) if kind == "enum" else rng.choice(LEAF_VALUES[kind]))
    # no class may need itself: make required class-typed properties optional until every concrete class is instantiable
    for _ in range(20):
        req = required_depth(m)
        bad = [c for c in classes if not c.abstract and req[c.name] >= 10**6]
        if not bad:
            break
        for c in bad:
            for p, _owner in mm.all_props(m, c.name):
                if isinstance(p.type, mm.Ref) and isinstance(m.find(p.type.name), mm.Class):
                    p.type = O(p.type)
    return m, defaults


def platform_model(rng: random.Random) -> Tuple[mm.MM, Dict[str, Any]]:
    """A model of the shared platform generator, projected to what the types module is made of."""
    ft = mm.Features()
    ft.pattern_functions = ft.transpilable_functions = ft.schema_invariants = ft.general_invariants = ft.quantifiers = False
    ft.constants = ft.constant_sets = ft.descriptions = False
    ft.lists_of_non_classes = True
    ft.nested_lists = True
    return project(mm.random_mm(rng, rng.randint(3, 7), ft)), {}


# =========================================================================== run


def main_types_text(sdk: Sdk) -> Tuple[Optional[str], str]:
    """``types.py`` as ``main.execute`` writes it for the model of ``sdk`` (with the snippets of ``sdk`` + dummies for the other
    modules of the package); ``(None, reason)`` if the run fails (crashes of the other generators are not this property's)."""
    used = mm.snippets_for("python", sdk.symbol_table, module_name="aasv_c29")
    used.update(sdk.snippets())
    out = mm.new_scratch("c29main")
    res = mm.generate("python", sdk.source, out, snippets=used)
    path = out / "aasv_c29" / "types.py"
    if res.exception or res.rc != 0 or not path.exists():
        return None, (res.exception or (res.stderr or "")[:60].replace("\n", " "))
    return path.read_text(encoding="utf-8"), ""


def tree_key(v: Any) -> str:
    """Wire form of a tree + which constructor arguments were left out."""
    return W.val_wire(v) + "|" + ";".join(f"{k}:{a.omit}:{a.nones}" for k, a in enumerate(W.walk_insts(v)) if a.omit or a.nones)


def run_model(ctx: Ctx, m: mm.MM, defaults: Dict[str, Any], trees: Sequence[Inst], stream: str, with_model: bool, check_main: bool = False,
              sdk: Optional[Sdk] = None, twin_ok: bool = False, extra_input: Optional[Dict[str, Any]] = None, model_every: int = 1) -> bool:
    """``twin_ok``: the model is one of the enumerated ones, valid by construction (an accepted enumerated model whose module
    cannot be executed is a failure).  Returns whether the generated module could be used.  ``extra_input``: recorded with
    every input (the history of a generation).  ``model_every``: only every n-th tree also goes to the Lean model (the direct
    oracle judges every tree)."""
    t0 = time.time()
    try:
        return _run_model(ctx, m, defaults, trees, stream, with_model, check_main, sdk, twin_ok, extra_input, model_every)
    finally:
        secs = ctx.extra_cov.setdefault("stream_seconds", {})
        secs[stream] = round(secs.get(stream, 0.0) + time.time() - t0, 1)


def _run_model(ctx: Ctx, m: mm.MM, defaults: Dict[str, Any], trees: Sequence[Inst], stream: str, with_model: bool, check_main: bool,
               sdk: Optional[Sdk], twin_ok: bool, extra_input: Optional[Dict[str, Any]], model_every: int) -> bool:
    if sdk is None:
        sdk = Sdk(m, defaults).build()
    mj = mm_to_json(m, defaults) if sdk.spec is None else {"fixture": stream}
    base_inp = dict(extra_input or {})
    if not sdk.ok:
        # a rejected / crashing model is not in the quantifier of C29 (crashes of the generators are C02's)
        ctx.hit("model:" + ("crash:" + sdk.crash if sdk.crash else "rejected"))
        ctx.note(f"{stream}: model not usable ({sdk.crash or (sdk.error or '')[:200]})")
        if sdk.crash:
            ctx.sample({"stream": stream, "crash": sdk.crash, "mm": mj})
        if twin_ok and sdk.crash and sdk.crash.startswith("import:"):
            # … except that the generated module of an ACCEPTED model (front end + verify_for_types passed, the code was
            # generated) cannot even be executed although the same model with plain names works: no instance can be
            # built, so nothing is ever yielded / dispatched
            ctx.fail({**base_inp, "mm": mj}, f"the generated types module of an accepted meta-model cannot be executed ({sdk.crash}): no instance can be built",
                     "C29:module-unusable:" + sdk.crash)
        return False
    ctx.hit("model:accepted")
    # the property order the front end hands to the generator must be the one of the abstract model
    for c in m.classes:
        real = (sdk.front_order or {}).get(c.name)
        if real != [p.name for p, _ in mm.all_props(m, c.name)]:
            ctx.note(f"{stream}: property order of {c.name} differs between the front end {real} and the abstract model; model skipped")
            ctx.hit("model:order-mismatch")
            return False
    snippet_model = any(c.methods or c.impl_specific for c in m.classes)
    if check_main and (has_nested_list(m) or sdk.symbol_table is None):
        ctx.hit("main:skipped (nested lists crash the jsonization generator)")
    elif check_main and snippet_model:
        text, why = main_types_text(sdk)
        if text is None:
            ctx.hit("main:not-comparable:" + why)
        else:
            if text != sdk.code:
                ctx.disagree("main", {**base_inp, "mm": mj}, "types.py written by main.execute differs from generate_types", "same text")
            ctx.hit("main:compared:snippets")
    elif check_main:
        full = mm.load_python_sdk(sdk.source)
        try:
            if full.ok:
                text = (full.package_dir / "types.py").read_text(encoding="utf-8")  # type: ignore[operator]
                a = text.replace(full.module_name, "aasv_c29")
                if a != sdk.code:
                    ctx.disagree("main", {**base_inp, "mm": mj}, "types.py written by main.execute differs from generate_types", "same text")
                ctx.hit("main:compared")
            else:
                ctx.hit("main:not-comparable:" + (full.error or "")[:60].replace("\n", " "))
        finally:
            full.close()
    for c in m.classes:
        if c.impl_specific:
            ctx.hit("class:impl-specific:" + ("abstract" if c.abstract else ("with-descendants" if mm.descendants(m, c.name) else "leaf")))
        if cspec_of(c):
            ctx.hit("class:ctor-defaults")
    judge_module(sdk, {**base_inp, "mm": mj}, ctx)
    batch: List[Any] = []
    mmw = W.enc_mm(m)
    if with_model:
        correspond_bodies(sdk, {**base_inp, "mm": mj}, ctx, batch)
        if sdk.spec is None:
            correspond_ctors(sdk, {**base_inp, "mm": mj}, ctx, batch)
        correspond_visitors(sdk, mmw, {**base_inp, "mm": mj}, ctx, batch)
    for k, root in enumerate(trees):
        inp = {**base_inp, "mm": mj, "instance": W.jsonable(root)}
        try:
            sdk.realise(root)
        except BaseException as e:  # noqa: B902
            if isinstance(e, (KeyboardInterrupt, SystemExit)):
                raise
            ctx.fail(inp, f"the generated constructor raised {crash_name(e)}: {e}", "C29:constructor:" + crash_name(e))
            continue
        n_inst = len(W.walk_insts(root))
        ctx.count(("tree", tree_key(root), mmw), nontrivial=n_inst > 1, stream=stream)
        ctx.hit("tree:single" if n_inst == 1 else ("tree:small" if n_inst <= 5 else "tree:large"))
        if k % 97 == 0:
            ctx.sample({"stream": stream, "class": root.cls, "instances": n_inst, "descend": _names(sdk, run_list(root.obj.descend))})
        judge(sdk, root, inp, ctx)
        if with_model and k % model_every == 0:
            correspond_tree(sdk, mmw, root, inp, ctx, batch)
            if len(batch) > 4000:
                flush(ctx, batch)
    flush(ctx, batch)
    return True


def _ident(s: str) -> Any:
    from aas_core_codegen.common import Identifier

    return Identifier(s)


def shared_variants(b: Builder, root: Inst, rng: random.Random) -> Optional[Inst]:
    """The same OBJECT at two places of the tree (a DAG): both places are yielded."""
    insts = W.walk_insts(root)[1:]
    if len(insts) < 2:
        return None
    a = rng.choice(insts)
    # find another slot of the same declared position type: replace a sibling list member by ``a``
    for holder in W.walk_insts(root):
        for idx, f in enumerate(holder.fields):
            if isinstance(f, list) and len(f) >= 2 and all(isinstance(x, Inst) for x in f) and a in f:
                j = rng.randrange(len(f))
                if f[j] is not a and f[j].cls == a.cls and a not in W.walk_insts(f[j]):
                    f[j] = a
                    return root
    return None


class Histories:
    """The history stream: jobs are handed to the fresh-process pool early (``submit_*``) and judged late (``collect``)."""

    def __init__(self, ctx: Ctx, with_model: bool) -> None:
        from harness import c29_fresh

        self.ctx = ctx
        self.with_model = with_model
        self.pool = c29_fresh.Pool()
        #: (ticket, [(model, defaults, trees)], stream)
        self.jobs: List[Tuple[int, List[Tuple[mm.MM, Dict[str, Any], List[Inst]]], str]] = []
        #: source text of a model -> what a process WITHOUT history generated for it
        self.alone: Dict[str, Dict[str, Any]] = {}
        self.judged: set = set()
        self._jobs: Dict[int, Any] = {}

    def job_of(self, m: mm.MM, d: Dict[str, Any]) -> Dict[str, Any]:
        if id(m) not in self._jobs:
            self._jobs[id(m)] = (m, Sdk(m, d).job())
        return self._jobs[id(m)][1]

    def submit(self, models: List[Tuple[mm.MM, Dict[str, Any], List[Inst]]], stream: str) -> None:
        self.jobs.append((self.pool.submit([self.job_of(m, d) for m, d, _t in models]), models, stream))

    def submit_enumerated(self) -> None:
        rng = random.Random(20294)
        family = []
        for k in range(len(HISTORY_KINDS)):
            m, d = history_model(k)
            family.append((m, d, history_trees(m, rng)))
        for h in enumerated_histories(self.ctx.tier != "thorough"):
            self.submit([family[k] for k in h], "history")

    def submit_random(self, n: int) -> None:
        for _ in range(n):
            models = colliding_history(self.ctx.rng, self.ctx.rng.choice([2, 3, 3]))
            # every rotation: each model is generated alone once and after each of the others
            for r in range(len(models)):
                self.submit(models[r:] + models[:r], "history:random")

    def collect(self) -> None:
        ctx = self.ctx
        # a model that no history starts with is generated alone in a job of its own
        first = {self.job_of(models[0][0], models[0][1])["source"] for _t, models, _s in self.jobs}
        for _t, models, stream in list(self.jobs):
            for m, d, _trees in models[1:]:
                if self.job_of(m, d)["source"] not in first:
                    first.add(self.job_of(m, d)["source"])
                    self.submit([(m, d, [])], stream)
        results = [(self.pool.result(t), models, stream) for t, models, stream in self.jobs]
        for res, models, _stream in results:
            self.alone.setdefault(self.job_of(models[0][0], models[0][1])["source"], res[0])
        for res, models, stream in results:
            jsons = [mm_to_json(m, d) for m, d, _t in models]
            for j, ((m, d, trees), r) in enumerate(zip(models, res)):
                sdk = Sdk(m, d, source=self.job_of(m, d)["source"])
                alone = self.alone.get(sdk.source)
                hist = {"history": jsons[:j]} if j else {}
                inp = {**hist, "mm": jsons[j]}
                ctx.hit("history:position:" + ("alone" if j == 0 else ("second" if j == 1 else "later")))
                if alone is None:
                    ctx.note(f"{stream}: no generation without history for a model; not compared")
                elif "code" in alone and "code" not in r:
                    # an accepted model for which the generator writes an SDK when it runs alone gets NO SDK after this history
                    what = r.get("crash") or "rejected"
                    ctx.hit("history:unusable-after-history")
                    ctx.fail(inp, f"generate_types gives no SDK ({what}: {(r.get('error') or '')[:200]}) for a meta-model after {j} other generation(s) in the same process; "
                                  "alone in a fresh process it generates the SDK", "C29:history:unusable:" + what)
                    continue
                elif ("code" in alone) != ("code" in r) or alone.get("code") != r.get("code"):
                    ctx.hit("history:text-differs")
                    ctx.disagree("history", inp, "types.py generated after the history differs from the one generated alone in a fresh process", "same text")
                else:
                    ctx.hit("history:text-same")
                ctx.traces_validated += 1
                key = (sdk.source, r.get("code"))
                if key in self.judged:
                    continue  # the same text for the same model has been exercised
                self.judged.add(key)
                run_model(ctx, m, d, copy.deepcopy(trees), stream, self.with_model, sdk=sdk.adopt_result(r), extra_input=hist)

    def close(self) -> None:
        self.pool.close()


def _run(ctx: Ctx, with_model: bool) -> None:
    histories = Histories(ctx, with_model)
    try:
        # histories: generated in fresh processes while the other streams run here
        for c in corpus(ID):
            if c.get("history"):  # a recorded history: the models before, then the model with its instance tree
                m, defaults = mm_from_json(c["mm"])
                histories.submit([mm_from_json(h) + ([],) for h in c["history"]] + [(m, defaults, [W.from_jsonable(c["instance"])] if "instance" in c else [])],
                                 "corpus:history")
        histories.submit_enumerated()
        histories.submit_random(ctx.n(1, 25))
        _run_streams(ctx, with_model)
        t0 = time.time()
        histories.collect()
        ctx.extra_cov.setdefault("stream_seconds", {})["history:wait+judge"] = round(time.time() - t0, 1)
    finally:
        histories.close()


def _run_streams(ctx: Ctx, with_model: bool) -> None:
    # corpus
    for c in corpus(ID):
        if c.get("history"):
            continue  # (generated in a fresh process: ``Histories``)
        m, defaults = mm_from_json(c["mm"])
        run_model(ctx, m, defaults, [W.from_jsonable(c["instance"])] if "instance" in c else [], "corpus", with_model)
    # enumerated, seed independent
    plain_ok = True
    for m, defaults, trees, stream in enumerated_trees():
        plain_ok = run_model(ctx, m, defaults, trees, stream, with_model, check_main=False) and plain_ok
    # enumerated, seed independent: hand-written (implementation-specific) classes at every position
    for k, (m, defaults, trees, stream) in enumerate(enumerated_impl_trees()):
        run_model(ctx, m, defaults, trees, stream, with_model, check_main=(k == 0), twin_ok=True)
    # enumerated, seed independent: constructors with declared defaults
    for k, (m, defaults, trees, stream) in enumerate(enumerated_ctor_trees()):
        run_model(ctx, m, defaults, trees, stream, with_model, check_main=(k == 0), twin_ok=True, model_every=4)
    # enumerated, seed independent: the same models with every name shape the front end accepts
    for k, (m, defaults, trees, stream) in enumerate(enumerated_named_trees()):
        run_model(ctx, m, defaults, trees, stream, with_model, check_main=(k % 6 == 0), twin_ok=plain_ok)
    # random: focused models
    for k in range(ctx.n(24, 300)):
        m, defaults = random_model(ctx.rng)
        if ctx.rng.random() < 0.5:
            decorate_model(ctx.rng, m)
            ctx.hit("random:decorated")
        b = Builder(m, ctx.rng)
        concrete = [c.name for c in m.classes if not c.abstract]
        trees = []
        for _ in range(ctx.n(14, 30) // (4 if ctx.searching else 1)):
            t = b.instance(ctx.rng.choice(concrete), ctx.rng.choice([1, 2, 3, 3, 4]))
            if len(W.walk_insts(t)) <= 60:
                trees.append(t)
        for t in list(trees[:6]):
            s = shared_variants(b, copy.deepcopy(t), ctx.rng)
            if s is not None:
                ctx.hit("tree:shared-object")
                trees.append(s)
        if ctx.rng.random() < 0.6:
            m, defaults, trees = shaped(ctx.rng, m, defaults, trees)
            ctx.hit("names:shaped")
        run_model(ctx, m, defaults, trees, "random", with_model, check_main=(k % 6 == 0))
    # random: models of the shared platform generator
    for k in range(ctx.n(10, 150)):
        m, defaults = platform_model(ctx.rng)
        if not m.classes:
            continue
        depth = required_depth(m)
        b = Builder(m, ctx.rng)
        concrete = [c.name for c in m.classes if not c.abstract and depth[c.name] < 6]
        trees = []
        for _ in range(ctx.n(10, 20) // (4 if ctx.searching else 1)):
            if not concrete:
                break
            cname = ctx.rng.choice(concrete)
            try:
                t = b.instance(cname, depth[cname] + ctx.rng.choice([0, 1, 2]))
            except (IndexError, RecursionError):
                continue
            if len(W.walk_insts(t)) <= 60:
                trees.append(t)
        if ctx.rng.random() < 0.5:
            m, defaults, trees = shaped(ctx.rng, m, defaults, trees)
            ctx.hit("names:shaped")
        run_model(ctx, m, defaults, trees, "platform", with_model, check_main=(k % 5 == 0))
    if ctx.tier == "thorough":
        run_fixture(ctx, with_model)


def decorate_model(rng: random.Random, m: mm.MM) -> None:
    """Random hand-written classes and constructors with declared defaults for a focused random model (in place)."""
    enum_name = m.enums[0].name if m.enums else None
    for c in m.classes:
        if not c.abstract and rng.random() < 0.2:  # (the front end rejects abstract implementation-specific classes)
            c.impl_specific = True
        spec: Dict[str, Any] = {"stmt": {}, "sig": {}}
        for p in c.props:
            t = p.type
            if p.name == "ident":
                continue
            if isinstance(t, mm.OptionalOf) and isinstance(t.item, mm.ListOf) and rng.random() < 0.5:
                spec["stmt"][p.name] = {"d": ["list"], "form": rng.choice(["isnot", "is"])}
            elif isinstance(t, mm.OptionalOf) and isinstance(t.item, mm.Ref) and t.item.name == enum_name and rng.random() < 0.6:
                spec["stmt"][p.name] = {"d": ["enum", enum_name, rng.choice(m.enums[0].literals).name], "form": rng.choice(["isnot", "is"])}
            elif isinstance(t, mm.ListOf) and rng.random() < 0.15:
                spec["stmt"][p.name] = {"d": ["list"], "form": "isnot"}
            elif isinstance(t, mm.Prim) and t.name in ("int", "str", "bool", "float") and rng.random() < 0.4:
                spec["sig"][p.name] = W.jsonable(rng.choice([x for x in LEAF_VALUES[t.name] if not (isinstance(x, (int, float)) and not isinstance(x, bool) and x < 0)]))
            elif isinstance(t, mm.Ref) and t.name == enum_name and rng.random() < 0.4:
                spec["sig"][p.name] = W.jsonable(EnumVal(enum_name, rng.choice(m.enums[0].literals).name))
        if spec["stmt"] or spec["sig"] or rng.random() < 0.3:
            names = [p.name for p in c.props]
            rng.shuffle(names)
            spec["order"] = names
            if c.bases and names:
                spec["super_at"] = rng.randint(0, len(names))
            with_cspec(c, spec)


def mm_from_symbol_table(st: Any) -> mm.MM:
    """The abstraction of a loaded meta-model (classes with their OWN properties, enumerations, constrained primitives)."""
    from aas_core_codegen import intermediate as I

    def ty(a: Any) -> Any:
        if isinstance(a, I.PrimitiveTypeAnnotation):
            return P({"bytearray": "bytes"}.get(a.a_type.value, a.a_type.value))
        if isinstance(a, I.OurTypeAnnotation):
            return R(str(a.our_type.name))
        if isinstance(a, I.ListTypeAnnotation):
            return L(ty(a.items))
        if isinstance(a, I.OptionalTypeAnnotation):
            return O(ty(a.value))
        raise TypeError(repr(a))

    out = mm.MM()
    for t in st.our_types:
        if isinstance(t, I.Enumeration):
            out.enums.append(mm.Enum.of(str(t.name), [(str(li.name), li.value) for li in t.literals]))
        elif isinstance(t, I.ConstrainedPrimitive):
            out.constrained_primitives.append(mm.ConstrainedPrimitive(str(t.name), {"bytearray": "bytes"}.get(t.constrainee.value, t.constrainee.value)))
        else:
            out.classes.append(mm.Class(
                str(t.name), bases=[str(i.name) for i in t.inheritances], abstract=isinstance(t, I.AbstractClass),
                props=[mm.Prop(str(p.name), ty(p.type_annotation)) for p in t.properties if p.specified_for is t]))
    return out


def fixture_sdk(ctx: Ctx, name: str) -> Optional[Sdk]:
    from aas_core_codegen import specific_implementations as SI

    base = mm.REPO / "dev" / "test_data" / "main" / "python" / "expected" / name / "input"
    src = (mm.REPO / "dev" / "test_data" / "common_meta_models" / f"{name}.py")
    if not src.exists() or not (base / "snippets").exists():
        ctx.note(f"fixture {name} not found; stream skipped")
        return None
    spec, errors = SI.read_from_directory(snippets_dir=base / "snippets")
    if errors:
        ctx.note(f"fixture {name}: snippets unreadable; stream skipped")
        return None
    text = src.read_text(encoding="utf-8")
    ld = mm.load(text)
    if not ld.ok:
        ctx.note(f"fixture {name}: not accepted by the front end; stream skipped")
        return None
    m = mm_from_symbol_table(ld.symbol_table)
    return Sdk(m, {}, source=text, spec={str(k): str(v) for k, v in spec.items()}).build()  # type: ignore[union-attr]


def run_fixture(ctx: Ctx, with_model: bool, name: str = "aas_core_meta.v3") -> None:
    """The real meta-model of the test data with its real snippets (thorough tier): random conforming trees."""
    sdk = fixture_sdk(ctx, name)
    if sdk is None:
        return
    m = sdk.mm
    depth = required_depth(m)
    b = Builder(m, ctx.rng)
    concrete = [c.name for c in m.classes if not c.abstract and depth[c.name] < 6]
    trees = []
    for _ in range(ctx.n(0, 150)):
        cname = ctx.rng.choice(concrete)
        try:
            t = b.instance(cname, depth[cname] + ctx.rng.choice([0, 1, 2]))
        except (IndexError, RecursionError):
            continue
        if len(W.walk_insts(t)) <= 80:
            trees.append(t)
    run_model(ctx, m, {}, trees, "fixture:" + name, with_model, sdk=sdk)


def correspond(ctx: Ctx) -> None:
    ctx.extra_cov["rule"] = (
        "inputs = (meta-model, instance tree); enumerated: one holder class per type shape (prim/enum/constrained/class/abstract/"
        "concrete-with-descendant x plain/optional/list/optional list/nested lists) x {None, [], one, several, nested with empty members} "
        "x neighbours present/absent + X_or_default masks + an inheritance-order model; the same models once per name shape (17 "
        "shapes of class / property / enumeration / literal / constrained-primitive names: abbreviations, digits, single letters, "
        "mixed case, empty parts, leading / trailing underscore); hand-written (implementation-specific) classes at every position "
        "(leaf / with descendants / below generated classes / holders / all); one model of constructors with declared defaults (every "
        "ordered pair and longer orders of None / [] statements / enumeration-literal statements / primitive and enumeration signature "
        "defaults, split over hierarchies) x arguments passed / omitted / None; histories (six models re-using the same names for "
        "constrained primitive / enumeration / leaf / nested / hand-written / abstract class, generated one after the other in fresh "
        "processes in both directions, compared with the generation alone); random: focused class DAGs (half of them with random "
        "hand-written classes and constructor defaults), random histories with colliding names and models of the "
        "shared platform generator with random conforming trees (incl. shared objects); non-trivial = more than one instance; "
        "distinct by (model, tree) wire form; every instance of every tree is exercised"
    )
    ctx.assumptions.append("C29: python naming (class/property/method names) is taken from aas_core_codegen.python.naming (subject of C21)")
    _run(ctx, True)


def oracle(ctx: Ctx) -> None:
    # the oracle is evaluated on every correspondence input in run_model; alone when the driver is broken / searching
    if not ctx.driver_ok or ctx.searching:
        _run(ctx, False)


def replay(ctx: Ctx, data: Dict[str, Any]) -> Any:
    inp = data["failure"]["input"] if "failure" in data else data
    if "mm" not in inp and data.get("disagreements"):
        inp = data["disagreements"][0]["input"]  # a broken correspondence without a failing input: replay the first disagreement
    if "input" in inp and "mm" not in inp:
        inp = inp["input"]
    if "mm" not in inp:
        return {"error": "nothing to replay: the file names a broken theorem / extraction only", "no_longer_checks": data.get("no_longer_checks")}
    sub = Ctx(ctx.prop, ctx.tier, ctx.seed)
    sub.driver_ok = ctx.driver_ok
    trees = [W.from_jsonable(inp["instance"])] if "instance" in inp else []
    if "fixture" in inp["mm"]:
        fsdk = fixture_sdk(sub, inp["mm"]["fixture"].split(":", 1)[1])
        if fsdk is None:
            return {"error": sub.notes}
        run_model(sub, fsdk.mm, {}, trees, inp["mm"]["fixture"], ctx.driver_ok, sdk=fsdk)
        return {"oracle": [[f["sig"], f["what"]] for f in sub.failures], "model_vs_impl": sub.disagreements[:5], "notes": sub.notes}
    m, defaults = mm_from_json(inp["mm"])
    if inp.get("history"):
        return replay_history(ctx, sub, inp, m, defaults, trees)
    run_model(sub, m, defaults, trees, "replay", ctx.driver_ok)
    res: Dict[str, Any] = {"oracle": [[f["sig"], f["what"]] for f in sub.failures], "model_vs_impl": sub.disagreements[:5], "notes": sub.notes}
    if trees:
        sdk = Sdk(m, defaults).build()
        if sdk.ok:
            sdk.realise(trees[0])
            res["impl"] = {"descend_once": _names(sdk, run_list(trees[0].obj.descend_once)), "descend": _names(sdk, run_list(trees[0].obj.descend))}
    return res


def replay_history(ctx: Ctx, sub: Ctx, inp: Dict[str, Any], m: mm.MM, defaults: Dict[str, Any], trees: List[Inst]) -> Any:
    """Re-run a recorded history in ONE fresh process, and the last model alone in another one."""
    from harness import c29_fresh

    before = [mm_from_json(h) for h in inp["history"]]
    pool = c29_fresh.Pool()
    try:
        t_hist = pool.submit([Sdk(a, b).job() for a, b in before] + [Sdk(m, defaults).job()])
        t_alone = pool.submit([Sdk(m, defaults).job()])
        after, alone = pool.result(t_hist)[-1], pool.result(t_alone)[0]
    finally:
        pool.close()
    res: Dict[str, Any] = {"history_length": len(before), "same_text_as_alone": after.get("code") == alone.get("code"),
                           "alone": "sdk" if "code" in alone else (alone.get("crash") or "rejected"),
                           "after_history": "sdk" if "code" in after else (after.get("crash") or "rejected")}
    if "code" in alone and "code" not in after:
        what = after.get("crash") or "rejected"
        sub.fail(inp, f"generate_types gives no SDK ({what}) after the history; alone it does", "C29:history:unusable:" + what)
    else:
        sdk = Sdk(m, defaults).adopt_result(after)
        run_model(sub, m, defaults, trees, "replay", ctx.driver_ok, sdk=sdk, extra_input={"history": inp["history"]})
        if trees and sdk.ok and trees[0].obj is not None:
            res["impl"] = {"descend_once": _names(sdk, run_list(trees[0].obj.descend_once)), "descend": _names(sdk, run_list(trees[0].obj.descend))}
    res.update({"oracle": [[f["sig"], f["what"]] for f in sub.failures], "model_vs_impl": sub.disagreements[:5], "notes": sub.notes})
    return res


# =========================================================================== Gen: skeleton of the generator


def gen_SdkDescend(repo: Any) -> str:
    """
    ``Gen/SdkDescend.lean``: the statement templates each ``_DescendBodyUnroller._unroll_*`` method can emit
    (the f-strings passed to ``python_unrolling.Node``), the name templates of the four dispatch methods of
    ``_generate_class`` and the guard of the ``over_X_or_empty`` accessor, read with ``ast``.
    """
    path = repo / "aas_core_codegen" / "python" / "lib" / "_generate_types.py"
    try:
        tree = ast.parse(path.read_text(encoding="utf-8"))
    except (OSError, SyntaxError) as e:
        raise ExtractError(f"cannot read {path}: {e}")

    def fstr(node: ast.expr) -> str:
        if isinstance(node, ast.Constant) and isinstance(node.value, str):
            return node.value
        if isinstance(node, ast.JoinedStr):
            out = ""
            for v in node.values:
                if isinstance(v, ast.Constant):
                    out += str(v.value)
                elif isinstance(v, ast.FormattedValue):
                    out += "{" + ast.unparse(v.value) + "}"
            return out
        raise ExtractError(f"not a string template: {ast.dump(node)[:80]}")

    unroller = next((n for n in tree.body if isinstance(n, ast.ClassDef) and n.name == "_DescendBodyUnroller"), None)
    if unroller is None:
        raise ExtractError("_DescendBodyUnroller not found")
    emitted: List[Tuple[str, List[str]]] = []
    for f in unroller.body:
        if isinstance(f, ast.FunctionDef) and f.name.startswith("_unroll_"):
            texts = []
            for n in ast.walk(f):
                if isinstance(n, ast.Call) and ast.unparse(n.func).endswith("Node"):
                    arg = n.args[0] if n.args else next((k.value for k in n.keywords if k.arg == "text"), None)
                    if arg is None:
                        raise ExtractError("Node(...) without text")
                    texts.append((n.lineno, n.col_offset, fstr(arg)))
            emitted.append((f.name, [t for _, _, t in sorted(texts)]))
    if [n for n, _ in emitted] != ["_unroll_primitive_type_annotation", "_unroll_our_type_annotation", "_unroll_list_type_annotation", "_unroll_optional_type_annotation"]:
        raise ExtractError(f"unexpected unroller methods: {[n for n, _ in emitted]}")
    gen_class = next((n for n in tree.body if isinstance(n, ast.FunctionDef) and n.name == "_generate_class"), None)
    if gen_class is None:
        raise ExtractError("_generate_class not found")
    # The dispatch methods are written in _generate_class itself or in module-level helpers it calls: a helper which
    # (transitively) writes one of the four `def accept…/transform…` blocks is read as if its body stood at the call.
    from harness import extract as _extract

    dispatch_heads = ("def accept", "def accept_with_context", "def transform", "def transform_with_context")

    def head_of(n: ast.AST) -> Optional[str]:
        if isinstance(n, ast.JoinedStr):
            try:
                first = fstr(n).lstrip().split("(")[0]
            except ExtractError:
                return None
            return first if first in dispatch_heads else None
        return None

    def writes_dispatch(g: ast.FunctionDef) -> bool:
        return any(head_of(n) is not None for scope in _extract._reachable_functions(tree, g) for n in ast.walk(scope))

    gen_class_nodes = _extract.nodes_in_execution_order(tree, gen_class, writes_dispatch)
    # name templates: Identifier(f"visit_{cls.name}") etc. in source order
    idents = []
    for i, n in enumerate(gen_class_nodes):
        if isinstance(n, ast.Call) and ast.unparse(n.func) == "Identifier" and n.args and isinstance(n.args[0], ast.JoinedStr):
            idents.append((i, 0, fstr(n.args[0])))
    idents_s = [t for _, _, t in sorted(idents)]
    # the method definitions and the call they make, from the Stripped(f"""...""") blocks
    blocks = []
    for i, n in enumerate(gen_class_nodes):
        if isinstance(n, ast.JoinedStr):
            text = fstr(n)
            first = text.lstrip().split("(")[0]
            if first in dispatch_heads:
                last = [ln.replace("{II}", "").replace("{I}", "").strip() for ln in text.strip().split("\n")]
                last = [ln for ln in last if ln]
                call = last[-2] + last[-1] if last[-1].startswith("self, context)") else last[-1]
                blocks.append((i, first[4:], call))
    blocks_s = [(a, b) for _, a, b in sorted(blocks)]
    if [a for a, _ in blocks_s] != list(KINDS):
        raise ExtractError(f"dispatch methods not found in order: {blocks_s}")
    # guard of over_X_or_empty: isinstance(prop.type_annotation, Optional) and isinstance(prop.type_annotation.value, List)
    guard = None
    for n in ast.walk(gen_class):
        if isinstance(n, ast.If) and isinstance(n.test, ast.BoolOp) and isinstance(n.test.op, ast.And):
            txt = ast.unparse(n.test)
            if "OptionalTypeAnnotation" in txt and "ListTypeAnnotation" in txt:
                guard = txt
    if guard is None:
        raise ExtractError("guard of over_X_or_empty not found")
    concrete_guard = any(isinstance(n, ast.If) and ast.unparse(n.test) == "isinstance(cls, intermediate.ConcreteClass)" for n in ast.walk(gen_class))
    # _generate_constructor: the assignment templates and the order of the tests on the kind of the default
    gen_ctor = next((n for n in tree.body if isinstance(n, ast.FunctionDef) and n.name == "_generate_constructor"), None)
    if gen_ctor is None:
        raise ExtractError("_generate_constructor not found")
    assigns = []
    tests = []
    for n in ast.walk(gen_ctor):
        if isinstance(n, ast.JoinedStr):
            text = fstr(n)
            if text.lstrip().startswith("self."):
                assigns.append((n.lineno, n.col_offset, "|".join(ln.replace("{II}", "").replace("{I}", "").strip() for ln in text.strip().split("\n"))))
        if isinstance(n, ast.Call) and ast.unparse(n.func) == "isinstance" and len(n.args) == 2 and ast.unparse(n.args[0]) == "stmt.default":
            tests.append((n.lineno, n.col_offset, ast.unparse(n.args[1]).split(".")[-1]))
    assigns_s = [t for _, _, t in sorted(assigns)]
    tests_s = [t for _, _, t in sorted(tests)]
    # the eight visitor / transformer generators: what their loop over the classes iterates
    loops = []
    for fname in ("_generate_abstract_visitor", "_generate_abstract_visitor_with_context", "_generate_pass_through_visitor",
                  "_generate_pass_through_visitor_with_context", "_generate_abstract_transformer", "_generate_abstract_transformer_with_context",
                  "_generate_transformer_with_default", "_generate_transformer_with_default_and_context"):
        fn = next((n for n in tree.body if isinstance(n, ast.FunctionDef) and n.name == fname), None)
        if fn is None:
            raise ExtractError(f"{fname} not found")
        its = [ast.unparse(n.iter) for n in ast.walk(fn) if isinstance(n, ast.For) and isinstance(n.target, ast.Name) and n.target.id == "cls"]
        if len(its) != 1:
            raise ExtractError(f"{fname}: expected exactly one loop over the classes, found {its}")
        loops.append((fname, its[0]))

    def s(x: str) -> str:
        return json.dumps(x, ensure_ascii=True)

    lines = [
        "/-! GENERATED by harness/props/c29.py:gen_SdkDescend from aas_core_codegen/python/lib/_generate_types.py — do not edit. -/",
        "namespace AasVerif.Gen.SdkDescend",
        "",
        "/-- statement templates each `_DescendBodyUnroller._unroll_*` method can emit, in source order -/",
        "def emitted : List (String × List String) := [",
        ",\n".join(f"  ({s(n)}, [{', '.join(s(t) for t in ts)}])" for n, ts in emitted),
        "]",
        "",
        "/-- `Identifier(f\"…\")` templates of `_generate_class`, in source order -/",
        f"def identifiers : List String := [{', '.join(s(t) for t in idents_s)}]",
        "",
        "/-- (generated method, the call it makes) -/",
        "def dispatchers : List (String × String) := [",
        ",\n".join(f"  ({s(a)}, {s(b)})" for a, b in blocks_s),
        "]",
        "",
        "/-- the dispatch methods are written under `if isinstance(cls, intermediate.ConcreteClass)` -/",
        f"def dispatchersOnlyForConcrete : Bool := {'true' if concrete_guard else 'false'}",
        "",
        "/-- guard of the `over_X_or_empty` accessor -/",
        f"def overOrEmptyGuard : String := {s(guard)}",
        "",
        "/-- assignment templates of `_generate_constructor`, in source order (lines joined by `|`, indentation dropped) -/",
        f"def ctorAssignments : List String := [{', '.join(s(t) for t in assigns_s)}]",
        "",
        "/-- the `isinstance(stmt.default, …)` tests of `_generate_constructor`, in source order -/",
        f"def ctorDefaultTests : List String := [{', '.join(s(t) for t in tests_s)}]",
        "",
        "/-- (generator of a visitor / transformer class, what its `for cls in …` loop iterates) -/",
        "def dispatcherLoops : List (String × String) := [",
        ",\n".join(f"  ({s(a)}, {s(b)})" for a, b in loops),
        "]",
        "",
        "end AasVerif.Gen.SdkDescend",
        "",
    ]
    return "\n".join(lines)
