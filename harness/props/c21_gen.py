"""
C21 translator half: ``gen_Naming(repo) -> str`` renders as Lean data (Gen/Naming.lean)

* ``convTable``: every function of ``aas_core_codegen/naming.py`` and ``<target>/naming.py`` that has the
  shape ``return [Identifier(f"<pre>{] callee([Identifier(f"<inner>{]identifier[}")]) [}<post>")]``,
  optionally ``@require(lambda identifier: identifier[0].isupper())`` and the golang ``type -> typE``
  special case, as a ``ConvSpec``; the other functions are listed in ``customFns`` (hand-modelled);
* ``intraLoops``: for each SDK target the naming functions that ``_verify_intra_structure_collisions``
  applies inside ``for x in our_type.literals / .properties / .methods``, in source order;
* ``intraReturnsError``: whether ``_verify_intra_structure_collisions`` returns the ``Error`` it builds;
* ``globalChecks``: for each SDK target the dictionaries of the other ``_verify_<kind>_collisions`` functions called by
  ``verify`` (constants, verification functions, ...): per function the loops over ``symbol_table.<collection>`` with the
  naming function they apply;
* ``intraDerived``: names derived from a member name inside those loops (``Identifier(f"set_{prop.name}_from_jsonable")``);
* ``modelTypeReserved``: whether ``_verify_structure_name_collisions`` looks up the name of the generated ``ModelType``
  enumeration, ``modelTypeLiteralsReserved``: golang also registers the names of its literals (global constants);
  ``jsonPropertiesChecked`` / ``xsdSequenceChecked``: the ``_define_properties`` of the schema generators
  report two properties with one JSON / XML name; ``xsdTypesShared``: ``xs:simpleType`` and ``xs:complexType`` are observed
  in one symbol space;
* ``modelTypeChecked``: whether ``jsonschema.main.generate`` looks at the result of
  ``definitions.update({"ModelType": ...})`` and returns it as an error;
* ``jsonDefinitionsChecked`` / ``xsdObservedChecked``: the ``if key in self._definitions: return Error``
  of ``Definitions.update_for`` and the ``observed_definitions`` loop of ``xsd.main._generate`` exist.

Parses with ``ast`` only; raises ExtractError when a construct is not found.
"""
from __future__ import annotations

import ast
import pathlib
from typing import Any, Dict, List, Optional, Tuple

from harness.extract import HEADER, ExtractError, _class, _func, _parse, lean_text

SDK = ["cpp", "csharp", "golang", "java", "python", "typescript"]
NAMING_MODULES = [("naming", "aas_core_codegen/naming.py")] + [
    (t, f"aas_core_codegen/{t}/naming.py") for t in SDK + ["xsd"]
]
CALLEES = {
    "lower_snake_case",
    "upper_snake_case",
    "lower_camel_case",
    "capitalized_camel_case",
    "capital_camel_case",
    "_lower_camel_case",
}


def _callee_name(node: ast.AST) -> Optional[str]:
    if isinstance(node, ast.Name):
        return node.id
    if isinstance(node, ast.Attribute):
        return node.attr
    return None


def _is_identifier_ctor(node: ast.AST) -> bool:
    return isinstance(node, ast.Call) and _callee_name(node.func) == "Identifier" and len(node.args) == 1 and not node.keywords


def _inner_arg(node: ast.AST, arg: str) -> Optional[str]:
    """``identifier`` -> "" ; ``Identifier(f"mutable_{identifier}")`` / ``Identifier("set_" + identifier)`` -> prefix."""
    if isinstance(node, ast.Name) and node.id == arg:
        return ""
    if _is_identifier_ctor(node):
        inner = node.args[0]  # type: ignore[attr-defined]
        if isinstance(inner, ast.JoinedStr) and len(inner.values) == 2:
            a, b = inner.values
            if (
                isinstance(a, ast.Constant)
                and isinstance(a.value, str)
                and isinstance(b, ast.FormattedValue)
                and isinstance(b.value, ast.Name)
                and b.value.id == arg
                and b.conversion == -1
                and b.format_spec is None
            ):
                return a.value
        if (
            isinstance(inner, ast.BinOp)
            and isinstance(inner.op, ast.Add)
            and isinstance(inner.left, ast.Constant)
            and isinstance(inner.left.value, str)
            and isinstance(inner.right, ast.Name)
            and inner.right.id == arg
        ):
            return inner.left.value
    return None


def _core_call(node: ast.AST, arg: str) -> Optional[Tuple[str, str]]:
    """``callee(<inner arg>)`` -> (callee, inner prefix)"""
    if isinstance(node, ast.Call) and len(node.args) == 1 and not node.keywords:
        name = _callee_name(node.func)
        if name in CALLEES:
            inner = _inner_arg(node.args[0], arg)
            if inner is not None:
                return name, inner
    return None


def _return_shape(expr: ast.AST, arg: str) -> Optional[Tuple[str, str, str, str]]:
    """-> (pre, inner, callee, post)"""
    core = _core_call(expr, arg)
    if core is not None:
        return "", core[1], core[0], ""
    if _is_identifier_ctor(expr):
        inner = expr.args[0]  # type: ignore[attr-defined]
        if isinstance(inner, ast.JoinedStr):
            pre, post, found = "", "", None
            for v in inner.values:
                if isinstance(v, ast.Constant) and isinstance(v.value, str):
                    if found is None:
                        pre += v.value
                    else:
                        post += v.value
                elif isinstance(v, ast.FormattedValue) and found is None and v.conversion == -1 and v.format_spec is None:
                    found = _core_call(v.value, arg)
                    if found is None:
                        return None
                else:
                    return None
            if found is not None:
                return pre, found[1], found[0], post
    return None


def _is_upper_first_require(dec: ast.AST, arg: str) -> bool:
    if not (isinstance(dec, ast.Call) and _callee_name(dec.func) == "require" and dec.args):
        return False
    lam = dec.args[0]
    if not (isinstance(lam, ast.Lambda) and [a.arg for a in lam.args.args] == [arg]):
        return False
    body = lam.body
    # identifier[0].isupper()
    return (
        isinstance(body, ast.Call)
        and not body.args
        and isinstance(body.func, ast.Attribute)
        and body.func.attr == "isupper"
        and isinstance(body.func.value, ast.Subscript)
        and isinstance(body.func.value.value, ast.Name)
        and body.func.value.value.id == arg
        and isinstance(body.func.value.slice, ast.Constant)
        and body.func.value.slice.value == 0
    )


def _spec_of(fn: ast.FunctionDef) -> Optional[Dict[str, Any]]:
    args = fn.args
    if len(args.args) != 1 or args.vararg or args.kwarg or args.kwonlyargs or args.defaults:
        return None
    arg = args.args[0].arg
    require_upper = False
    for dec in fn.decorator_list:
        if _is_upper_first_require(dec, arg):
            require_upper = True
        else:
            return None
    body = list(fn.body)
    if body and isinstance(body[0], ast.Expr) and isinstance(body[0].value, ast.Constant) and isinstance(body[0].value.value, str):
        body = body[1:]
    type_special = False
    if len(body) == 2 and isinstance(body[0], ast.If):
        iff = body[0]
        t = iff.test
        ok = (
            isinstance(t, ast.Compare)
            and isinstance(t.left, ast.Name)
            and t.left.id == arg
            and len(t.ops) == 1
            and isinstance(t.ops[0], ast.Eq)
            and isinstance(t.comparators[0], ast.Constant)
            and t.comparators[0].value == "type"
            and not iff.orelse
            and len(iff.body) == 1
            and isinstance(iff.body[0], ast.Return)
            and _is_identifier_ctor(iff.body[0].value)
            and isinstance(iff.body[0].value.args[0], ast.Constant)  # type: ignore[union-attr]
            and iff.body[0].value.args[0].value == "typE"  # type: ignore[union-attr]
        )
        if not ok:
            return None
        type_special = True
        body = body[1:]
    if len(body) != 1 or not isinstance(body[0], ast.Return) or body[0].value is None:
        return None
    shape = _return_shape(body[0].value, arg)
    if shape is None:
        return None
    pre, inner, callee, post = shape
    return {
        "pre": pre,
        "inner": inner,
        "callee": callee,
        "post": post,
        "requireUpperFirst": require_upper,
        "typeSpecial": type_special,
    }


def naming_tables(repo: pathlib.Path) -> Tuple[Dict[str, Dict[str, Any]], List[str]]:
    table: Dict[str, Dict[str, Any]] = {}
    custom: List[str] = []
    for modname, rel in NAMING_MODULES:
        mod = _parse(repo, rel)
        fns = [n for n in mod.body if isinstance(n, ast.FunctionDef)]
        if not fns:
            raise ExtractError(f"no functions in {rel}")
        for fn in fns:
            spec = _spec_of(fn)
            key = f"{modname}.{fn.name}"
            if spec is None:
                custom.append(key)
            else:
                table[key] = spec
    return table, custom


LOOP_ATTRS = {"literals": "literal", "properties": "prop", "methods": "method"}

# (repo, target) -> [(line, kind, naming function, pre, post)]: names DERIVED from a member name inside the intra loops
# (`<t>_naming.<fn>(Identifier(f"<pre>{x.name}<post>"))`), each kept in a dictionary of its own; filled by `intra_loops`
INTRA_DERIVED: Dict[Tuple[str, str], List[Tuple[int, str, str, str, str]]] = {}


def intra_derived(repo: pathlib.Path, target: str) -> List[Tuple[str, str, str, str]]:
    intra_loops(repo, target)
    return [(k, f"{target}.{f}", pre, post) for _, k, f, pre, post in sorted(INTRA_DERIVED[(str(repo), target)])]


# ---- following calls of helper functions of the same module
#
# A check may be written inline or be spread over module-level helpers (`errors.extend(helper(...))`,
# `errors += helper(...)`, `error = helper(...); if error is not None: errors.append(error)`): the extraction walks a
# function in source order and enters such a helper at the call site (up to MAX_HELPER_DEPTH levels), carrying along
# which parameter of the helper stands for `our_type` / `symbol_table`.

MAX_HELPER_DEPTH = 3


def _top_functions(mod: ast.Module) -> Dict[str, ast.FunctionDef]:
    return {n.name: n for n in mod.body if isinstance(n, ast.FunctionDef)}


def _parent_map(fn: ast.AST) -> Dict[int, ast.AST]:
    out: Dict[int, ast.AST] = {}
    for node in ast.walk(fn):
        for child in ast.iter_child_nodes(node):
            out[id(child)] = node
    return out


def _sink_of(fn: ast.FunctionDef) -> str:
    """The name of the error list of a function: the list-valued name it returns, `errors` otherwise."""
    lists = set()
    for node in ast.walk(fn):
        if isinstance(node, (ast.Assign, ast.AnnAssign)) and isinstance(getattr(node, "value", None), ast.List):
            tgt = node.targets[0] if isinstance(node, ast.Assign) else node.target
            if isinstance(tgt, ast.Name):
                lists.add(tgt.id)
    for node in ast.walk(fn):
        if isinstance(node, ast.Return) and isinstance(node.value, ast.Name) and node.value.id in lists:
            return node.value.id
    return "errors"


def _is_sink_call(node: ast.AST, sink: str, arg: ast.AST) -> bool:
    return (
        isinstance(node, ast.Call)
        and isinstance(node.func, ast.Attribute)
        and node.func.attr in ("extend", "append")
        and isinstance(node.func.value, ast.Name)
        and node.func.value.id == sink
        and any(a is arg for a in node.args)
    )


def _flows_into_errors(fn: ast.FunctionDef, call: ast.Call, parents: Dict[int, ast.AST], sink: str) -> bool:
    """The result of `call` ends up in the error list `sink` of `fn`."""
    par = parents.get(id(call))
    if _is_sink_call(par, sink, call):
        return True
    if isinstance(par, ast.AugAssign) and isinstance(par.op, ast.Add) and isinstance(par.target, ast.Name) and par.target.id == sink and par.value is call:
        return True
    if isinstance(par, (ast.Assign, ast.AnnAssign)) and par.value is call:
        tgt = par.targets[0] if isinstance(par, ast.Assign) and len(par.targets) == 1 else getattr(par, "target", None)
        if isinstance(tgt, ast.Name):
            v = tgt.id
            for n in ast.walk(fn):
                if isinstance(n, ast.Call) and any(isinstance(a, ast.Name) and a.id == v and _is_sink_call(n, sink, a) for a in n.args):
                    return True
                if (
                    isinstance(n, ast.AugAssign) and isinstance(n.op, ast.Add) and isinstance(n.target, ast.Name)
                    and n.target.id == sink and isinstance(n.value, ast.Name) and n.value.id == v
                ):
                    return True
    return False


def _bind_aliases(helper: ast.FunctionDef, call: ast.Call, aliases: Dict[str, str]) -> Dict[str, str]:
    params = [a.arg for a in helper.args.posonlyargs + helper.args.args]
    out: Dict[str, str] = {}
    for i, a in enumerate(call.args):
        if isinstance(a, ast.Name) and a.id in aliases and i < len(params):
            out[params[i]] = aliases[a.id]
    for kw in call.keywords:
        if kw.arg is not None and isinstance(kw.value, ast.Name) and kw.value.id in aliases:
            out[kw.arg] = aliases[kw.value.id]
    return out


def _creates_dicts(fn: ast.FunctionDef) -> List[str]:
    out = []
    for node in ast.walk(fn):
        value = getattr(node, "value", None)
        if isinstance(node, (ast.Assign, ast.AnnAssign)) and (
            (isinstance(value, ast.Call) and _callee_name(value.func) == "dict" and not value.args and not value.keywords)
            or (isinstance(value, ast.Call) and _callee_name(value.func) == "dict" and len(value.args) == 1
                and isinstance(value.args[0], ast.Call) and _callee_name(value.args[0].func) == "dict" and not value.args[0].args)
            or (isinstance(value, ast.Dict) and not value.keys)
        ):
            tgt = node.targets[0] if isinstance(node, ast.Assign) else node.target
            if isinstance(tgt, ast.Name) and tgt.id not in out:
                out.append(tgt.id)
    return out


def _sequence(
    funcs: Dict[str, ast.FunctionDef], fn: ast.FunctionDef, aliases: Dict[str, str], depth: int, skip: Tuple[str, ...], chain: Tuple[str, ...]
) -> List[Tuple[ast.AST, ast.FunctionDef, Dict[str, str], Tuple[str, ...]]]:
    """The nodes of `fn` in source order (pre-order); a call of a function of the same module whose result flows into
    the error list of `fn` is entered right at the call. Items: (node, owning function, aliases there, call chain)."""
    parents = _parent_map(fn)
    sink = _sink_of(fn)
    out: List[Tuple[ast.AST, ast.FunctionDef, Dict[str, str], Tuple[str, ...]]] = []

    def rec(node: ast.AST) -> None:
        out.append((node, fn, aliases, chain))
        if (
            depth > 0
            and isinstance(node, ast.Call)
            and isinstance(node.func, ast.Name)
            and node.func.id in funcs
            and node.func.id not in skip
            and node.func.id not in chain
            and _flows_into_errors(fn, node, parents, sink)
        ):
            helper = funcs[node.func.id]
            out.extend(_sequence(funcs, helper, _bind_aliases(helper, node, aliases), depth - 1, skip, chain + (helper.name,)))
        for child in ast.iter_child_nodes(node):
            rec(child)

    for stmt in fn.body:
        rec(stmt)
    return out


KIND_RANK = {"literal": 0, "prop": 1, "method": 2}


def intra_loops(repo: pathlib.Path, target: str) -> Tuple[List[Tuple[str, str]], bool]:
    mod = _parse(repo, f"aas_core_codegen/{target}/lib/_generate_types.py")
    funcs = _top_functions(mod)
    fn = _func(mod, "_verify_intra_structure_collisions")
    found: List[Tuple[int, int, str]] = []  # (kind rank, position, naming function)
    derived: List[Tuple[int, str, str, str, str]] = INTRA_DERIVED.setdefault((str(repo), target), [])
    derived.clear()
    pos = 0
    for node, owner, aliases, _chain in _sequence(funcs, fn, {"our_type": "our_type"}, MAX_HELPER_DEPTH, (), (fn.name,)):
        if (
            isinstance(node, ast.For)
            and isinstance(node.target, ast.Name)
            and isinstance(node.iter, ast.Attribute)
            and isinstance(node.iter.value, ast.Name)
            and aliases.get(node.iter.value.id) == "our_type"
            and node.iter.attr in LOOP_ATTRS
        ):
            var = node.target.id
            kind = LOOP_ATTRS[node.iter.attr]
            calls = []
            for sub in ast.walk(node):
                if (
                    isinstance(sub, ast.Call)
                    and isinstance(sub.func, ast.Attribute)
                    and isinstance(sub.func.value, ast.Name)
                    and sub.func.value.id.endswith("_naming")
                    and len(sub.args) == 1
                    and isinstance(sub.args[0], ast.Attribute)
                    and isinstance(sub.args[0].value, ast.Name)
                    and sub.args[0].value.id == var
                    and sub.args[0].attr == "name"
                ):
                    calls.append((sub.lineno, sub.col_offset, sub.func.attr))
            for _, _, name in sorted(calls):
                pos += 1
                found.append((KIND_RANK[kind], pos, name))
            for sub in ast.walk(node):
                if (
                    isinstance(sub, ast.Call)
                    and isinstance(sub.func, ast.Attribute)
                    and isinstance(sub.func.value, ast.Name)
                    and sub.func.value.id.endswith("_naming")
                    and len(sub.args) == 1
                    and _is_identifier_ctor(sub.args[0])
                ):
                    arg = _name_arg(sub.args[0], var)
                    if arg is None:
                        raise ExtractError(f"{target}: unknown derived name in _verify_intra_structure_collisions")
                    pos += 1
                    derived.append((pos, kind, sub.func.attr, arg[0], arg[1]))
    rank_kind = {v: k for k, v in KIND_RANK.items()}
    loops: List[Tuple[str, str]] = [(rank_kind[r], name) for r, _, name in sorted(found)]
    if not loops:
        raise ExtractError(f"{target}: no naming loops found in _verify_intra_structure_collisions")
    # Does the function return the error it builds?  (a `return <non-None>` somewhere)
    returns_error = False
    for node in ast.walk(fn):
        if isinstance(node, ast.Return) and node.value is not None:
            if not (isinstance(node.value, ast.Constant) and node.value.value is None):
                returns_error = True
    # ... and the caller appends what is returned
    caller = _func(mod, "_verify_structure_name_collisions")
    forwarded = False
    for node in ast.walk(caller):
        if isinstance(node, ast.Call) and _callee_name(node.func) == "_verify_intra_structure_collisions":
            forwarded = True
    verify = _func(mod, "verify")
    calls_structure = any(
        isinstance(n, ast.Call) and _callee_name(n.func) == "_verify_structure_name_collisions" for n in ast.walk(verify)
    )
    return loops, bool(returns_error and forwarded and calls_structure)


GLOBAL_COLLS = {"constants", "verification_functions", "constrained_primitives", "enumerations", "classes", "concrete_classes"}  # + "classes_with_descendants" (guarded loop over classes)


def _symbol_table_colls(node: ast.AST) -> Optional[List[str]]:
    """``symbol_table.<coll>`` -> [coll]; ``itertools.chain(symbol_table.a, symbol_table.b)`` -> [a, b]."""
    if isinstance(node, ast.Attribute) and isinstance(node.value, ast.Name) and node.value.id == "symbol_table":
        return [node.attr]
    if isinstance(node, ast.Call) and _callee_name(node.func) == "chain" and not node.keywords:
        out: List[str] = []
        for a in node.args:
            sub = _symbol_table_colls(a)
            if sub is None:
                return None
            out += sub
        return out
    return None


def _name_arg(node: ast.AST, var: str) -> Optional[Tuple[str, str]]:
    """``<var>.name`` -> ("", ""); ``Identifier(f"<pre>{<var>.name}<post>")`` -> (pre, post)."""

    def is_var_name(n: ast.AST) -> bool:
        return isinstance(n, ast.Attribute) and n.attr == "name" and isinstance(n.value, ast.Name) and n.value.id == var

    if is_var_name(node):
        return "", ""
    if _is_identifier_ctor(node) and isinstance(node.args[0], ast.JoinedStr):  # type: ignore[attr-defined]
        pre, post, found = "", "", False
        for v in node.args[0].values:  # type: ignore[attr-defined]
            if isinstance(v, ast.Constant) and isinstance(v.value, str):
                if found:
                    post += v.value
                else:
                    pre += v.value
            elif isinstance(v, ast.FormattedValue) and not found and v.conversion == -1 and v.format_spec is None and is_var_name(v.value):
                found = True
            else:
                return None
        if found:
            return pre, post
    return None


def _guard_of(loop: ast.For, call: ast.AST, var: str) -> Optional[str]:
    """The class `C` when `call` sits in the body of an `if isinstance(<var>, intermediate.C):` directly in the loop
    body; None when it sits directly in the loop body; any other conditional nesting is not understood."""
    for stmt in loop.body:
        if not any(n is call for n in ast.walk(stmt)):
            continue
        if not isinstance(stmt, (ast.If, ast.For, ast.While, ast.Try, ast.With)):
            return None
        if (
            isinstance(stmt, ast.If)
            and not stmt.orelse
            and isinstance(stmt.test, ast.Call)
            and _callee_name(stmt.test.func) == "isinstance"
            and len(stmt.test.args) == 2
            and isinstance(stmt.test.args[0], ast.Name)
            and stmt.test.args[0].id == var
            and isinstance(stmt.test.args[1], ast.Attribute)
            and any(s2 is not stmt.test and any(n is call for n in ast.walk(s2)) and not isinstance(s2, (ast.If, ast.For, ast.While, ast.Try, ast.With)) for s2 in stmt.body)
        ):
            return stmt.test.args[1].attr
        raise ExtractError("a naming call of a collision check sits in a conditional that is not understood")
    raise ExtractError("naming call not found in the loop body")


def _concrete_descendants_guard(first: Optional[ast.AST], var: str) -> bool:
    """`if len(<var>.concrete_descendants) == 0: continue`"""
    return (
        isinstance(first, ast.If)
        and not first.orelse
        and len(first.body) == 1
        and isinstance(first.body[0], ast.Continue)
        and isinstance(first.test, ast.Compare)
        and len(first.test.ops) == 1
        and isinstance(first.test.ops[0], ast.Eq)
        and isinstance(first.test.comparators[0], ast.Constant)
        and first.test.comparators[0].value == 0
        and isinstance(first.test.left, ast.Call)
        and _callee_name(first.test.left.func) == "len"
        and len(first.test.left.args) == 1
        and isinstance(first.test.left.args[0], ast.Attribute)
        and first.test.left.args[0].attr == "concrete_descendants"
        and isinstance(first.test.left.args[0].value, ast.Name)
        and first.test.left.args[0].value.id == var
    )


def _colls_of(node: ast.AST, aliases: Dict[str, str]) -> Optional[List[str]]:
    """``<symbol table>.<coll>`` -> [coll]; ``itertools.chain(<symbol table>.a, <symbol table>.b)`` -> [a, b]."""
    if isinstance(node, ast.Attribute) and isinstance(node.value, ast.Name) and aliases.get(node.value.id) == "symbol_table":
        return [node.attr]
    if isinstance(node, ast.Call) and _callee_name(node.func) == "chain" and not node.keywords:
        out: List[str] = []
        for a in node.args:
            sub = _colls_of(a, aliases)
            if sub is None:
                return None
            out += sub
        return out
    return None


HAND_MODELLED = ("_verify_structure_name_collisions", "_verify_intra_structure_collisions")


def global_checks(repo: pathlib.Path, target: str) -> List[Tuple[str, List[Tuple[str, ...]]]]:
    """The dictionaries of the collision checks that ``verify`` runs over collections of the symbol table beside
    ``_verify_structure_name_collisions``: every function of the module whose result flows into the error list of
    ``verify`` (directly or through helpers) and that owns a dictionary; per dictionary, in source order (helpers entered
    at their call), the loops ``for x in symbol_table.<coll>`` with the naming function applied to ``x.name`` /
    ``Identifier(f"<pre>{x.name}<post>")``.  A helper without a dictionary of its own feeds the dictionary of its caller.
    The label of a dictionary is derived from its first loop (not from a function name)."""
    mod = _parse(repo, f"aas_core_codegen/{target}/lib/_generate_types.py")
    funcs = _top_functions(mod)
    verify = _func(mod, "verify")
    returns_errors = any(
        isinstance(n, ast.Return) and isinstance(n.value, ast.Tuple) and len(n.value.elts) == 2
        and isinstance(n.value.elts[1], ast.Name) and n.value.elts[1].id == _sink_of(verify)
        for n in ast.walk(verify)
    )
    if not returns_errors:
        return []
    dict_owner: Dict[Tuple[str, ...], Optional[Tuple[str, ...]]] = {("verify",): None}
    order: List[Tuple[str, ...]] = []
    loops_of: Dict[Tuple[str, ...], List[Tuple[str, ...]]] = {}
    for node, owner, aliases, chain in _sequence(
        funcs, verify, {"symbol_table": "symbol_table"}, MAX_HELPER_DEPTH, HAND_MODELLED, ("verify",)
    ):
        if chain not in dict_owner:
            created = _creates_dicts(owner)
            if len(created) > 1:
                raise ExtractError(f"{target}.{owner.name}: expected at most one dictionary, found {created}")
            dict_owner[chain] = chain if created else dict_owner.get(chain[:-1])
        if not (isinstance(node, ast.For) and isinstance(node.target, ast.Name)):
            continue
        colls = _colls_of(node.iter, aliases)
        if colls is None:
            continue
        name = owner.name
        for c in colls:
            if c not in GLOBAL_COLLS:
                raise ExtractError(f"{target}.{name}: unknown collection symbol_table.{c}")
        colls = list(colls)
        var = node.target.id
        # `if len(<var>.concrete_descendants) == 0: continue` as the first statement: only the classes with
        # concrete descendants
        first = node.body[0] if node.body else None
        if _concrete_descendants_guard(first, var):
            if colls != ["classes"]:
                raise ExtractError(f"{target}.{name}: concrete_descendants guard over {colls}")
            colls = ["classes_with_descendants"]
        elif any(isinstance(n, ast.Continue) for n in ast.walk(node)):
            raise ExtractError(f"{target}.{name}: unknown `continue` guard in the loop over {colls}")
        sink = _sink_of(owner)
        appends = any(
            isinstance(n, ast.Call) and isinstance(n.func, ast.Attribute) and n.func.attr == "append"
            and isinstance(n.func.value, ast.Name) and n.func.value.id == sink
            for n in ast.walk(node)
        )
        # `Identifier(f"<opre>{<naming call>}<opost>")` around a naming call (e.g. `Verify{class_name(x.name)}`)
        outer: Dict[int, Tuple[str, str]] = {}
        for sub in ast.walk(node):
            if _is_identifier_ctor(sub) and isinstance(sub.args[0], ast.JoinedStr):  # type: ignore[attr-defined]
                opre, opost, inner_call = "", "", None
                ok = True
                for v in sub.args[0].values:  # type: ignore[attr-defined]
                    if isinstance(v, ast.Constant) and isinstance(v.value, str):
                        if inner_call is None:
                            opre += v.value
                        else:
                            opost += v.value
                    elif isinstance(v, ast.FormattedValue) and inner_call is None and isinstance(v.value, ast.Call) and v.conversion == -1 and v.format_spec is None:
                        inner_call = v.value
                    else:
                        ok = False
                if ok and inner_call is not None:
                    outer[id(inner_call)] = (opre, opost)
        calls = []
        for sub in ast.walk(node):
            if (
                isinstance(sub, ast.Call)
                and isinstance(sub.func, ast.Attribute)
                and isinstance(sub.func.value, ast.Name)
                and sub.func.value.id.endswith("_naming")
                and len(sub.args) == 1
            ):
                arg = _name_arg(sub.args[0], var)
                if arg is not None:
                    calls.append((sub.lineno, sub.col_offset, sub.func.attr, arg, outer.get(id(sub), ("", "")), _guard_of(node, sub, var)))
        if not calls or not appends:
            raise ExtractError(f"{target}.{name}: loop over {colls} without a naming call / an error")
        key = dict_owner[chain]
        if key is None:
            raise ExtractError(f"{target}.{name}: a loop over {colls} outside any dictionary")
        if key not in loops_of:
            loops_of[key] = []
            order.append(key)
        for ln, col, f, (pre, post), (opre, opost), guard in sorted(calls):
            for c in colls:
                if guard is not None:
                    if (c, guard) != ("verification_functions", "PatternVerification"):
                        raise ExtractError(f"{target}.{name}: isinstance guard {guard} in the loop over {c}")
                    c = "pattern_verification_functions"
                loops_of[key].append((c, f"{target}.{f}", pre, post, opre, opost))
    out: List[Tuple[str, List[Tuple[str, ...]]]] = []
    for key in order:
        loops = loops_of[key]
        owner_fn = funcs[key[-1]]
        sink = _sink_of(owner_fn)
        if not any(isinstance(n, ast.Return) and isinstance(n.value, ast.Name) and n.value.id == sink for n in ast.walk(owner_fn)):
            raise ExtractError(f"{target}.{owner_fn.name}: does not return its errors")
        label = f"{loops[0][0]}:{loops[0][1].split('.', 1)[1]}"
        out.append((label, loops))
    return out


def model_type_checked(repo: pathlib.Path) -> bool:
    mod = _parse(repo, "aas_core_codegen/jsonschema/main.py")
    fn = _func(mod, "generate")
    target: Optional[str] = None
    found = False
    for node in ast.walk(fn):
        if isinstance(node, (ast.Assign, ast.Expr, ast.AnnAssign)):
            call = node.value
            if (
                isinstance(call, ast.Call)
                and isinstance(call.func, ast.Attribute)
                and call.func.attr == "update"
                and call.args
                and isinstance(call.args[0], ast.Dict)
                and any(isinstance(k, ast.Constant) and k.value == "ModelType" for k in call.args[0].keys)
            ):
                found = True
                if isinstance(node, ast.Assign) and len(node.targets) == 1 and isinstance(node.targets[0], ast.Name):
                    target = node.targets[0].id
    if not found:
        raise ExtractError("definitions.update({'ModelType': ...}) not found in jsonschema.main.generate")
    if target is None:
        return False
    for node in ast.walk(fn):
        if isinstance(node, ast.If) and any(isinstance(n, ast.Name) and n.id == target for n in ast.walk(node.test)):
            if any(isinstance(n, ast.Return) for b in node.body for n in ast.walk(b)):
                return True
    return False


def definitions_checked(repo: pathlib.Path) -> bool:
    """``Definitions.update_for`` / ``update`` (with the methods of the class they call through ``self``) stop at a key that
    is already ``in`` the definitions — a plain membership test, nothing tolerated — and return an ``Error``."""
    mod = _parse(repo, "aas_core_codegen/jsonschema/main.py")
    cls = _class(mod, "Definitions")
    methods = {n.name: n for n in cls.body if isinstance(n, ast.FunctionDef)}

    def nodes_with_helpers(fn: ast.FunctionDef, depth: int, seen: Tuple[str, ...]) -> List[ast.AST]:
        out = list(ast.walk(fn))
        if depth > 0:
            for n in list(out):
                if (
                    isinstance(n, ast.Call) and isinstance(n.func, ast.Attribute) and isinstance(n.func.value, ast.Name)
                    and n.func.value.id == "self" and n.func.attr in methods and n.func.attr not in seen
                ):
                    out += nodes_with_helpers(methods[n.func.attr], depth - 1, seen + (n.func.attr,))
        return out

    for name in ("update_for", "update"):
        if name not in methods:
            raise ExtractError(f"Definitions.{name} not found")
        fn = methods[name]
        nodes = nodes_with_helpers(fn, 2, (name,))
        stops = False
        for node in nodes:
            if isinstance(node, ast.If) and isinstance(node.test, ast.Compare) and len(node.test.ops) == 1 and isinstance(node.test.ops[0], ast.In):
                if any(
                    isinstance(n, ast.Return) and n.value is not None and not (isinstance(n.value, ast.Constant) and n.value.value is None)
                    for b in node.body for n in ast.walk(b)
                ):
                    stops = True
        returns_error = any(
            isinstance(n, ast.Return) and isinstance(n.value, ast.Call) and _callee_name(n.value.func) == "Error" for n in ast.walk(fn)
        )
        if not (stops and returns_error):
            return False
    return True


def xsd_observed_checked(repo: pathlib.Path) -> bool:
    mod = _parse(repo, "aas_core_codegen/xsd/main.py")
    fn = _func(mod, "_generate")
    names = {n.id for n in ast.walk(fn) if isinstance(n, ast.Name)}
    if "observed_definitions" not in names:
        raise ExtractError("observed_definitions not found in xsd.main._generate")
    for node in ast.walk(fn):
        if isinstance(node, ast.For) and isinstance(node.iter, ast.Name) and node.iter.id == "root":
            appends = [
                n
                for n in ast.walk(node)
                if isinstance(n, ast.Call) and isinstance(n.func, ast.Attribute) and n.func.attr == "append"
                and isinstance(n.func.value, ast.Name) and n.func.value.id == "errors"
            ]
            if appends:
                return True
    return False


def model_type_reserved(repo: pathlib.Path, target: str) -> bool:
    """`_verify_structure_name_collisions` looks the name `<t>_naming.enum_name(Identifier("Model_type"))` up in its
    dictionary of structure names and appends an error."""
    mod = _parse(repo, f"aas_core_codegen/{target}/lib/_generate_types.py")
    fn = _func(mod, "_verify_structure_name_collisions")
    nodes = [
        n for n, _, _, _ in _sequence(
            _top_functions(mod), fn, {"symbol_table": "symbol_table"}, MAX_HELPER_DEPTH, ("_verify_intra_structure_collisions",), (fn.name,)
        )
    ]
    var: Optional[str] = None
    for node in nodes:
        if isinstance(node, ast.Assign) and len(node.targets) == 1 and isinstance(node.targets[0], ast.Name):
            call = node.value
            if (
                isinstance(call, ast.Call)
                and isinstance(call.func, ast.Attribute)
                and call.func.attr == "enum_name"
                and len(call.args) == 1
                and _is_identifier_ctor(call.args[0])
                and isinstance(call.args[0].args[0], ast.Constant)  # type: ignore[attr-defined]
                and call.args[0].args[0].value == "Model_type"  # type: ignore[attr-defined]
            ):
                var = node.targets[0].id
    if var is None:
        return False
    # <dict>.get(var, None) assigned to `other`; `if other is not None: errors.append(...)`
    looked: Optional[str] = None
    for node in nodes:
        if isinstance(node, ast.Assign) and len(node.targets) == 1 and isinstance(node.targets[0], ast.Name):
            call = node.value
            if (
                isinstance(call, ast.Call)
                and isinstance(call.func, ast.Attribute)
                and call.func.attr == "get"
                and call.args
                and isinstance(call.args[0], ast.Name)
                and call.args[0].id == var
            ):
                looked = node.targets[0].id
    if looked is None:
        return False
    for node in nodes:
        if isinstance(node, ast.If) and any(isinstance(n, ast.Name) and n.id == looked for n in ast.walk(node.test)):
            if any(
                isinstance(n, ast.Call) and isinstance(n.func, ast.Attribute) and n.func.attr == "append"
                and isinstance(n.func.value, ast.Name) and isinstance(n.args[0] if n.args else None, ast.Call)
                and _callee_name(n.args[0].func) == "Error"
                for b in node.body for n in ast.walk(b)
            ):
                return True
    return False


def model_type_literals_reserved(repo: pathlib.Path) -> bool:
    """golang `_verify_structure_name_collisions` walks `symbol_table.concrete_classes`, looks
    `enum_literal_name(Identifier("Model_type"), cls.name)` up in the dictionary of the structure names, appends an error
    for a name that is there and registers it otherwise."""
    mod = _parse(repo, "aas_core_codegen/golang/lib/_generate_types.py")
    fn = _func(mod, "_verify_structure_name_collisions")
    for node, _owner, aliases, _chain in _sequence(
        _top_functions(mod), fn, {"symbol_table": "symbol_table"}, MAX_HELPER_DEPTH, ("_verify_intra_structure_collisions",), (fn.name,)
    ):
        if not (isinstance(node, ast.For) and isinstance(node.target, ast.Name) and _colls_of(node.iter, aliases) == ["concrete_classes"]):
            continue
        var = node.target.id
        named = any(
            isinstance(n, ast.Call) and isinstance(n.func, ast.Attribute) and n.func.attr == "enum_literal_name"
            and len(n.args) == 2 and _is_identifier_ctor(n.args[0]) and isinstance(n.args[0].args[0], ast.Constant)  # type: ignore[attr-defined]
            and n.args[0].args[0].value == "Model_type" and _name_arg(n.args[1], var) == ("", "")  # type: ignore[attr-defined]
            for n in ast.walk(node)
        )
        appends = any(
            isinstance(n, ast.Call) and isinstance(n.func, ast.Attribute) and n.func.attr == "append"
            and isinstance(n.func.value, ast.Name) and n.args and isinstance(n.args[0], ast.Call) and _callee_name(n.args[0].func) == "Error"
            for n in ast.walk(node)
        )
        registers = any(
            isinstance(n, ast.Assign) and isinstance(n.targets[0], ast.Subscript) and isinstance(n.value, ast.Name) and n.value.id == var
            for n in ast.walk(node)
        )
        if named and appends and registers:
            return True
    return False


def _props_checked(repo: pathlib.Path, rel: str, naming_fn: str) -> bool:
    """`_define_properties` of a schema generator keeps a dictionary of the `naming.<naming_fn>(prop.name)` of ALL
    `cls.properties` and appends an error for a name that is already there (before any `continue`)."""
    mod = _parse(repo, rel)
    fn = _func(mod, "_define_properties")
    for node in ast.walk(fn):
        if not (
            isinstance(node, ast.For) and isinstance(node.target, ast.Name) and isinstance(node.iter, ast.Attribute)
            and node.iter.attr == "properties" and isinstance(node.iter.value, ast.Name) and node.iter.value.id == "cls"
        ):
            continue
        var = node.target.id
        name_var: Optional[str] = None
        for i, stmt in enumerate(node.body):
            if any(isinstance(n, ast.Continue) for n in ast.walk(stmt)) and name_var is None:
                return False
            if isinstance(stmt, ast.Assign) and len(stmt.targets) == 1 and isinstance(stmt.targets[0], ast.Name):
                call = stmt.value
                if (
                    isinstance(call, ast.Call) and isinstance(call.func, ast.Attribute) and call.func.attr == naming_fn
                    and isinstance(call.func.value, ast.Name) and call.func.value.id == "naming"
                    and len(call.args) == 1 and _name_arg(call.args[0], var) == ("", "")
                ):
                    name_var = stmt.targets[0].id
                    rest = node.body[i + 1 :]
                    # ... = <dict>.get(name_var, None); if ... is not None: errors.append(...)
                    looked = None
                    for st in rest:
                        if any(isinstance(n, ast.Continue) for n in ast.walk(st)) and looked is None:
                            return False
                        if isinstance(st, ast.Assign) and isinstance(st.value, ast.Call) and isinstance(st.value.func, ast.Attribute) \
                                and st.value.func.attr == "get" and st.value.args and isinstance(st.value.args[0], ast.Name) \
                                and st.value.args[0].id == name_var and isinstance(st.targets[0], ast.Name):
                            looked = st.targets[0].id
                        elif looked is not None and isinstance(st, ast.If) and any(
                            isinstance(n, ast.Name) and n.id == looked for n in ast.walk(st.test)
                        ):
                            return any(
                                isinstance(n, ast.Call) and isinstance(n.func, ast.Attribute) and n.func.attr == "append"
                                and isinstance(n.func.value, ast.Name) and n.func.value.id == "errors"
                                for b in st.body for n in ast.walk(b)
                            )
                    return False
        return False
    raise ExtractError(f"{rel}: no loop over cls.properties in _define_properties")


def json_properties_checked(repo: pathlib.Path) -> bool:
    return _props_checked(repo, "aas_core_codegen/jsonschema/main.py", "json_property")


def xsd_sequence_checked(repo: pathlib.Path) -> bool:
    return _props_checked(repo, "aas_core_codegen/xsd/main.py", "xml_property")


def xsd_types_shared(repo: pathlib.Path) -> bool:
    """The `observed_definitions` of `xsd.main._generate` are keyed by a symbol space that is the same for
    `xs:simpleType` and `xs:complexType` (not by the bare tag)."""
    mod = _parse(repo, "aas_core_codegen/xsd/main.py")
    fn = _func(mod, "_generate")
    for node in ast.walk(fn):
        if isinstance(node, ast.For) and isinstance(node.iter, ast.Name) and node.iter.id == "root":
            key_var: Optional[str] = None
            for sub in ast.walk(node):
                if (
                    isinstance(sub, ast.Call) and isinstance(sub.func, ast.Attribute) and sub.func.attr == "get"
                    and isinstance(sub.func.value, ast.Name) and sub.func.value.id == "observed_definitions" and sub.args
                ):
                    a = sub.args[0]
                    if isinstance(a, ast.Name):
                        key_var = a.id
                    else:
                        return False  # keyed by `element.tag`
            if key_var is None:
                return False
            for sub in ast.walk(node):
                if isinstance(sub, ast.If) and isinstance(sub.test, ast.Compare) and len(sub.test.ops) == 1 and isinstance(sub.test.ops[0], ast.In):
                    comp = sub.test.comparators[0]
                    if isinstance(comp, (ast.Tuple, ast.List, ast.Set)) and sorted(
                        e.value for e in comp.elts if isinstance(e, ast.Constant)
                    ) == ["xs:complexType", "xs:simpleType"]:
                        if any(
                            isinstance(n, ast.Assign) and isinstance(n.targets[0], ast.Name) and n.targets[0].id == key_var
                            and isinstance(n.value, ast.Constant)
                            for b in sub.body for n in ast.walk(b)
                        ):
                            return True
            return False
    return False


def _lean_str(s: str) -> str:
    return '"' + s.replace("\\", "\\\\").replace('"', '\\"') + '"'


def _lean_bool(b: bool) -> str:
    return "true" if b else "false"


def gen_Naming(repo: pathlib.Path) -> str:
    table, custom = naming_tables(repo)
    lines = [
        "import AasVerif.Model.Naming",
        HEADER.format(src="aas_core_codegen/naming.py, <target>/naming.py, <target>/lib/_generate_types.py, jsonschema/main.py, xsd/main.py").rstrip("\n"),
        "namespace AasVerif.Gen.Naming",
        "open AasVerif.Naming",
        "",
        "def convTable : List (String × ConvSpec) := [",
    ]
    items = []
    for key in sorted(table):
        s = table[key]
        items.append(
            f"  ({_lean_str(key)}, ⟨{lean_text(s['pre'])}, {lean_text(s['inner'])}, {_lean_str(s['callee'])}, "
            f"{lean_text(s['post'])}, {_lean_bool(s['requireUpperFirst'])}, {_lean_bool(s['typeSpecial'])}⟩)"
        )
    lines.append(",\n".join(items))
    lines.append("]")
    lines.append("")
    lines.append("def customFns : List String := [" + ", ".join(_lean_str(c) for c in sorted(custom)) + "]")
    lines.append("")
    lines.append("def intraLoops : List (String × List (String × String)) := [")
    items = []
    flags = []
    for t in SDK:
        loops, ret = intra_loops(repo, t)
        items.append(
            f"  ({_lean_str(t)}, [" + ", ".join(f"({_lean_str(k)}, {_lean_str(t + '.' + f)})" for k, f in loops) + "])"
        )
        flags.append(f"({_lean_str(t)}, {_lean_bool(ret)})")
    lines.append(",\n".join(items))
    lines.append("]")
    lines.append("")
    lines.append("def intraReturnsError : List (String × Bool) := [" + ", ".join(flags) + "]")
    lines.append("")
    lines.append("def globalChecks : List (String × List (String × List CheckLoop)) := [")
    items = []
    for t in SDK:
        dicts = []
        for kind, loops in global_checks(repo, t):
            ls = ", ".join(
                f"⟨{_lean_str(c)}, {_lean_str(f)}, {lean_text(pre)}, {lean_text(post)}, {lean_text(opre)}, {lean_text(opost)}⟩"
                for c, f, pre, post, opre, opost in loops
            )
            dicts.append(f"({_lean_str(kind)}, [{ls}])")
        items.append(f"  ({_lean_str(t)}, [" + ",\n    ".join(dicts) + "])")
    lines.append(",\n".join(items))
    lines.append("]")
    lines.append("")
    lines.append("def intraDerived : List (String × List (String × CheckLoop)) := [")
    items = []
    for t in SDK:
        ls = ", ".join(
            f"({_lean_str(k)}, ⟨\"members\", {_lean_str(f)}, {lean_text(pre)}, {lean_text(post)}, [], []⟩)" for k, f, pre, post in intra_derived(repo, t)
        )
        items.append(f"  ({_lean_str(t)}, [{ls}])")
    lines.append(",\n".join(items))
    lines.append("]")
    lines.append("")
    lines.append(
        "def modelTypeReserved : List (String × Bool) := ["
        + ", ".join(f"({_lean_str(t)}, {_lean_bool(model_type_reserved(repo, t))})" for t in SDK)
        + "]"
    )
    lines.append(f"def modelTypeLiteralsReserved : Bool := {_lean_bool(model_type_literals_reserved(repo))}")
    lines.append(f"def jsonPropertiesChecked : Bool := {_lean_bool(json_properties_checked(repo))}")
    lines.append(f"def xsdSequenceChecked : Bool := {_lean_bool(xsd_sequence_checked(repo))}")
    lines.append(f"def xsdTypesShared : Bool := {_lean_bool(xsd_types_shared(repo))}")
    lines.append(f"def modelTypeChecked : Bool := {_lean_bool(model_type_checked(repo))}")
    lines.append(f"def jsonDefinitionsChecked : Bool := {_lean_bool(definitions_checked(repo))}")
    lines.append(f"def xsdObservedChecked : Bool := {_lean_bool(xsd_observed_checked(repo))}")
    lines.append("end AasVerif.Gen.Naming")
    return "\n".join(lines) + "\n"


if __name__ == "__main__":
    import sys

    print(gen_Naming(pathlib.Path(sys.argv[1])))
