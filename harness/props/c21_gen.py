"""
C21 translator half: ``gen_Naming(repo) -> str`` renders as Lean data (Gen/Naming.lean)

* ``convTable``: every function of ``aas_core_codegen/naming.py`` and ``<target>/naming.py`` that has the
  shape ``return [Identifier(f"<pre>{] callee([Identifier(f"<inner>{]identifier[}")]) [}<post>")]``,
  optionally ``@require(lambda identifier: identifier[0].isupper())`` and the golang ``type -> typE``
  special case, as a ``ConvSpec``; the other functions are listed in ``customFns`` (hand-modelled);
* ``intraLoops``: for each SDK target the naming functions that ``_verify_intra_structure_collisions``
  applies inside ``for x in our_type.literals / .properties / .methods``, in source order;
* ``intraReturnsError``: whether ``_verify_intra_structure_collisions`` returns the ``Error`` it builds;
* ``modelTypeChecked``: whether ``jsonschema.main.generate`` looks at the result of
  ``definitions.update({"ModelType": ...})`` and returns it as an error;
* ``jsonDefinitionsChecked`` / ``xsdObservedChecked``: the ``if key in self._definitions: return Error``
  of ``Definitions.update_for`` and the ``observed_definitions`` loop of ``xsd.main._generate`` exist.

Parses with ``ast`` only; raises ExtractError when a construct is not found.
"""
from __future__ import annotations

import ast
import pathlib
from typing import Any, Dict, List, Optional, Tuple

from harness.extract import HEADER, ExtractError, _func, _parse, lean_text

SDK = ["cpp", "csharp", "golang", "java", "python", "typescript"]
NAMING_MODULES = [("naming", "aas_core_codegen/naming.py")] + [
    (t, f"aas_core_codegen/{t}/naming.py") for t in SDK + ["xsd"]
]
CALLEES = {
    "lower_snake_case",
    "upper_snake_case",
    "lower_camel_case",
    "capitalized_camel_case",
    "capital_camel_case",
    "_lower_camel_case",
}


def _callee_name(node: ast.AST) -> Optional[str]:
    if isinstance(node, ast.Name):
        return node.id
    if isinstance(node, ast.Attribute):
        return node.attr
    return None


def _is_identifier_ctor(node: ast.AST) -> bool:
    return isinstance(node, ast.Call) and _callee_name(node.func) == "Identifier" and len(node.args) == 1 and not node.keywords


def _inner_arg(node: ast.AST, arg: str) -> Optional[str]:
    """``identifier`` -> "" ; ``Identifier(f"mutable_{identifier}")`` / ``Identifier("set_" + identifier)`` -> prefix."""
    if isinstance(node, ast.Name) and node.id == arg:
        return ""
    if _is_identifier_ctor(node):
        inner = node.args[0]  # type: ignore[attr-defined]
        if isinstance(inner, ast.JoinedStr) and len(inner.values) == 2:
            a, b = inner.values
            if (
                isinstance(a, ast.Constant)
                and isinstance(a.value, str)
                and isinstance(b, ast.FormattedValue)
                and isinstance(b.value, ast.Name)
                and b.value.id == arg
                and b.conversion == -1
                and b.format_spec is None
            ):
                return a.value
        if (
            isinstance(inner, ast.BinOp)
            and isinstance(inner.op, ast.Add)
            and isinstance(inner.left, ast.Constant)
            and isinstance(inner.left.value, str)
            and isinstance(inner.right, ast.Name)
            and inner.right.id == arg
        ):
            return inner.left.value
    return None


def _core_call(node: ast.AST, arg: str) -> Optional[Tuple[str, str]]:
    """``callee(<inner arg>)`` -> (callee, inner prefix)"""
    if isinstance(node, ast.Call) and len(node.args) == 1 and not node.keywords:
        name = _callee_name(node.func)
        if name in CALLEES:
            inner = _inner_arg(node.args[0], arg)
            if inner is not None:
                return name, inner
    return None


def _return_shape(expr: ast.AST, arg: str) -> Optional[Tuple[str, str, str, str]]:
    """-> (pre, inner, callee, post)"""
    core = _core_call(expr, arg)
    if core is not None:
        return "", core[1], core[0], ""
    if _is_identifier_ctor(expr):
        inner = expr.args[0]  # type: ignore[attr-defined]
        if isinstance(inner, ast.JoinedStr):
            pre, post, found = "", "", None
            for v in inner.values:
                if isinstance(v, ast.Constant) and isinstance(v.value, str):
                    if found is None:
                        pre += v.value
                    else:
                        post += v.value
                elif isinstance(v, ast.FormattedValue) and found is None and v.conversion == -1 and v.format_spec is None:
                    found = _core_call(v.value, arg)
                    if found is None:
                        return None
                else:
                    return None
            if found is not None:
                return pre, found[1], found[0], post
    return None


def _is_upper_first_require(dec: ast.AST, arg: str) -> bool:
    if not (isinstance(dec, ast.Call) and _callee_name(dec.func) == "require" and dec.args):
        return False
    lam = dec.args[0]
    if not (isinstance(lam, ast.Lambda) and [a.arg for a in lam.args.args] == [arg]):
        return False
    body = lam.body
    # identifier[0].isupper()
    return (
        isinstance(body, ast.Call)
        and not body.args
        and isinstance(body.func, ast.Attribute)
        and body.func.attr == "isupper"
        and isinstance(body.func.value, ast.Subscript)
        and isinstance(body.func.value.value, ast.Name)
        and body.func.value.value.id == arg
        and isinstance(body.func.value.slice, ast.Constant)
        and body.func.value.slice.value == 0
    )


def _spec_of(fn: ast.FunctionDef) -> Optional[Dict[str, Any]]:
    args = fn.args
    if len(args.args) != 1 or args.vararg or args.kwarg or args.kwonlyargs or args.defaults:
        return None
    arg = args.args[0].arg
    require_upper = False
    for dec in fn.decorator_list:
        if _is_upper_first_require(dec, arg):
            require_upper = True
        else:
            return None
    body = list(fn.body)
    if body and isinstance(body[0], ast.Expr) and isinstance(body[0].value, ast.Constant) and isinstance(body[0].value.value, str):
        body = body[1:]
    type_special = False
    if len(body) == 2 and isinstance(body[0], ast.If):
        iff = body[0]
        t = iff.test
        ok = (
            isinstance(t, ast.Compare)
            and isinstance(t.left, ast.Name)
            and t.left.id == arg
            and len(t.ops) == 1
            and isinstance(t.ops[0], ast.Eq)
            and isinstance(t.comparators[0], ast.Constant)
            and t.comparators[0].value == "type"
            and not iff.orelse
            and len(iff.body) == 1
            and isinstance(iff.body[0], ast.Return)
            and _is_identifier_ctor(iff.body[0].value)
            and isinstance(iff.body[0].value.args[0], ast.Constant)  # type: ignore[union-attr]
            and iff.body[0].value.args[0].value == "typE"  # type: ignore[union-attr]
        )
        if not ok:
            return None
        type_special = True
        body = body[1:]
    if len(body) != 1 or not isinstance(body[0], ast.Return) or body[0].value is None:
        return None
    shape = _return_shape(body[0].value, arg)
    if shape is None:
        return None
    pre, inner, callee, post = shape
    return {
        "pre": pre,
        "inner": inner,
        "callee": callee,
        "post": post,
        "requireUpperFirst": require_upper,
        "typeSpecial": type_special,
    }


def naming_tables(repo: pathlib.Path) -> Tuple[Dict[str, Dict[str, Any]], List[str]]:
    table: Dict[str, Dict[str, Any]] = {}
    custom: List[str] = []
    for modname, rel in NAMING_MODULES:
        mod = _parse(repo, rel)
        fns = [n for n in mod.body if isinstance(n, ast.FunctionDef)]
        if not fns:
            raise ExtractError(f"no functions in {rel}")
        for fn in fns:
            spec = _spec_of(fn)
            key = f"{modname}.{fn.name}"
            if spec is None:
                custom.append(key)
            else:
                table[key] = spec
    return table, custom


LOOP_ATTRS = {"literals": "literal", "properties": "prop", "methods": "method"}


def intra_loops(repo: pathlib.Path, target: str) -> Tuple[List[Tuple[str, str]], bool]:
    mod = _parse(repo, f"aas_core_codegen/{target}/lib/_generate_types.py")
    fn = _func(mod, "_verify_intra_structure_collisions")
    loops: List[Tuple[str, str]] = []
    for node in ast.walk(fn):
        if (
            isinstance(node, ast.For)
            and isinstance(node.target, ast.Name)
            and isinstance(node.iter, ast.Attribute)
            and isinstance(node.iter.value, ast.Name)
            and node.iter.value.id == "our_type"
            and node.iter.attr in LOOP_ATTRS
        ):
            var = node.target.id
            calls = []
            for sub in ast.walk(node):
                if (
                    isinstance(sub, ast.Call)
                    and isinstance(sub.func, ast.Attribute)
                    and isinstance(sub.func.value, ast.Name)
                    and sub.func.value.id.endswith("_naming")
                    and len(sub.args) == 1
                    and isinstance(sub.args[0], ast.Attribute)
                    and isinstance(sub.args[0].value, ast.Name)
                    and sub.args[0].value.id == var
                    and sub.args[0].attr == "name"
                ):
                    calls.append((sub.lineno, sub.col_offset, sub.func.attr))
            for _, _, name in sorted(calls):
                loops.append((LOOP_ATTRS[node.iter.attr], name))
    if not loops:
        raise ExtractError(f"{target}: no naming loops found in _verify_intra_structure_collisions")
    # Does the function return the error it builds?  (a `return <non-None>` somewhere)
    returns_error = False
    for node in ast.walk(fn):
        if isinstance(node, ast.Return) and node.value is not None:
            if not (isinstance(node.value, ast.Constant) and node.value.value is None):
                returns_error = True
    # ... and the caller appends what is returned
    caller = _func(mod, "_verify_structure_name_collisions")
    forwarded = False
    for node in ast.walk(caller):
        if isinstance(node, ast.Call) and _callee_name(node.func) == "_verify_intra_structure_collisions":
            forwarded = True
    verify = _func(mod, "verify")
    calls_structure = any(
        isinstance(n, ast.Call) and _callee_name(n.func) == "_verify_structure_name_collisions" for n in ast.walk(verify)
    )
    return loops, bool(returns_error and forwarded and calls_structure)


def model_type_checked(repo: pathlib.Path) -> bool:
    mod = _parse(repo, "aas_core_codegen/jsonschema/main.py")
    fn = _func(mod, "generate")
    target: Optional[str] = None
    found = False
    for node in ast.walk(fn):
        if isinstance(node, (ast.Assign, ast.Expr, ast.AnnAssign)):
            call = node.value
            if (
                isinstance(call, ast.Call)
                and isinstance(call.func, ast.Attribute)
                and call.func.attr == "update"
                and call.args
                and isinstance(call.args[0], ast.Dict)
                and any(isinstance(k, ast.Constant) and k.value == "ModelType" for k in call.args[0].keys)
            ):
                found = True
                if isinstance(node, ast.Assign) and len(node.targets) == 1 and isinstance(node.targets[0], ast.Name):
                    target = node.targets[0].id
    if not found:
        raise ExtractError("definitions.update({'ModelType': ...}) not found in jsonschema.main.generate")
    if target is None:
        return False
    for node in ast.walk(fn):
        if isinstance(node, ast.If) and any(isinstance(n, ast.Name) and n.id == target for n in ast.walk(node.test)):
            if any(isinstance(n, ast.Return) for b in node.body for n in ast.walk(b)):
                return True
    return False


def definitions_checked(repo: pathlib.Path) -> bool:
    mod = _parse(repo, "aas_core_codegen/jsonschema/main.py")
    for name in ("update_for", "update"):
        fn = _func(mod, name)
        ok = False
        for node in ast.walk(fn):
            if isinstance(node, ast.If) and isinstance(node.test, ast.Compare) and isinstance(node.test.ops[0], ast.In):
                if any(isinstance(n, ast.Return) and n.value is not None for b in node.body for n in ast.walk(b)):
                    ok = True
        if not ok:
            return False
    return True


def xsd_observed_checked(repo: pathlib.Path) -> bool:
    mod = _parse(repo, "aas_core_codegen/xsd/main.py")
    fn = _func(mod, "_generate")
    names = {n.id for n in ast.walk(fn) if isinstance(n, ast.Name)}
    if "observed_definitions" not in names:
        raise ExtractError("observed_definitions not found in xsd.main._generate")
    for node in ast.walk(fn):
        if isinstance(node, ast.For) and isinstance(node.iter, ast.Name) and node.iter.id == "root":
            appends = [
                n
                for n in ast.walk(node)
                if isinstance(n, ast.Call) and isinstance(n.func, ast.Attribute) and n.func.attr == "append"
                and isinstance(n.func.value, ast.Name) and n.func.value.id == "errors"
            ]
            if appends:
                return True
    return False


def _lean_str(s: str) -> str:
    return '"' + s.replace("\\", "\\\\").replace('"', '\\"') + '"'


def _lean_bool(b: bool) -> str:
    return "true" if b else "false"


def gen_Naming(repo: pathlib.Path) -> str:
    table, custom = naming_tables(repo)
    lines = [
        "import AasVerif.Model.Naming",
        HEADER.format(src="aas_core_codegen/naming.py, <target>/naming.py, <target>/lib/_generate_types.py, jsonschema/main.py, xsd/main.py").rstrip("\n"),
        "namespace AasVerif.Gen.Naming",
        "open AasVerif.Naming",
        "",
        "def convTable : List (String × ConvSpec) := [",
    ]
    items = []
    for key in sorted(table):
        s = table[key]
        items.append(
            f"  ({_lean_str(key)}, ⟨{lean_text(s['pre'])}, {lean_text(s['inner'])}, {_lean_str(s['callee'])}, "
            f"{lean_text(s['post'])}, {_lean_bool(s['requireUpperFirst'])}, {_lean_bool(s['typeSpecial'])}⟩)"
        )
    lines.append(",\n".join(items))
    lines.append("]")
    lines.append("")
    lines.append("def customFns : List String := [" + ", ".join(_lean_str(c) for c in sorted(custom)) + "]")
    lines.append("")
    lines.append("def intraLoops : List (String × List (String × String)) := [")
    items = []
    flags = []
    for t in SDK:
        loops, ret = intra_loops(repo, t)
        items.append(
            f"  ({_lean_str(t)}, [" + ", ".join(f"({_lean_str(k)}, {_lean_str(t + '.' + f)})" for k, f in loops) + "])"
        )
        flags.append(f"({_lean_str(t)}, {_lean_bool(ret)})")
    lines.append(",\n".join(items))
    lines.append("]")
    lines.append("")
    lines.append("def intraReturnsError : List (String × Bool) := [" + ", ".join(flags) + "]")
    lines.append(f"def modelTypeChecked : Bool := {_lean_bool(model_type_checked(repo))}")
    lines.append(f"def jsonDefinitionsChecked : Bool := {_lean_bool(definitions_checked(repo))}")
    lines.append(f"def xsdObservedChecked : Bool := {_lean_bool(xsd_observed_checked(repo))}")
    lines.append("end AasVerif.Gen.Naming")
    return "\n".join(lines) + "\n"


if __name__ == "__main__":
    import sys

    print(gen_Naming(pathlib.Path(sys.argv[1])))
