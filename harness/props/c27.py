"""C27 — wrap_text_into_lines: correspondence with Model.Wrap and the direct oracle."""
from __future__ import annotations

import itertools
from typing import Any, Dict, Iterator, List, Tuple

from harness.core import Ctx, corpus, crash_name, dec_list, enc_list, enc_text

ID = "C27"
GEN = ["Wrap"]
ARTS = ("a", "an", "the")  # the oracle's own reading of the statement ('a', 'an', 'the')

VOCAB = ["a", "an", "the", "x", "word", "", "abcdefghij"]
WIDTHS = [0, 1, 3, 5, 6, 10, 60]
CLASSES = ["a", "an", "the", "A", "than", "x", "wörd", "\t", "\n", "", "", "0123456789abc", "\ud800", "😀", "the\n", "a,"]


def impl(text: str, width: Any) -> Any:
    from aas_core_codegen.common import wrap_text_into_lines

    try:
        if width is None:
            return wrap_text_into_lines(text)
        return wrap_text_into_lines(text, width)
    except BaseException as e:  # noqa
        return crash_name(e)


def inputs(ctx: Ctx) -> Iterator[Tuple[str, Any, str]]:
    for c in corpus(ID):
        yield c["text"], c["width"], "corpus"
    # enumerated, seed independent
    maxw = 4 if ctx.tier == "quick" else 5
    for k in range(0, maxw + 1):
        for words in itertools.product(VOCAB, repeat=k):
            text = " ".join(words)
            for w in (WIDTHS if k <= 3 else [1, 5, 10]):
                yield text, w, "enumerated"
    for text in ["", " ", "  ", "a", "the ", " the", "the  x"]:
        yield text, None, "default-width"
    # random
    for _ in range(ctx.n(4000, 200000)):
        k = ctx.rng.randint(0, 14)
        words = [ctx.rng.choice(CLASSES if ctx.rng.random() < 0.5 else VOCAB) for _ in range(k)]
        sep = [" " if ctx.rng.random() < 0.85 else "  " for _ in range(k)]
        text = "".join(w + s for w, s in zip(words, sep))
        if ctx.rng.random() < 0.5:
            text = text.rstrip(" ")
        yield text, ctx.rng.choice([0, 1, 2, 3, 4, 5, 7, 10, 20, 60, 80, None]), "random"


def words_of(seg: str) -> List[str]:
    return [p for p in seg.split(" ") if p != ""]


def judge(text: str, width: int, segs: Any) -> List[Tuple[str, str]]:
    """The statement of C27 decided on one real output. Returns [(sig, what)]."""
    if isinstance(segs, str):
        return [("C27:crash:" + segs, f"wrap raised {segs}")]
    bad = []
    if "".join(segs) != text:
        bad.append(("C27:join", "concatenated segments differ from the text"))
    for i, seg in enumerate(segs):
        ws = words_of(seg)
        if len(seg) > width:
            non_art = [p for p in ws if p not in ARTS]
            single = (len(non_art) == 0 and len(ws) <= 1) or (len(non_art) == 1 and ws[-1] == non_art[0])
            if not single:
                bad.append(("C27:fits", f"segment {i} {seg!r} is longer than {width} and not a single word"))
        if ws and ws[-1] in ARTS:
            later = [p for s in segs[i + 1 :] for p in words_of(s) if p not in ARTS]
            if later:
                bad.append(("C27:article", f"segment {i} {seg!r} ends with an article while {later[0]!r} follows"))
    return bad


def _run(ctx: Ctx, with_model: bool) -> None:
    batch: List[Tuple[str, Any, str]] = []
    for text, width, stream in inputs(ctx):
        batch.append((text, width, stream))
    outs = [impl(t, w) for t, w, _ in batch]
    if with_model:
        lines = [f"wrap {'d' if w is None else w} {enc_text(t)}" for t, w, _ in batch]
        mouts = ctx.model(lines)
    for k, ((text, width, stream), got) in enumerate(zip(batch, outs)):
        ctx.count((text, width), nontrivial=(" " in text), stream=stream)
        if k % 997 == 0:
            ctx.sample({"text": text, "width": width, "segments": got})
        if with_model:
            want = mouts[k]
            got_w = got if isinstance(got, str) else enc_list(got)
            if got_w != want:
                ctx.disagree("wrap", {"text": text, "width": width}, got, want if want == "bad-op" else dec_list(want))
            ctx.traces_validated += 1
        eff = 60 if width is None else width
        if not isinstance(got, str):
            ctx.hit("segments=1" if len(got) == 1 else "segments>1")
            if any(len(s) > eff for s in got):
                ctx.hit("overlong-token")
            if got and got[0] == "":
                ctx.hit("empty-first-segment")
        for sig, what in judge(text, eff, got):
            ctx.fail({"text": text, "width": width}, what, sig)


def correspond(ctx: Ctx) -> None:
    ctx.extra_cov["rule"] = (
        "texts = corpus + all texts of <=4 (quick) / <=5 (thorough) words over a 7-word vocabulary incl. the articles and "
        "the empty word x 7 widths + seeded random texts over 16 word classes; non-trivial = text contains a space "
        "(more than one part); distinct by (text, width)"
    )
    _run(ctx, True)


def oracle(ctx: Ctx) -> None:
    # The oracle is evaluated on every correspondence input in _run; when the driver is
    # not available (broken build) it runs alone.
    if not ctx.driver_ok or ctx.searching:
        _run(ctx, False)


def replay(ctx: Ctx, data: Dict[str, Any]) -> Any:
    inp = data["failure"]["input"] if "failure" in data else data
    text, width = inp["text"], inp["width"]
    got = impl(text, width)
    res = {"impl": got, "oracle": judge(text, 60 if width is None else width, got)}
    if ctx.driver_ok:
        m = ctx.model([f"wrap {'d' if width is None else width} {enc_text(text)}"])[0]
        res["model"] = m if m == "bad-op" else dec_list(m)
    return res
