"""C24 — the model cache survives crashes and concurrent runs: correspondence with Model.Cache
on crash/interleaving schedules executed on the real ``run.load_model``, and the schedule-level oracle."""
from __future__ import annotations

from typing import Any, Dict, List, Tuple

from harness import cache_common as cc
from harness.cache_gen import gen_Cache  # noqa: F401  (GEN)
from harness.core import Ctx, corpus

ID = "C24"
GEN = ["Cache"]

ASSUMPTIONS = [
    "POSIX rename(2) replaces the target atomically; an open read handle keeps the file it was opened on",
    "sha256 is treated as injective on model texts (Cfg.hash injective in the theorems)",
    "uuid4 values of different runs differ (a run's uid is its index in the model; Gen.tmpNameHasUuid4 is checked)",
    "data handed to a buffered writer are only guaranteed on disk after close; a killed run loses what was not flushed",
]


def scenarios(ctx: Ctx) -> List[Tuple[str, List[Tuple[str, List[cc.Event], bool]], str]]:
    out: List[Tuple[str, List[Tuple[str, List[cc.Event], bool]], str]] = []
    cor = []
    for c in corpus(ID):
        if c.get("kind") == "schedule":
            cor.append((c.get("name", "corpus"), [tuple(e) for e in c["sched"]], bool(c.get("mid_dump", False))))
    out.append(("corpus", cor, "enum"))
    out.append(("crash-points", list(cc.crash_scenarios()), "enum"))
    out.append(("two-writers-same-text", list(cc.two_writer_scenarios(0, 0)), "enum"))
    # two concurrent writers on DIFFERENT models in one process: all 252 interleavings also in quick (a tmp name shared
    # between the runs of a process only shows as a foreign / damaged entry here)
    out.append(("two-writers-different-text", list(cc.two_writer_scenarios(0, 1)), "enum"))
    out.append(("reader-vs-writer", list(cc.reader_scenarios()), "enum"))
    out.append(("two-readers-warm", list(cc.two_reader_scenarios()), "enum"))
    # >= 3 runs on the SAME model: paused cache-miss writer x committing writer x later cache-hit run, all orders
    out.append(("three-runs-same-text", list(cc.three_run_scenarios(0, 0)), "enum"))
    out.append(("three-runs-paused-writer-on-other-text", list(cc.three_run_scenarios(1, 0, ks=[cc.WARM_OPS] if ctx.tier == "quick" else None)), "enum"))
    same = []
    for k in range(ctx.n(60, 1500)):
        same.append((f"random-same-{k}", cc.random_same_model_schedule(ctx.rng, ctx.rng.choice([3, 3, 4, 5])), False))
    out.append(("random-same-model", same, "enum"))
    rnd = []
    for k in range(ctx.n(120, 2500)):
        nproc = 3 if k % 2 == 0 else ctx.rng.choice([2, 4, 5])
        rnd.append((f"random-{k}", cc.random_schedule(ctx.rng, nproc, ctx.rng.randint(15, 70)), ctx.rng.random() < 0.5))
    out.append(("random-3-procs", rnd, "enum"))
    if ctx.tier == "thorough":
        out.append(("crash-points-big-model", list(cc.crash_scenarios()), "deep_class_hierarchy"))
        out.append(("two-writers-big-model", list(cc.two_writer_scenarios(0, 0))[::4], "deep_class_hierarchy"))
        out.append(("three-runs-big-model", list(cc.three_run_scenarios(0, 0))[::3], "deep_class_hierarchy"))
    return out


def _run(ctx: Ctx, with_model: bool) -> None:
    ctx.assumptions[:] = ASSUMPTIONS
    ctx.extra_cov["rule"] = (
        "an input is a schedule (spawn/step/exception/kill events over up to 5 runs sharing one cache directory) "
        "executed on the real load_model and on Cache.run; distinct by (fixture model, schedule, crash inside dump?); "
        "non-trivial = at least one run has cache_model set"
    )
    for stream, scs, base in scenarios(ctx):
        cc.run_batch(ctx, scs, stream, base=base, with_model=with_model)


def correspond(ctx: Ctx) -> None:
    _run(ctx, True)
    if ctx.tier == "thorough":
        from harness import cache_kill

        cache_kill.kill9_runs(ctx)


def oracle(ctx: Ctx) -> None:
    # the schedule-level oracle (cache_common.Judge) is evaluated on every correspondence scenario;
    # it runs alone when the driver is not available or while searching
    if not ctx.driver_ok or ctx.searching:
        _run(ctx, False)


def replay(ctx: Ctx, data: Dict[str, Any]) -> Any:
    inp = data["failure"]["input"] if "failure" in data else data
    if inp.get("kind") == "schedule":
        return cc.replay_schedule(ctx, inp)
    if inp.get("kind") == "kill9":
        from harness import cache_kill

        return cache_kill.replay(ctx, inp)
    return {"error": "unknown replay kind"}
