"""C14 — XSD enforces the constraints a class declares itself.

Direct oracle (independent of Lean, from the statement): for every XML document the generated SDK
writes for an invariant-satisfying instance, (a) every single-value mutant that breaks a length,
pattern or list-size constraint *inferred for the class that specifies the property* (or for the
constrained primitive it uses) — the real ``infer_constraints_by_class`` result is the input —
and (b) every document with one unknown, one misplaced or one missing required element must be
rejected by ``schema.xsd`` under xmlschema in XSD 1.0 and 1.1 mode.  Tightenings that descendants
apply to inherited properties are not looked up at all (excluded by the statement).

Correspondence: the facets (pattern / minLength / maxLength) and occurrence bounds the generator
writes for every property, against ``Model/Xsd.lean`` fed with the real inferred constraints.

Enumerated part (``c14_models``, run first by ``c13.enumerated_stage``): boundary models whose constraints
are *designed* (known from the construction of the invariants, so a constraint the inference loses still
yields a mutant) and whose instances are built deterministically through the SDK constructors.
"""
from __future__ import annotations

import base64
import copy
import re
import xml.etree.ElementTree as ET
from typing import Any, Dict, Iterator, List, Optional, Tuple

from harness.core import Ctx, corpus, enc_text
from harness.props import c13

ID = "C14"
from harness import pattern_shape

GEN = ["Xsd", "PatternShape"]
gen_Xsd = c13.gen_Xsd
gen_PatternShape = pattern_shape.gen_PatternShape

_XS = "{http://www.w3.org/2001/XMLSchema}"


def own_constraints(b: c13.Built, cls: Any) -> Iterator[Tuple[Any, Any, Any, Any]]:
    """(property of cls, type annotation beneath Optional, constraints of that value, of its items) — looked up in the class that *specifies* the property."""
    from aas_core_codegen import infer_for_schema, intermediate

    if not hasattr(b, "constraints"):
        cbc, errs = infer_for_schema.infer_constraints_by_class(symbol_table=b.symbol_table)
        b.constraints = cbc  # type: ignore[attr-defined]
    if b.constraints is None:  # type: ignore[attr-defined]
        return
    for prop in cls.properties:
        owner = prop.specified_for
        own_prop = owner.properties_by_name[prop.name]
        anno = intermediate.beneath_optional(own_prop.type_annotation)
        by_value = b.constraints[owner]  # type: ignore[attr-defined]
        cons = by_value.get(anno, None)
        item_cons = None
        if isinstance(anno, intermediate.ListTypeAnnotation):
            item_cons = by_value.get(anno.items, None)
        yield prop, anno, cons, item_cons


def _primitive(anno: Any) -> Optional[str]:
    from aas_core_codegen import intermediate

    pt = intermediate.try_primitive_type(anno)
    return None if pt is None else pt.name


def _breaking_texts(cons: Any, current: str) -> List[Tuple[str, str]]:
    """Texts that break exactly the inferred constraints of a string value: (kind, text)."""
    out: List[Tuple[str, str]] = []
    if cons is None:
        return out
    lc = cons.len_constraint
    if lc is not None:
        if lc.max_value is not None:
            out.append(("length-above-max", (current or "a") * (lc.max_value + 1)))
            out[-1] = ("length-above-max", out[-1][1][: lc.max_value + 1])
        if lc.min_value is not None and lc.min_value > 0:
            out.append(("length-below-min", current[: lc.min_value - 1]))
    for pc in cons.patterns or []:
        try:
            rx = re.compile(pc.pattern)
        except re.error:
            continue
        for cand in ["", "!", " ", current + "\x7f", "\x7f" + current, "§", "0", "a", "zzzzzzzzzzzzzzzzzzzzzzzzzzzzzzzzzzz~"]:
            try:
                if c13.is_xml_string(cand) and rx.match(cand) is None:
                    out.append(("pattern", cand))
                    break
            except BaseException:  # noqa
                break
    return out


def mutants_of(b: c13.Built, cname: str, xml_text: str) -> Iterator[Tuple[str, str]]:
    """(label, mutated document). Only direct children of the root element are touched."""
    from aas_core_codegen import intermediate, naming

    cls = b.symbol_table.must_find_class(naming.Identifier(cname)) if hasattr(b.symbol_table, "must_find_class") else b.symbol_table.must_find_our_type(cname)
    root = ET.fromstring(xml_text)
    ns = root.tag[: root.tag.index("}") + 1] if root.tag.startswith("{") else ""
    ET.register_namespace("", ns[1:-1])

    def emit(r: ET.Element) -> str:
        return ET.tostring(r, encoding="unicode")

    by_name = {child.tag: child for child in root}
    for prop, anno, cons, item_cons in own_constraints(b, cls):
        tag = ns + naming.xml_property(prop.name)
        if tag not in by_name:
            continue
        idx = list(root).index(by_name[tag])
        prim = _primitive(anno)
        if prim == "STR":
            for kind, text in _breaking_texts(cons, by_name[tag].text or ""):
                r = copy.deepcopy(root)
                r[idx].text = text
                yield f"{kind}@{prop.name}", emit(r)
        elif prim == "BYTEARRAY" and cons is not None and cons.len_constraint is not None:
            lc = cons.len_constraint
            if lc.max_value is not None:
                r = copy.deepcopy(root)
                r[idx].text = base64.b64encode(b"\x01" * (lc.max_value + 1)).decode("ascii")
                yield f"length-above-max@{prop.name}", emit(r)
            if lc.min_value is not None and lc.min_value > 0:
                r = copy.deepcopy(root)
                r[idx].text = base64.b64encode(b"\x01" * (lc.min_value - 1)).decode("ascii")
                yield f"length-below-min@{prop.name}", emit(r)
        elif isinstance(anno, intermediate.ListTypeAnnotation):
            items = list(by_name[tag])
            if cons is not None and cons.len_constraint is not None:
                lc = cons.len_constraint
                if lc.max_value is not None and items:
                    r = copy.deepcopy(root)
                    while len(r[idx]) <= lc.max_value:
                        r[idx].append(copy.deepcopy(items[0]))
                    yield f"list-above-max@{prop.name}", emit(r)
                if lc.min_value is not None and lc.min_value > 0:
                    r = copy.deepcopy(root)
                    for ch in list(r[idx])[lc.min_value - 1 :]:
                        r[idx].remove(ch)
                    yield f"list-below-min@{prop.name}", emit(r)
            if item_cons is not None and items and _primitive(anno.items) == "STR":
                for kind, text in _breaking_texts(item_cons, items[0].text or ""):
                    r = copy.deepcopy(root)
                    r[idx][0].text = text
                    yield f"item-{kind}@{prop.name}", emit(r)
    # structure
    children = list(root)
    for pos in sorted({0, len(children) // 2, len(children)}):
        r = copy.deepcopy(root)
        r.insert(pos, ET.Element(ns + "zzUnknownElement"))
        yield f"unknown-element@{pos}", emit(r)
    for child in children[:1]:
        if len(child) > 0:
            r = copy.deepcopy(root)
            r[0].insert(0, ET.Element(ns + "zzUnknownElement"))
            yield "unknown-element@nested", emit(r)
    for i in range(len(children) - 1):
        if children[i].tag != children[i + 1].tag:
            r = copy.deepcopy(root)
            a, c = r[i], r[i + 1]
            r.remove(a)
            r.insert(i + 1, a)
            yield f"misplaced@{i}", emit(r)
            break
    if children:
        r = copy.deepcopy(root)
        dup = copy.deepcopy(r[-1])
        r.append(dup)
        yield "duplicated-element@last", emit(r)
    for prop in cls.properties:
        if isinstance(prop.type_annotation, intermediate.OptionalTypeAnnotation):
            continue
        tag = ns + naming.xml_property(prop.name)
        if tag in by_name:
            r = copy.deepcopy(root)
            r.remove(r[list(root).index(by_name[tag])])
            yield f"missing-required@{prop.name}", emit(r)
            break


def judge_mutants(ctx: Ctx, b: c13.Built, cname: str, instance: Any, xml_text: str) -> None:
    try:
        muts = list(mutants_of(b, cname, xml_text))
    except BaseException as e:  # noqa
        ctx.hit("mutator-raised:" + type(e).__name__)
        return
    for label, doc in muts:
        kind = label.split("@")[0]
        ctx.count((doc, label), stream="mutant/" + kind)
        for ver in ("1.0", "1.1"):
            errs = c13.validation_errors(b.schemas[ver], doc)
            if not errs:
                ctx.hit("mutant-accepted=" + kind)
                ctx.fail(
                    {"model": b.source, "class": cname, "document": doc, "mutation": label, "sig": "C14:mutant-accepted:" + kind},
                    f"the XSD {ver} schema accepts a document with the mutation {label} of an SDK-written document",
                    "C14:mutant-accepted:" + kind,
                )
                break
        else:
            ctx.hit("mutant-rejected=" + kind)


def correspond(ctx: Ctx) -> None:
    ctx.extra_cov["rule"] = (
        "documents: SDK-written XML of invariant-satisfying instances of every concrete class of random meta-models "
        "(mm.random_mm, with escape-heavy patterns planted) and of the single-pattern models; mutants: one value breaking "
        "one inferred own-class constraint (length above max / below min, pattern, list size, item constraints), one "
        "unknown / misplaced / duplicated / missing required element; distinct by document. "
        "Enumerated first (c14_models, seed-independent, DESIGNED constraints — not read back from the inference): list sizes and "
        "string lengths over {0,1,2,9,10,11,99,100} in all min/max combinations x required/optional/list item, at min-1 and max+1; "
        "values with 2-3 patterns from every source combination (class, ancestor, constrained primitive, its ancestors; "
        "three-level chains declared descendant-first) with texts matching all patterns but one; SDK-written documents of "
        "instances that break exactly one constraint"
    )
    ctx.assumptions += [
        "XSD validation semantics are those of the independent xmlschema library (XSD 1.0 and 1.1 modes)",
        "the inferred constraints (infer_for_schema.infer_constraints_by_class) are the input of the check, not its subject (C15)",
    ]
    ctx.extra_cov["rule"] += (
        "; patterns (shape/…, pattern-enforced/…): anchors in every unusual position (46 enumerated), the corpus/enumerated/random "
        "patterns of C13 and anchors planted at random positions into them: the real _verify_patterns_anchored_at_start_and_end "
        "against the model, and for every pattern it accepts <= 90 texts (samples of the language and their one-character "
        "neighbours, the pattern without its anchors): a text Python's re rejects must be rejected by the written pattern facet"
    )
    facet_stage(ctx)
    pattern_shape.shape_stage(ctx)


def oracle(ctx: Ctx) -> None:
    pattern_shape.anchor_oracle(ctx)
    c13.intersection_stage(ctx, accepts_invalid=True)
    c13.enumerated_stage(ctx, valid=False, mutants=True)
    c13.close_families(ctx)
    c13.model_stage(ctx, ctx.n(22, 300), mutants=True)


def facet_stage(ctx: Ctx) -> None:
    """Facets and occurrence bounds written by the generator == Model/Xsd.lean on the real inferred constraints."""
    from harness import mm
    from aas_core_codegen import intermediate, naming
    from aas_core_codegen.xsd import naming as xsd_naming

    lines: List[str] = []
    expected: List[Tuple[str, str, str]] = []
    n_models = 0
    def built() -> Iterator[Tuple[Any, str]]:
        for fam in c13.enumerated_families(ctx):
            yield c13.built_family(ctx, fam), "enumerated-" + fam.name.split("-")[0]
        for m, stream in c13.models(ctx, ctx.n(10, 120)):
            yield c13.build_model(ctx, m, with_sdk=False), stream

    for b, stream in built():
        if b.xsd_text is None:
            continue
        n_models += 1
        root = ET.fromstring(b.xsd_text)
        groups = {g.get("name"): g for g in root if g.tag == _XS + "group"}
        for cls in b.symbol_table.classes:
            g = groups.get(xsd_naming.group_name(cls.name))
            if g is None:
                continue
            elements = {e.get("name"): e for e in g.find(_XS + "sequence") if e.tag == _XS + "element"}
            for prop, anno, cons, item_cons in own_constraints(b, cls):
                if prop.specified_for is not cls:
                    continue
                el = elements.get(naming.xml_property(prop.name))
                if el is None:
                    ctx.disagree("facets/missing-element", {"class": str(cls.name), "property": str(prop.name)}, "absent", "present")
                    continue
                prim = _primitive(anno)
                if prim is not None:
                    got = _facets_of(el)
                    lines.append("simple " + prim + " " + _enc_cons(cons))
                    expected.append((got, f"{cls.name}.{prop.name}", stream))
                elif isinstance(anno, intermediate.ListTypeAnnotation):
                    seq = el.find(_XS + "complexType/" + _XS + "sequence")
                    item = list(seq)[0]
                    got = f"occurs {item.get('minOccurs')} {item.get('maxOccurs')}"
                    lines.append("list " + _enc_len(cons))
                    expected.append((got, f"{cls.name}.{prop.name}", stream))
                    iprim = _primitive(anno.items)
                    if iprim is not None:
                        lines.append("simple " + iprim + " " + _enc_cons(item_cons))
                        expected.append((_facets_of(item), f"{cls.name}.{prop.name}[]", stream))
    answers = ctx.model(lines)
    for ln, (got, where, stream), want in zip(lines, expected, answers):
        ctx.count(ln + where, stream="facets/" + stream)
        ctx.traces_validated += 1
        if " pattern * " in want + " ":
            # two or more patterns: the model only says "one pattern facet (text by greenery), then the length facets"
            got = re.sub(r" pattern (?:[0-9a-f.]+|-)(?= |$)", " pattern *", got)
            ctx.hit("facets=intersected-patterns")
        ctx.hit("facets=" + ("restricted" if "pattern" in got or "Length" in got or got.startswith("occurs") and got != "occurs 0 unbounded" else "plain"))
        if got != want:
            ctx.disagree("facets/" + stream, {"request": ln, "where": where}, got, want)
    ctx.hit("facet-models", n_models)


def _facets_of(el: ET.Element) -> str:
    st = el.find(_XS + "simpleType")
    if st is None:
        return f"type {el.get('type')}"
    r = st.find(_XS + "restriction")
    parts = [f"base {r.get('base')}"]
    for f in r:
        name = f.tag[len(_XS):]
        parts.append(f"{name} {enc_text(f.get('value'))}" if name == "pattern" else f"{name} {f.get('value')}")
    return " ".join(parts)


def _enc_len(cons: Any) -> str:
    if cons is None or cons.len_constraint is None:
        return "n n"
    lc = cons.len_constraint
    return f"{'n' if lc.min_value is None else lc.min_value} {'n' if lc.max_value is None else lc.max_value}"


def _enc_cons(cons: Any) -> str:
    if cons is None:
        return "n n []"
    pats = [p.pattern for p in (cons.patterns or [])]
    return _enc_len(cons) + " " + (",".join(enc_text(p) for p in pats) if pats else "[]")


def replay(ctx: Ctx, data: Dict[str, Any]) -> Any:
    inp = data["failure"]["input"] if "failure" in data else data
    before = len(ctx.failures)
    if "intersect" in inp:
        res = c13.judge_intersection(ctx, inp["intersect"], "replay", extra=[inp["text"]] if "text" in inp else [], accepts_invalid=True)
    else:
        res = c13.replay_model(ctx, inp)
    res["oracle"] = [(f["sig"], f["what"]) for f in ctx.failures[before:]]
    return res
