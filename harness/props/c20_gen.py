"""C20 — extractor for Gen/Descr.lean: the string constants, replacement pairs and limits of the
description/comment wrappers, read from the sources with ``ast`` (never imported)."""
from __future__ import annotations

import ast
import pathlib
import re
from typing import Any, Dict, List, Optional, Tuple

from harness import extract
from harness.extract import ExtractError, HEADER, _func, _class, _parse, lean_text


def _const_str(node: ast.AST, what: str) -> str:
    if isinstance(node, ast.Constant) and isinstance(node.value, str):
        return node.value
    raise ExtractError(f"{what}: expected a string constant, got {ast.dump(node)[:80]}")


def _repl_chain(expr: ast.AST, what: str) -> Tuple[str, List[Tuple[str, str]]]:
    """`name.replace(a, b).replace(c, d)` -> (name, [(a, b), (c, d)])"""
    pairs: List[Tuple[str, str]] = []
    node = expr
    while isinstance(node, ast.Call) and isinstance(node.func, ast.Attribute) and node.func.attr == "replace":
        if len(node.args) != 2 or node.keywords:
            raise ExtractError(f"{what}: replace() with unexpected arguments")
        a, b = _const_str(node.args[0], what), _const_str(node.args[1], what)
        if a == "":
            raise ExtractError(f"{what}: replace() of the empty string is not modelled")
        pairs.append((a, b))
        node = node.func.value
    if not isinstance(node, ast.Name):
        raise ExtractError(f"{what}: replacement chain does not start at a name")
    pairs.reverse()
    return node.id, pairs


def _fstring_parts(node: ast.AST, var: str, what: str) -> Tuple[str, str]:
    """f"<pre>{var}<suf>" -> (pre, suf)"""
    if not isinstance(node, ast.JoinedStr):
        raise ExtractError(f"{what}: expected an f-string")
    pre, suf, seen = "", "", False
    for v in node.values:
        if isinstance(v, ast.Constant) and isinstance(v.value, str):
            if seen:
                suf += v.value
            else:
                pre += v.value
        elif isinstance(v, ast.FormattedValue) and isinstance(v.value, ast.Name) and v.value.id == var and not seen:
            if v.conversion != -1 or v.format_spec is not None:
                raise ExtractError(f"{what}: formatted value with conversion/format spec")
            seen = True
        else:
            raise ExtractError(f"{what}: unexpected f-string part {ast.dump(v)[:80]}")
    if not seen:
        raise ExtractError(f"{what}: f-string does not contain {{{var}}}")
    return pre, suf


def _call_arg(st: ast.stmt, method: str, what: str) -> ast.AST:
    """`<x>.<method>(<arg>)` as an expression statement -> arg"""
    if (
        isinstance(st, ast.Expr)
        and isinstance(st.value, ast.Call)
        and isinstance(st.value.func, ast.Attribute)
        and st.value.func.attr == method
        and len(st.value.args) == 1
    ):
        return st.value.args[0]
    raise ExtractError(f"{what}: expected a call of .{method}(…), got {ast.unparse(st)[:80]}")


def _strip_len_test(test: ast.AST, var: str, op: type, what: str) -> None:
    """`len(<var>.strip()) <op> 0`"""
    ok = (
        isinstance(test, ast.Compare)
        and len(test.ops) == 1
        and isinstance(test.ops[0], op)
        and ast.unparse(test.left) == f"len({var}.strip())"
        and isinstance(test.comparators[0], ast.Constant)
        and test.comparators[0].value == 0
    )
    if not ok:
        raise ExtractError(f"{what}: blank-line test has an unknown shape: {ast.unparse(test)}")


def _returns_stripped_join(fn: ast.FunctionDef, what: str) -> None:
    last = fn.body[-1]
    if not (isinstance(last, ast.Return) and re.fullmatch(r"Stripped\('\\n'\.join\(\w+\)\)", ast.unparse(last.value))):
        raise ExtractError(f"{what}: does not end in Stripped('\\n'.join(<lines>))")


def line_wrapper(repo: pathlib.Path, rel: str, cpp: bool = False) -> Dict[str, Any]:
    what = f"{rel}:documentation_comment"
    fn = _func(_parse(repo, rel), "documentation_comment")
    loops = [s for s in fn.body if isinstance(s, ast.For)]
    comps = [
        s.value for s in fn.body
        if isinstance(s, (ast.Assign, ast.AnnAssign)) and isinstance(s.value, ast.ListComp)
    ]
    if not cpp and not loops and len(comps) == 1:
        # `[<blank> if len(line.strip()) == 0 else f"<pre>{line}" for line in text.splitlines()]` reads as the loop
        # `for line in text.splitlines(): if len(line.strip()) == 0: <lines>.append(<blank>) else: <lines>.append(f"…")`
        comp = comps[0]
        gen = comp.generators[0]
        if not (
            len(comp.generators) == 1
            and not gen.ifs
            and not gen.is_async
            and isinstance(gen.target, ast.Name)
            and ast.unparse(gen.iter) == "text.splitlines()"
            and isinstance(comp.elt, ast.IfExp)
        ):
            raise ExtractError(f"{what}: the comprehension is not `<a> if <test> else <b> for <line> in text.splitlines()`")

        def _append(e: ast.expr) -> ast.stmt:
            return ast.Expr(value=ast.Call(func=ast.Attribute(value=ast.Name(id="lines", ctx=ast.Load()), attr="append", ctx=ast.Load()), args=[e], keywords=[]))

        loops = [
            ast.For(
                target=gen.target,
                iter=gen.iter,
                body=[ast.If(test=comp.elt.test, body=[_append(comp.elt.body)], orelse=[_append(comp.elt.orelse)])],
                orelse=[],
            )
        ]
    if len(loops) != 1:
        raise ExtractError(f"{what}: expected exactly one loop")
    loop = loops[0]
    if not (isinstance(loop.target, ast.Name) and ast.unparse(loop.iter) == "text.splitlines()"):
        raise ExtractError(f"{what}: loop is not over text.splitlines()")
    var = loop.target.id
    if len(loop.body) != 1 or not isinstance(loop.body[0], ast.If):
        raise ExtractError(f"{what}: loop body is not a single if")
    cond = loop.body[0]
    _strip_len_test(cond.test, var, ast.Eq, what)
    if len(cond.body) != 1:
        raise ExtractError(f"{what}: blank branch has more than one statement")
    empty = _const_str(_call_arg(cond.body[0], "append", what), what)
    res: Dict[str, Any] = {"empty": empty}
    orelse = list(cond.orelse)
    if cpp:
        if len(orelse) != 3:
            raise ExtractError(f"{what}: expected rstrip/if/append in the non-blank branch")
        a, b, c = orelse
        if not (
            isinstance(a, ast.Assign)
            and isinstance(a.value, ast.Call)
            and ast.unparse(a.value.func) == f"{var}.rstrip"
            and len(a.value.args) == 1
        ):
            raise ExtractError(f"{what}: expected `x = {var}.rstrip(<chars>)`")
        wname = ast.unparse(a.targets[0])
        res["trail"] = _const_str(a.value.args[0], what)
        if not (
            isinstance(b, ast.If)
            and not b.orelse
            and isinstance(b.test, ast.Call)
            and ast.unparse(b.test.func) == f"{wname}.endswith"
            and _const_str(b.test.args[0], what) == "\\"
            and len(b.body) == 2
        ):
            raise ExtractError(f"{what}: expected `if {wname}.endswith('\\\\'):` with two statements")
        t0, t1 = b.body
        if not (isinstance(t0, ast.Assign) and ast.unparse(t0.value) == f"{var}[len({wname}):]"):
            raise ExtractError(f"{what}: trailing-space slice has an unknown shape")
        tname = ast.unparse(t0.targets[0])
        if not (isinstance(t1, ast.Assign) and ast.unparse(t1.targets[0]) == var and isinstance(t1.value, ast.JoinedStr)):
            raise ExtractError(f"{what}: line re-assignment has an unknown shape")
        vals = t1.value.values
        if not (
            len(vals) == 3
            and isinstance(vals[0], ast.FormattedValue)
            and ast.unparse(vals[0].value) == f"{wname}[:-1]"
            and isinstance(vals[1], ast.Constant)
            and isinstance(vals[2], ast.FormattedValue)
            and ast.unparse(vals[2].value) == tname
        ):
            raise ExtractError(f"{what}: line re-assignment f-string has an unknown shape")
        res["repl"] = vals[1].value
        orelse = [c]
    if len(orelse) != 1:
        raise ExtractError(f"{what}: non-blank branch has more than one statement")
    pre, suf = _fstring_parts(_call_arg(orelse[0], "append", what), var, what)
    if suf != "":
        raise ExtractError(f"{what}: text after the line in the comment line")
    res["pre"] = pre
    _returns_stripped_join(fn, what)
    return res


def block_wrapper(repo: pathlib.Path, rel: str) -> Dict[str, Any]:
    what = f"{rel}:documentation_comment"
    fn = _func(_parse(repo, rel), "documentation_comment")
    body = [s for s in fn.body if not (isinstance(s, ast.Expr) and isinstance(s.value, ast.Constant))]
    repls: List[Tuple[str, str]] = []
    cur = "text"
    i = 0
    while i < len(body) and isinstance(body[i], ast.Assign) and isinstance(body[i].value, ast.Call) and (
        isinstance(body[i].value.func, ast.Attribute) and body[i].value.func.attr == "replace"
    ):
        src, pairs = _repl_chain(body[i].value, what)
        if src != cur:
            raise ExtractError(f"{what}: replacement chain starts at {src}, expected {cur}")
        cur = ast.unparse(body[i].targets[0])
        repls += pairs
        i += 1
    rest = body[i:]
    if len(rest) != 6:
        raise ExtractError(f"{what}: expected lines/writer/open/loop/close/return after the replacements, got {len(rest)} statements")
    s_lines, s_writer, s_open, s_loop, s_close, s_ret = rest
    if not (isinstance(s_lines, ast.Assign) and ast.unparse(s_lines.value) == f"{cur}.splitlines()"):
        raise ExtractError(f"{what}: lines are not {cur}.splitlines()")
    lname = ast.unparse(s_lines.targets[0])
    if not (isinstance(s_writer, ast.Assign) and ast.unparse(s_writer.value) == "io.StringIO()"):
        raise ExtractError(f"{what}: writer is not an io.StringIO()")
    wname = ast.unparse(s_writer.targets[0])
    open_ = _const_str(_call_arg(s_open, "write", what), what)
    if not (isinstance(s_loop, ast.For) and ast.unparse(s_loop.iter) == lname and isinstance(s_loop.target, ast.Name)):
        raise ExtractError(f"{what}: loop is not over {lname}")
    var = s_loop.target.id
    if len(s_loop.body) != 1 or not isinstance(s_loop.body[0], ast.If):
        raise ExtractError(f"{what}: loop body is not a single if")
    cond = s_loop.body[0]
    _strip_len_test(cond.test, var, ast.Gt, what)
    if len(cond.body) != 1 or len(cond.orelse) != 1:
        raise ExtractError(f"{what}: branches of the loop have more than one statement")
    pre, suf = _fstring_parts(_call_arg(cond.body[0], "write", what), var, what)
    empty = _const_str(_call_arg(cond.orelse[0], "write", what), what)
    close_ = _const_str(_call_arg(s_close, "write", what), what)
    if not (isinstance(s_ret, ast.Return) and ast.unparse(s_ret.value) == f"Stripped({wname}.getvalue())"):
        raise ExtractError(f"{what}: does not return Stripped({wname}.getvalue())")
    return {"repls": repls, "open": open_, "pre": pre, "suf": suf, "empty": empty, "close": close_}


def py_docstring(repo: pathlib.Path) -> Dict[str, Any]:
    rel = "aas_core_codegen/python/description.py"
    what = f"{rel}:docstring"
    fn = _func(_parse(repo, rel), "docstring")
    # named constants and named sub-conditions read as if written in place (`q = '"""'`, `fits = len(q) + … < 70`);
    # the escaped text (the replacement chain over `text`) keeps its name
    fn = extract.fold_constants(  # type: ignore[assignment]
        extract.expand_locals(fn, keep=lambda name, value: isinstance(value, ast.Call) and ast.unparse(value.func).endswith(".replace"))
    )
    body = [s for s in fn.body if not (isinstance(s, ast.Expr) and isinstance(s.value, ast.Constant)) and not isinstance(s, ast.Pass)]
    if len(body) != 3:
        raise ExtractError(f"{what}: expected assign/if/return, got {len(body)} statements")
    s_esc, s_if, s_ret = body
    if not isinstance(s_esc, ast.Assign):
        raise ExtractError(f"{what}: first statement is not an assignment")
    src, repls = _repl_chain(s_esc.value, what)
    if src != "text":
        raise ExtractError(f"{what}: replacement chain does not start at text")
    var = ast.unparse(s_esc.targets[0])
    if not (isinstance(s_if, ast.If) and not s_if.orelse and len(s_if.body) == 1 and isinstance(s_if.body[0], ast.Return)):
        raise ExtractError(f"{what}: if statement has an unknown shape")
    test = s_if.test
    if not (isinstance(test, ast.BoolOp) and isinstance(test.op, ast.And) and len(test.values) == 2):
        raise ExtractError(f"{what}: condition is not `<length test> and not <endswith>`: {ast.unparse(test)}")
    t_len, t_end = test.values
    m = re.fullmatch(rf"3 \+ len\({var}\) \+ 3 < (\d+)", ast.unparse(t_len))
    if not m:
        raise ExtractError(f"{what}: length test has an unknown shape: {ast.unparse(t_len)}")
    if not (
        isinstance(t_end, ast.UnaryOp)
        and isinstance(t_end.op, ast.Not)
        and isinstance(t_end.operand, ast.Call)
        and ast.unparse(t_end.operand.func) == f"{var}.endswith"
        and len(t_end.operand.args) == 1
    ):
        raise ExtractError(f"{what}: endswith test has an unknown shape: {ast.unparse(t_end)}")
    no_short = _const_str(t_end.operand.args[0], what)

    def stripped_f(ret: ast.Return) -> Tuple[str, str]:
        v = ret.value
        if not (isinstance(v, ast.Call) and ast.unparse(v.func) == "Stripped" and len(v.args) == 1):
            raise ExtractError(f"{what}: return is not Stripped(f'…')")
        return _fstring_parts(v.args[0], var, what)

    if not isinstance(s_ret, ast.Return):
        raise ExtractError(f"{what}: last statement is not a return")
    return {
        "repls": repls,
        "limit": int(m.group(1)),
        "no_short": no_short,
        "short": stripped_f(s_if.body[0]),
        "long": stripped_f(s_ret),
    }


def _regex_class_ranges(pattern: str, what: str) -> List[Tuple[int, int]]:
    """`[^…]` with single characters, ranges and \\t \\n \\r \\xHH \\uHHHH \\UHHHHHHHH escapes -> allowed ranges."""
    if not (pattern.startswith("[^") and pattern.endswith("]")):
        raise ExtractError(f"{what}: pattern is not a negated character class")
    s = pattern[2:-1]
    items: List[int] = []
    toks: List[Any] = []
    i = 0
    simple = {"t": 9, "n": 10, "r": 13}
    while i < len(s):
        c = s[i]
        if c == "\\":
            if i + 1 >= len(s):
                raise ExtractError(f"{what}: dangling backslash in the class")
            e = s[i + 1]
            if e in simple:
                toks.append(simple[e])
                i += 2
            elif e in "xuU":
                n = {"x": 2, "u": 4, "U": 8}[e]
                h = s[i + 2 : i + 2 + n]
                if len(h) != n or not re.fullmatch("[0-9a-fA-F]+", h):
                    raise ExtractError(f"{what}: bad \\{e} escape in the class")
                toks.append(int(h, 16))
                i += 2 + n
            else:
                raise ExtractError(f"{what}: escape \\{e} is not modelled")
        elif c == "-":
            toks.append("-")
            i += 1
        elif c in "[]^":
            raise ExtractError(f"{what}: character {c!r} inside the class is not modelled")
        else:
            toks.append(ord(c))
            i += 1
    ranges: List[Tuple[int, int]] = []
    j = 0
    while j < len(toks):
        if toks[j] == "-":
            raise ExtractError(f"{what}: literal '-' in the class is not modelled")
        if j + 2 < len(toks) and toks[j + 1] == "-" and toks[j + 2] != "-":
            if toks[j] > toks[j + 2]:
                raise ExtractError(f"{what}: reversed range")
            ranges.append((toks[j], toks[j + 2]))
            j += 3
        else:
            ranges.append((toks[j], toks[j]))
            j += 1
    return ranges


def csharp(repo: pathlib.Path) -> Dict[str, Any]:
    rel = "aas_core_codegen/csharp/description.py"
    mod = _parse(repo, rel)
    pattern: Optional[str] = None
    for st in mod.body:
        if (
            isinstance(st, ast.Assign)
            and ast.unparse(st.targets[0]) == "_NON_XML_CHARACTER_RE"
            and isinstance(st.value, ast.Call)
            and ast.unparse(st.value.func) == "re.compile"
            and len(st.value.args) == 1
            and not st.value.keywords
        ):
            pattern = _const_str(st.value.args[0], rel)
    if pattern is None:
        raise ExtractError(f"{rel}: _NON_XML_CHARACTER_RE = re.compile('…') not found")
    ranges = _regex_class_ranges(pattern, f"{rel}:_NON_XML_CHARACTER_RE")
    visit = None
    for node in _class(mod, "_ToTextDirectivesVisitor").body:
        if isinstance(node, ast.FunctionDef) and node.name == "visit_text":
            visit = node
    if visit is None:
        raise ExtractError(f"{rel}: _ToTextDirectivesVisitor.visit_text not found")
    body = [s for s in visit.body if not (isinstance(s, ast.Expr) and isinstance(s.value, ast.Constant))]
    if len(body) != 2:
        raise ExtractError(f"{rel}:visit_text: expected sub/append, got {len(body)} statements")
    s_sub, s_app = body
    if not (
        isinstance(s_sub, ast.Assign)
        and isinstance(s_sub.value, ast.Call)
        and ast.unparse(s_sub.value.func) == "_NON_XML_CHARACTER_RE.sub"
        and len(s_sub.value.args) == 2
        and ast.unparse(s_sub.value.args[1]) == "node.content"
    ):
        raise ExtractError(f"{rel}:visit_text: first statement is not _NON_XML_CHARACTER_RE.sub(<const>, node.content)")
    repl = _const_str(s_sub.value.args[0], rel)
    if "\\" in repl:
        raise ExtractError(f"{rel}:visit_text: replacement template with a backslash is not modelled")
    cname = ast.unparse(s_sub.targets[0])
    if ast.unparse(s_app) != f"self._last_or_new_block().parts.append(xml.sax.saxutils.escape({cname}))":
        raise ExtractError(f"{rel}:visit_text: second statement is not the append of xml.sax.saxutils.escape({cname})")
    # _slash_slash_slash_line
    fn = _func(mod, "_slash_slash_slash_line")
    body = [s for s in fn.body if not (isinstance(s, ast.Expr) and isinstance(s.value, ast.Constant))]
    if not (
        len(body) == 2
        and isinstance(body[0], ast.If)
        and ast.unparse(body[0].test) == "len(line) == 0"
        and len(body[0].body) == 1
        and isinstance(body[0].body[0], ast.Return)
        and isinstance(body[1], ast.Return)
    ):
        raise ExtractError(f"{rel}:_slash_slash_slash_line has an unknown shape")
    empty = _const_str(body[0].body[0].value, rel)
    pre, suf = _fstring_parts(body[1].value, "line", rel)
    if suf != "":
        raise ExtractError(f"{rel}:_slash_slash_slash_line: text after the line")
    decs = [ast.unparse(d) for d in fn.decorator_list]
    if decs != ["require(lambda line: '\\n' not in line)"]:
        raise ExtractError(f"{rel}:_slash_slash_slash_line: unexpected decorators {decs}")
    # the three call sites
    n_sites = len(re.findall(r"\[_slash_slash_slash_line\(line\) for line in text\.splitlines\(\)\]", ast.unparse(mod)))
    if n_sites != 3:
        raise ExtractError(f"{rel}: expected 3 `[_slash_slash_slash_line(line) for line in text.splitlines()]`, found {n_sites}")
    return {"ranges": ranges, "repl": repl, "empty": empty, "pre": pre}


def indent_helper(repo: pathlib.Path) -> Dict[str, Any]:
    """`common.indent_but_first_line`: split at a one-character constant, pop a last empty line, loop, join."""
    rel = "aas_core_codegen/common.py"
    what = f"{rel}:indent_but_first_line"
    fn = _func(_parse(repo, rel), "indent_but_first_line")
    body = [s for s in fn.body if not (isinstance(s, ast.Expr) and isinstance(s.value, ast.Constant))]
    if [a.arg for a in fn.args.args] != ["text", "indention"]:
        raise ExtractError(f"{what}: unexpected parameters")
    if len(body) != 5:
        raise ExtractError(f"{what}: expected split/pop/list/loop/return, got {len(body)} statements")
    s_split, s_pop, s_list, s_loop, s_ret = body
    if not (
        isinstance(s_split, ast.Assign)
        and len(s_split.targets) == 1
        and isinstance(s_split.targets[0], ast.Name)
        and isinstance(s_split.value, ast.Call)
        and isinstance(s_split.value.func, ast.Attribute)
        and s_split.value.func.attr == "split"
        and ast.unparse(s_split.value.func.value) == "text"
        and len(s_split.value.args) == 1
        and not s_split.value.keywords
    ):
        raise ExtractError(f"{what}: first statement is not `<lines> = text.split(<constant>)`: {ast.unparse(s_split)[:80]}")
    lines = s_split.targets[0].id
    split_sep = _const_str(s_split.value.args[0], what)
    if len(split_sep) != 1:
        raise ExtractError(f"{what}: only a one-character separator is modelled")
    if ast.unparse(s_pop) != f"if {lines}[-1] == '':\n    {lines}.pop()":
        raise ExtractError(f"{what}: second statement is not the pop of a last empty line: {ast.unparse(s_pop)[:80]}")
    if not (isinstance(s_list, (ast.Assign, ast.AnnAssign)) and ast.unparse(s_list.value) == "[]"):
        raise ExtractError(f"{what}: third statement is not the empty list of the indented lines")
    out = ast.unparse(s_list.targets[0] if isinstance(s_list, ast.Assign) else s_list.target)
    want_loop = (
        f"for i, line in enumerate({lines}):\n"
        f"    if i == 0:\n"
        f"        {out}.append(line)\n"
        f"    elif len(line) > 0:\n"
        f"        {out}.append(indention + line)\n"
        f"    else:\n"
        f"        {out}.append(line)"
    )
    if ast.unparse(s_loop) != want_loop:
        raise ExtractError(f"{what}: the loop has an unknown shape: {ast.unparse(s_loop)[:200]}")
    if not (
        isinstance(s_ret, ast.Return)
        and isinstance(s_ret.value, ast.Call)
        and isinstance(s_ret.value.func, ast.Attribute)
        and s_ret.value.func.attr == "join"
        and len(s_ret.value.args) == 1
        and ast.unparse(s_ret.value.args[0]) == out
    ):
        raise ExtractError(f"{what}: does not return <constant>.join({out})")
    join_sep = _const_str(s_ret.value.func.value, what)
    if len(join_sep) != 1:
        raise ExtractError(f"{what}: only a one-character joiner is modelled")
    return {"split": ord(split_sep), "join": ord(join_sep)}


def _pairs(ps: List[Tuple[str, str]]) -> str:
    return "[" + ", ".join(f"({lean_text(a)}, {lean_text(b)})" for a, b in ps) + "]"


def gen_Descr(repo: pathlib.Path) -> str:
    doc = py_docstring(repo)
    py = line_wrapper(repo, "aas_core_codegen/python/description.py")
    go = line_wrapper(repo, "aas_core_codegen/golang/description.py")
    cpp = line_wrapper(repo, "aas_core_codegen/cpp/description.py", cpp=True)
    java = block_wrapper(repo, "aas_core_codegen/java/description.py")
    ts = block_wrapper(repo, "aas_core_codegen/typescript/description.py")
    cs = csharp(repo)
    out = ["import AasVerif.Model.Text\n", HEADER.format(src="aas_core_codegen/<target>/description.py, aas_core_codegen/common.py"), "namespace AasVerif.Gen.Descr\n"]

    def d(name: str, ty: str, val: str) -> None:
        out.append(f"def {name} : {ty} := {val}\n")

    d("pyDocRepls", "List (Text × Text)", _pairs(doc["repls"]))
    d("pyDocLimit", "Nat", str(doc["limit"]))
    d("pyDocNoShortSuffix", "Text", lean_text(doc["no_short"]))
    d("pyDocShort", "Text × Text", f"({lean_text(doc['short'][0])}, {lean_text(doc['short'][1])})")
    d("pyDocLong", "Text × Text", f"({lean_text(doc['long'][0])}, {lean_text(doc['long'][1])})")
    for nm, w in (("py", py), ("go", go), ("cpp", cpp)):
        d(f"{nm}Empty", "Text", lean_text(w["empty"]))
        d(f"{nm}Pre", "Text", lean_text(w["pre"]))
    d("cppTrail", "Text", lean_text(cpp["trail"]))
    d("cppRepl", "Text", lean_text(cpp["repl"]))
    for nm, w in (("java", java), ("ts", ts)):
        d(f"{nm}Repls", "List (Text × Text)", _pairs(w["repls"]))
        d(f"{nm}Open", "Text", lean_text(w["open"]))
        d(f"{nm}Pre", "Text", lean_text(w["pre"]))
        d(f"{nm}Suf", "Text", lean_text(w["suf"]))
        d(f"{nm}Empty", "Text", lean_text(w["empty"]))
        d(f"{nm}Close", "Text", lean_text(w["close"]))
    d("csRanges", "List (Nat × Nat)", "[" + ", ".join(f"({a}, {b})" for a, b in cs["ranges"]) + "]")
    d("csRepl", "Text", lean_text(cs["repl"]))
    d("csEmpty", "Text", lean_text(cs["empty"]))
    d("csPre", "Text", lean_text(cs["pre"]))
    ind = indent_helper(repo)
    d("indentSplit", "Nat", str(ind["split"]))
    d("indentJoin", "Nat", str(ind["join"]))
    out.append("end AasVerif.Gen.Descr\n")
    return "".join(out)
