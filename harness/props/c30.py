"""
C30 — generated constants, constant sets and enumerations match the meta-model.

Abstract model (``AModel``: enumerations + constants in declaration order) is rendered (a) to
the meta-model source text -> real front end -> real python generator -> the generated
``constants`` / ``types`` / ``stringification`` modules imported in-process, (b) to the compact
wire form of ``Drive/C30.lean``.  Streams: ``sdk`` (verdict of the front end + everything the
three modules expose), ``fromstr`` (text -> enumeration literal on values and near misses),
``resolve`` (``_resolve_subsets_in_constant_set_of_*`` called directly, all four error branches).

The direct oracle (``judge_*``) is written from the property text and never looks at the Lean
answers: exact value of every primitive constant, set == listed ∪ subsets, members == declared
literals, ``from_str(member.value) is member``, ``from_str(other) is None``.
"""
from __future__ import annotations

import ast
import math
import pathlib
import re
from dataclasses import dataclass, field
from typing import Any, Dict, Iterator, List, Optional, Sequence, Tuple

from harness import extract
from harness.core import Ctx, corpus, crash_name, enc_text, show
from harness.extract import ExtractError

ID = "C30"
GEN = ["SdkConst"]

PRIMS = ("bool", "int", "float", "str", "bytearray")

# --------------------------------------------------------------------------- abstract model


@dataclass
class AEnum:
    name: str
    literals: List[Tuple[str, str]] = field(default_factory=list)


@dataclass
class AConst:
    """kind 'P': typ = declared primitive type, values = the value;
    kind 'S': typ = primitive item type, values = list of values;
    kind 'E': typ = enumeration name, values = list of literal names."""

    kind: str
    name: str
    typ: str
    values: Any
    supers: List[str] = field(default_factory=list)


@dataclass
class AModel:
    enums: List[AEnum] = field(default_factory=list)
    consts: List[AConst] = field(default_factory=list)
    #: what the generator meant to build (statistics only)
    label: str = ""
    #: names of our types which are not enumerations (``HEAD`` defines the class ``Something``)
    classes: Tuple[str, ...] = ("Something",)

    def enum(self, name: str) -> Optional[AEnum]:
        for e in self.enums:
            if e.name == name:
                return e
        return None

    def const(self, name: str) -> Optional[AConst]:
        for c in self.consts:
            if c.name == name:
                return c
        return None


# ---- JSON (corpus / replay)


def val_to_json(v: Any) -> Any:
    if isinstance(v, bool):
        return {"b": v}
    if isinstance(v, int):
        return {"i": str(v)}
    if isinstance(v, float):
        return {"f": repr(v)}
    if isinstance(v, str):
        return {"s": enc_text(v)}
    if isinstance(v, (bytes, bytearray)):
        return {"y": bytes(v).hex()}
    raise TypeError(v)


def val_from_json(d: Any) -> Any:
    from harness.core import dec_text

    if "b" in d:
        return bool(d["b"])
    if "i" in d:
        return int(d["i"])
    if "f" in d:
        return float(d["f"])
    if "s" in d:
        return dec_text(d["s"])
    if "y" in d:
        return bytes.fromhex(d["y"])
    raise ValueError(d)


def model_to_json(m: AModel) -> Dict[str, Any]:
    return {
        "label": m.label,
        "enums": [{"name": e.name, "literals": [[n, enc_text(v)] for n, v in e.literals]} for e in m.enums],
        "consts": [
            {
                "kind": c.kind,
                "name": c.name,
                "typ": c.typ,
                "values": (val_to_json(c.values) if c.kind == "P" else [val_to_json(v) for v in c.values] if c.kind == "S" else list(c.values)),
                "supers": list(c.supers),
            }
            for c in m.consts
        ],
    }


def model_from_json(d: Dict[str, Any]) -> AModel:
    from harness.core import dec_text

    return AModel(
        enums=[AEnum(e["name"], [(n, dec_text(v)) for n, v in e["literals"]]) for e in d["enums"]],
        consts=[
            AConst(
                c["kind"],
                c["name"],
                c["typ"],
                (val_from_json(c["values"]) if c["kind"] == "P" else [val_from_json(v) for v in c["values"]] if c["kind"] == "S" else list(c["values"])),
                list(c["supers"]),
            )
            for c in d["consts"]
        ],
        label=d.get("label", ""),
    )


# ---- meta-model source text

HEAD = '''\
__version__ = "V0.1"

__xml_namespace__ = "https://example.com/aasv/0/1"


class Something(DBC):
    some_property: int

    def __init__(self, some_property: int) -> None:
        self.some_property = some_property
'''


def render_value(v: Any) -> str:
    from harness.mm_model import render_str_literal

    if isinstance(v, bool):
        return "True" if v else "False"
    if isinstance(v, int):
        assert v >= 0, "a negative number is not an ast.Constant"
        return repr(v)
    if isinstance(v, float):
        assert not math.isnan(v) and math.copysign(1.0, v) > 0, "no literal for nan / negative floats"
        return "1e999" if math.isinf(v) else repr(v)
    if isinstance(v, str):
        return render_str_literal(v)
    if isinstance(v, (bytes, bytearray)):
        return repr(bytes(v))
    raise TypeError(v)


def render_model(m: AModel) -> str:
    from harness.mm_model import render_str_literal

    blocks = [HEAD.rstrip("\n")]
    for e in m.enums:
        lines = [f"class {e.name}(Enum):"]
        if not e.literals:
            lines.append("    pass")
        for n, v in e.literals:
            lines.append(f"    {n} = {render_str_literal(v)}")
        blocks.append("\n".join(lines))
    for c in m.consts:
        if c.kind == "P":
            blocks.append(f"{c.name}: {c.typ} = constant_{c.typ}(value={render_value(c.values)})")
        else:
            if c.kind == "S":
                vals = [render_value(v) for v in c.values]
            else:
                vals = [f"{c.typ}.{n}" for n in c.values]
            lines = [f"{c.name}: Set[{c.typ}] = constant_set("]
            lines.append("    values=[" + ", ".join(vals) + "],")
            if c.supers:
                lines.append("    superset_of=[" + ", ".join(c.supers) + "],")
            lines.append(")")
            blocks.append("\n".join(lines))
    return "\n\n\n".join(blocks) + "\n"


# ---- wire form for the Lean driver


def wire_val(v: Any) -> str:
    if isinstance(v, bool):
        return "B:1" if v else "B:0"
    if isinstance(v, int):
        return f"I:{v}"
    if isinstance(v, float):
        return "F:" + enc_text(repr(v))
    if isinstance(v, str):
        return "S:" + enc_text(v)
    if isinstance(v, (bytes, bytearray)):
        return "Y:" + (".".join(format(x, "x") for x in bytes(v)) or "-")
    raise TypeError(v)


def wj(sep: str, xs: Sequence[str]) -> str:
    return sep.join(xs) if xs else "[]"


def wire_enums(m: AModel) -> str:
    return wj(";", [enc_text(e.name) + "/" + wj(",", [enc_text(n) + "=" + enc_text(v) for n, v in e.literals]) for e in m.enums])


def wire_sdk(m: AModel) -> str:
    return f"sdk {wire_enums(m)} {wj(',', [enc_text(c) for c in m.classes])} {wire_consts(m)}"


def wire_consts(m: AModel) -> str:
    out = []
    for c in m.consts:
        if c.kind == "P":
            out.append(f"P/{enc_text(c.name)}/{c.typ}/{wire_val(c.values)}")
        elif c.kind == "S":
            out.append(f"S/{enc_text(c.name)}/{c.typ}/{wj(',', [wire_val(v) for v in c.values])}/{wj(',', [enc_text(s) for s in c.supers])}")
        else:
            out.append(
                f"E/{enc_text(c.name)}/{enc_text(c.typ)}/{wj(',', [enc_text(v) for v in c.values])}/{wj(',', [enc_text(s) for s in c.supers])}"
            )
    return wj(";", out)


# --------------------------------------------------------------------------- the real implementation


def py_names() -> Any:
    from aas_core_codegen.common import Identifier
    from aas_core_codegen.python import naming

    class N:
        @staticmethod
        def const(n: str) -> str:
            return naming.constant_name(Identifier(n))

        @staticmethod
        def enum(n: str) -> str:
            return naming.enum_name(Identifier(n))

        @staticmethod
        def lit(n: str) -> str:
            return naming.enum_literal_name(Identifier(n))

        @staticmethod
        def from_str(n: str) -> str:
            return naming.function_name(Identifier(f"{n}_from_str"))

    return N


STAGES = (
    ("Failed to parse the meta-model", "parse"),
    ("Verification of the meta-model failed", "verify"),
    ("Failed to translate the parsed symbol table", "translate"),
)


@dataclass
class Observed:
    """What the real tool chain did with one abstract model."""

    verdict: str  # accepted | rejected:<stage> | crash:<Type> | sdk-error:<what>
    error: str = ""
    sdk: Any = None
    consts: Dict[str, Any] = field(default_factory=dict)  # meta name -> attribute value (or _MISSING)
    enums: Dict[str, Any] = field(default_factory=dict)  # meta name -> enum class
    from_str: Dict[str, Any] = field(default_factory=dict)  # meta name -> function


_MISSING = object()


def observe(m: AModel) -> Observed:
    from harness import mm

    src = render_model(m)
    ld = mm.load(src)
    if ld.crash:
        return Observed(ld.crash, error=(ld.traceback or "")[-800:])
    if not ld.ok:
        err = ld.error or ""
        for needle, stage in STAGES:
            if needle in err:
                return Observed("rejected:" + stage, error=err[:800])
        return Observed("rejected:other", error=err[:800])
    sdk = mm.load_python_sdk(src)
    if not sdk.ok:
        e = sdk.error or ""
        if e.startswith("import:"):
            mods = re.findall(r"aasv_\w+/(\w+)\.py", e)
            what = "import:" + (mods[-1] if mods else "?") + ":" + e.split(":")[2].strip()
        elif e.startswith("generation:"):
            r = sdk.result
            what = "generation:" + (r.exception if r is not None and r.exception else f"rc={r.rc if r is not None else '?'}")
        else:
            what = "front-end-second-load"
        return Observed("sdk-error:" + what, error=e[:1500])
    N = py_names()
    ob = Observed("accepted", sdk=sdk)
    for c in m.consts:
        ob.consts[c.name] = getattr(sdk.constants, N.const(c.name), _MISSING)
    for e in m.enums:
        ob.enums[e.name] = getattr(sdk.types, N.enum(e.name), _MISSING)
        ob.from_str[e.name] = getattr(sdk.stringification, N.from_str(e.name), _MISSING)
    return ob


def token_of(x: Any) -> str:
    if isinstance(x, (bool, int, float, str, bytes)):
        return wire_val(x)
    return "?" + type(x).__name__


def dump_impl(m: AModel, ob: Observed) -> str:
    """The same canonical line as ``Drive/C30.lean`` prints for ``sdk``."""
    if ob.verdict != "accepted":
        if ob.verdict.startswith("crash:"):
            return "crash"
        return ob.verdict
    N = py_names()
    cs = []
    for c in m.consts:
        x = ob.consts[c.name]
        if x is _MISSING:
            cs.append(enc_text(c.name) + "=missing")
        elif c.kind == "P":
            cs.append(enc_text(c.name) + "=V/" + token_of(x))
        elif c.kind == "S":
            try:
                cs.append(enc_text(c.name) + "=S/" + wj(",", sorted(token_of(y) for y in x)))
            except BaseException as e:  # noqa
                cs.append(enc_text(c.name) + "=S/" + crash_name(e))
        else:
            e = m.enum(c.typ)
            back = {N.lit(n): n for n, _ in (e.literals if e else [])}
            try:
                cs.append(enc_text(c.name) + "=E/" + enc_text(c.typ) + "/" + wj(",", sorted(enc_text(back.get(y.name, "?" + y.name)) for y in x)))
            except BaseException as ex:  # noqa
                cs.append(enc_text(c.name) + "=E/" + crash_name(ex))
    es = []
    for e in m.enums:
        E = ob.enums[e.name]
        if E is _MISSING:
            es.append(enc_text(e.name) + "/missing")
            continue
        back = {N.lit(n): n for n, _ in e.literals}
        es.append(enc_text(e.name) + "/" + wj(",", [enc_text(back.get(mem.name, "?" + mem.name)) + "=" + enc_text(mem.value) for mem in E]))
    return "accepted " + wj(";", cs) + " " + wj(";", es)


# --------------------------------------------------------------------------- the direct oracle


def exact(a: Any, b: Any) -> bool:
    """Same Python type and same value (floats through ``repr``; never numerically across Lean)."""
    return type(a) is type(b) and repr(a) == repr(b)


def kind_of_text(s: str) -> str:
    if s == "":
        return "empty"
    if any(0xD800 <= ord(c) <= 0xDFFF for c in s):
        return "surrogate"
    if "\x00" in s:
        return "nul"
    if any(ord(c) < 0x20 or ord(c) == 0x7F for c in s):
        return "control"
    if any(c in "\u0085\u2028\u2029" for c in s):
        return "unicode-newline"
    if any(ord(c) > 0xFFFF for c in s):
        return "astral"
    if any(ord(c) > 0x7E for c in s):
        return "non-ascii"
    if any(c in "'\"\\" for c in s):
        return "quote-backslash"
    if any(c in "{}" for c in s):
        return "curly"
    if s != s.strip():
        return "padded"
    return "plain"


def shape_of(v: Any) -> str:
    if isinstance(v, bool):
        return "bool"
    if isinstance(v, int):
        return "int" if v < 2**63 else "int-huge"
    if isinstance(v, float):
        return "float-inf" if math.isinf(v) else "float"
    if isinstance(v, str):
        return "str-" + kind_of_text(v)
    return type(v).__name__


def probes_for(m: AModel, e: AEnum) -> List[Tuple[str, str]]:
    """(probe text, kind) — the values themselves and near misses; kinds name the mutation."""
    N = py_names()
    out: List[Tuple[str, str]] = [("", "empty"), (" ", "space")]
    for n, v in e.literals:
        out += [
            (v, "value"),
            (v.lower(), "lower"),
            (v.upper(), "upper"),
            (v.swapcase(), "swapcase"),
            (v.strip(), "strip"),
            (" " + v, "lead-space"),
            (v + " ", "trail-space"),
            (v + "\n", "trail-newline"),
            (v[:-1], "prefix"),
            (v[1:], "suffix"),
            (v + v, "doubled"),
            (n, "literal-name"),
            (N.lit(n), "python-literal-name"),
            (f"{N.enum(e.name)}.{N.lit(n)}", "qualified-name"),
            (repr(v), "repr"),
            (v.encode("utf-8", "surrogatepass").decode("latin-1"), "mojibake"),
        ]
    for other in m.enums:
        if other is not e:
            out += [(v, "other-enum-value") for _, v in other.literals]
    seen = set()
    res = []
    for t, k in out:
        if t not in seen:
            seen.add(t)
            res.append((t, k))
    return res


def judge(m: AModel, ob: Observed) -> List[Tuple[str, str]]:
    """C30 decided on one accepted model. Returns [(sig, what)]."""
    bad: List[Tuple[str, str]] = []
    if ob.verdict.startswith("sdk-error:"):
        what = ob.verdict[len("sdk-error:") :]
        shapes = sorted({shape_of(v) for c in m.consts for v in ([c.values] if c.kind == "P" else c.values if c.kind == "S" else [])} | {"enum-" + kind_of_text(v) for e in m.enums for _, v in e.literals} | {"enum-empty" for e in m.enums if not e.literals})
        hazard = [s for s in shapes if s.split("-", 1)[-1] not in ("plain", "bool", "int", "float", "padded", "empty")] or shapes
        bad.append((f"C30:sdk:{what}:{'+'.join(hazard[:3])}", f"the front end accepts the meta-model, but the Python SDK is not available: {ob.error[-300:]}"))
        return bad
    if ob.verdict != "accepted":
        return bad
    N = py_names()
    # primitive constants: exact value
    for c in m.consts:
        x = ob.consts[c.name]
        if x is _MISSING:
            bad.append((f"C30:const:missing:{c.kind}", f"constants.{N.const(c.name)} does not exist"))
            continue
        if c.kind == "P":
            if not exact(x, c.values):
                bad.append((f"C30:const:{shape_of(c.values)}:value", f"constant {c.name} is {x!r} instead of {c.values!r}"))
        elif c.kind == "S":
            want = list(c.values)
            for s in c.supers:
                sub = m.const(s)
                want += list(sub.values) if sub is not None and sub.kind == "S" else []
            if not isinstance(x, (set, frozenset)):
                bad.append((f"C30:set:{c.typ}:not-a-set:{type(x).__name__}", f"constant set {c.name} is a {type(x).__name__}: {x!r}"))
                continue
            for v in want:
                if v not in x:
                    bad.append((f"C30:set:{c.typ}:missing-element:{shape_of(v)}", f"constant set {c.name} lacks {v!r}: {x!r}"))
            for y in x:
                if not any(exact(y, v) for v in want):
                    bad.append((f"C30:set:{c.typ}:extra-element:{shape_of(y)}", f"constant set {c.name} holds {y!r} which is neither listed nor in a subset"))
        else:
            E = ob.enums.get(c.typ, _MISSING)
            if E is _MISSING:
                bad.append(("C30:enumset:enum-missing", f"enumeration {c.typ} of the set {c.name} is not in types"))
                continue
            names = list(c.values)
            for s in c.supers:
                sub = m.const(s)
                names += list(sub.values) if sub is not None and sub.kind == "E" else []
            if not isinstance(x, (set, frozenset)):
                bad.append((f"C30:enumset:not-a-set:{type(x).__name__}", f"constant set {c.name} is a {type(x).__name__}: {x!r}"))
                continue
            try:
                want_members = {getattr(E, N.lit(n)) for n in names}
            except AttributeError as ex:
                bad.append(("C30:enumset:literal-missing", f"{ex}"))
                continue
            if set(x) != want_members:
                bad.append((f"C30:enumset:{'missing' if want_members - set(x) else 'extra'}-element", f"constant set {c.name} is {x!r} instead of {want_members!r}"))
    # enumerations: exactly the declared literals, round trip
    for e in m.enums:
        E = ob.enums[e.name]
        if E is _MISSING:
            bad.append(("C30:enum:missing", f"types.{N.enum(e.name)} does not exist"))
            continue
        declared = [(N.lit(n), v) for n, v in e.literals]
        got = [(mem.name, mem.value) for mem in E]
        if got != declared or list(E.__members__) != [n for n, _ in declared]:
            why = "count" if len(got) != len(declared) else ("name" if [g[0] for g in got] != [d[0] for d in declared] else "value-" + "+".join(sorted({kind_of_text(v) for (_, v), g in zip(declared, got) if g[1] != v})))
            bad.append((f"C30:enum:members:{why}", f"enumeration {e.name} has the members {got!r} instead of {declared!r}"))
            continue
        f = ob.from_str[e.name]
        if f is _MISSING:
            bad.append(("C30:enum:from_str:missing", f"stringification.{N.from_str(e.name)} does not exist"))
            continue
        values = {v for _, v in e.literals}
        for mem in E:
            try:
                back = f(mem.value)
            except BaseException as ex:  # noqa
                back = crash_name(ex)
            if back is not mem:
                bad.append((f"C30:enum:from_str:roundtrip:{kind_of_text(mem.value)}", f"{N.from_str(e.name)}({mem.value!r}) is {back!r} instead of {mem!r}"))
        for t, kind in probes_for(m, e):
            if t in values:
                continue
            try:
                back = f(t)
            except BaseException as ex:  # noqa
                back = crash_name(ex)
            if back is not None:
                bad.append((f"C30:enum:from_str:non-value-parsed:{kind}", f"{N.from_str(e.name)}({t!r}) is {back!r} although {t!r} is no literal value of {e.name}"))
    return bad


# --------------------------------------------------------------------------- function level: the resolvers


def resolve_impl(m: AModel, name: str, placeholders: List[str]) -> str:
    """Call `_resolve_subsets_in_constant_set_of_*` on the loaded table; canonical answer as the driver's."""
    from harness import mm
    from aas_core_codegen.common import Identifier
    from aas_core_codegen.intermediate import _translate as T
    from aas_core_codegen import intermediate

    ld = mm.load(render_model(m))
    if not ld.ok:
        return "bad-table"
    st = ld.symbol_table
    cs = st.constants_by_name.get(Identifier(name), None)
    if cs is None:
        return "no-such-constant"
    try:
        if isinstance(cs, intermediate.ConstantPrimitive):
            return "ok:[] ensures=1"  # the second pass skips it
        cs.subsets = [T._PlaceholderConstant(name=Identifier(p)) for p in placeholders]
        if isinstance(cs, intermediate.ConstantSetOfPrimitives):
            res, errs = T._resolve_subsets_in_constant_set_of_primitives(constant_set=cs, symbol_table=st)
        else:
            res, errs = T._resolve_subsets_in_constant_set_of_enumeration_literals(constant_set=cs, symbol_table=st)
    except BaseException as e:  # noqa
        return crash_name(e)
    if errs is not None:
        kinds = set()
        for err in errs:
            msg = err.message
            mt = re.search(r"subset (?:with the name )?'([^']+)'", msg)
            sub = enc_text(mt.group(1)) if mt else "?"
            if "could not be found" in msg:
                kinds.add("missing:" + sub)
            elif "Expected a subset as a set of" in msg:
                kinds.add("kind:" + sub)
            elif "to be of the same" in msg:
                kinds.add("type:" + sub)
            elif "is not contained in the set" in msg:
                kinds.add("notcontained:" + sub)
            else:
                kinds.add("other")
        return "err:" + wj(",", sorted(kinds))
    return "ok:" + wj(",", [enc_text(str(s.name)) for s in res]) + " ensures=1"


def judge_resolve(m: AModel, name: str, placeholders: List[str], got: str) -> List[Tuple[str, str]]:
    """Accepted iff every placeholder names a set of the same kind/type whose literals are contained."""
    c = m.const(name)
    if c is None or c.kind == "P" or got in ("bad-table", "no-such-constant"):
        return []
    if got.startswith("crash:"):
        return [(f"C30:resolve:{got}", f"the resolver raised on {name} ⊇ {placeholders}")]
    ok = True
    for p in placeholders:
        s = m.const(p)
        if s is None or s.kind != c.kind or s.typ != c.typ:
            ok = False
        elif c.kind == "S" and not all(v in set(c.values) for v in s.values):
            ok = False
        elif c.kind == "E" and not set(s.values) <= set(c.values):
            ok = False
    if ok != got.startswith("ok:"):
        return [(f"C30:resolve:{'accepts-bad-subset' if not ok else 'rejects-good-subset'}:{c.kind}", f"{name} ⊇ {placeholders}: resolver answered {got}")]
    return []


# --------------------------------------------------------------------------- generators

STR_BOUNDARY = [
    "", " ", "a", "A", "some text", " padded ", "'", '"', "'\"", "it's", 'say "hi"', "\\", "\\n", "a\\", "\x00", "a\x00b", "\r", "\n", "\t", "\r\n",
    "\x07\x08\x0b\x0c", "\x1f", "\x1c", "a\x1d\x1eb", "\x7f", "\u0085", "\u2028", "\u2029", "é", "ß", "\u00a0", "\ufeff", "😀", "\U0010ffff", "\ud800", "\udfff", "a\ud83d", "\ude00b",
    "{", "}", "{}", "{x}", "{{", "%s", "$x", "*/", "#", '"""', "'''", "\\x00", "\\u0041", "x" * 300,
]
INT_BOUNDARY = [0, 1, 7, 255, 2**31 - 1, 2**31, 2**32, 2**53, 2**53 + 1, 2**63 - 1, 2**63, 2**64, 10**30, 10**100]
FLOAT_BOUNDARY = [0.0, 0.1, 0.5, 1.0, 1.5, 3.14, 1e16, 1e22, 1e23, 5e-324, 2.2250738585072014e-308, 1.7976931348623157e308, 123456789.123456789, 1e-7, float("inf")]
ENUM_NAMES = ["Color", "Kind_of_thing", "Mode"]
LIT_NAMES = ["Red", "Green", "Blue", "Some_literal", "Other", "X1", "Lower_case", "Nothing"]


def by_type(t: str) -> List[Any]:
    return {"bool": [True, False], "int": INT_BOUNDARY, "float": FLOAT_BOUNDARY, "str": STR_BOUNDARY, "bytearray": [b"", b"ab", b"123456789"]}[t]


def enumerated(ctx: Ctx) -> Iterator[Tuple[AModel, str]]:
    """Seed independent; alone hits every branch of the model."""
    # --- primitives: every boundary value alone, and all of a type together
    for t in ("bool", "int", "float", "str"):
        vals = by_type(t)
        for i, v in enumerate(vals):
            yield AModel([], [AConst("P", "Some_constant", t, v)], f"prim:{t}"), "enum-prim"
        yield AModel([], [AConst("P", f"Constant_{i}", t, v) for i, v in enumerate(vals)], f"prim-all:{t}"), "enum-prim"
    # declared type x type of the value (bool is an int; bytes is no bytearray)
    samples = {"bool": True, "int": 3, "float": 2.5, "str": "x", "bytearray": b"ab"}
    for d in PRIMS:
        for vt, v in samples.items():
            yield AModel([], [AConst("P", "Some_constant", d, v)], f"declared:{d}:value:{vt}"), "enum-declared"
    yield AModel([], [AConst("P", "Some_constant", "int", False)], "int-written-as-False"), "enum-declared"
    # --- sets of primitives: empty / one / several / duplicates / ==-duplicates / ill-typed literals
    for t in ("bool", "int", "float", "str"):
        vals = by_type(t)
        yield AModel([], [AConst("S", "Some_set", t, [])], f"set-empty:{t}"), "enum-set"
        yield AModel([], [AConst("S", "Some_set", t, [vals[0]])], f"set-one:{t}"), "enum-set"
        yield AModel([], [AConst("S", "Some_set", t, list(vals))], f"set-all:{t}"), "enum-set"
        yield AModel([], [AConst("S", "Some_set", t, [vals[1], vals[0], vals[1], vals[1]])], f"set-dups:{t}"), "enum-set"
        for vt, v in samples.items():
            yield AModel([], [AConst("S", "Some_set", t, [vals[0], v])], f"set:{t}:literal:{vt}"), "enum-set"
    yield AModel([], [AConst("S", "Some_set", "int", [1, True, 0, False, 2])], "set-int-1-True"), "enum-set"
    yield AModel([], [AConst("S", "Some_set", "int", [True, 1, False, 0])], "set-int-True-1"), "enum-set"
    yield AModel([], [AConst("S", "Some_set", "bytearray", [])], "set-empty:bytearray"), "enum-set"
    yield AModel([], [AConst("S", "Some_set", "bytearray", [b"ab"])], "set:bytearray:bytes"), "enum-set"
    # --- superset_of: chains 0..3, diamond, self, forward, cycle, repeated entry
    A = lambda n, vals, sup=(): AConst("S", n, "str", list(vals), list(sup))  # noqa: E731
    yield AModel([], [A("Set_a", ["a"]), A("Set_b", ["a", "b"], ["Set_a"])], "chain1"), "enum-subsets"
    yield AModel([], [A("Set_a", ["a"]), A("Set_b", ["a", "b"], ["Set_a"]), A("Set_c", ["c", "b", "a"], ["Set_b"])], "chain2"), "enum-subsets"
    yield AModel([], [A("Set_a", ["a"]), A("Set_b", ["a", "b"], ["Set_a"]), A("Set_c", ["c", "b", "a"], ["Set_b"]), A("Set_d", ["a", "b", "c", "d"], ["Set_c", "Set_a"])], "chain3"), "enum-subsets"
    # the relation is not transitive: Set_c ⊇ Set_b ⊇ Set_a holds pairwise only if written so
    yield AModel([], [A("Set_a", ["a"]), A("Set_b", ["a", "b"], ["Set_a"]), A("Set_c", ["b"], ["Set_b"])], "chain2-broken-at-top"), "enum-subsets"
    yield AModel([], [A("Set_a", ["a"]), A("Set_b", ["b"]), A("Set_c", ["a", "b"], ["Set_a", "Set_b"]), A("Set_d", ["b", "a", "d"], ["Set_c", "Set_a", "Set_b"])], "diamond"), "enum-subsets"
    yield AModel([], [A("Set_a", ["a"], ["Set_a"])], "self"), "enum-subsets"
    yield AModel([], [A("Set_b", ["a", "b"], ["Set_a"]), A("Set_a", ["a"])], "forward"), "enum-subsets"
    yield AModel([], [A("Set_a", ["a"], ["Set_b"]), A("Set_b", ["a"], ["Set_a"])], "cycle"), "enum-subsets"
    yield AModel([], [A("Set_a", ["a"], ["Set_b"]), A("Set_b", ["a", "b"], ["Set_a"])], "cycle-broken"), "enum-subsets"
    yield AModel([], [A("Set_a", ["a"]), A("Set_b", ["a"], ["Set_a", "Set_a"])], "repeated-entry"), "enum-subsets"
    yield AModel([], [A("Set_a", []), A("Set_b", [], ["Set_a"])], "empty-in-empty"), "enum-subsets"
    yield AModel([], [A("Set_a", ["a", "a"]), A("Set_b", ["a"], ["Set_a"])], "dups-in-subset"), "enum-subsets"
    # violations
    yield AModel([], [A("Set_b", ["a"], ["Set_a"])], "missing"), "enum-subsets"
    yield AModel([], [A("Set_b", ["a"], ["Something"])], "class-as-subset"), "enum-subsets"
    yield AModel([], [AConst("P", "Set_a", "str", "a"), A("Set_b", ["a"], ["Set_a"])], "primitive-as-subset"), "enum-subsets"
    yield AModel([], [A("Set_a", ["a", "c"]), A("Set_b", ["a"], ["Set_a"])], "not-contained-last"), "enum-subsets"
    yield AModel([], [A("Set_a", ["c", "a"]), A("Set_b", ["a"], ["Set_a"])], "not-contained-first"), "enum-subsets"
    yield AModel([], [A("Set_a", ["c", "d", "e"]), A("Set_b", [], ["Set_a"])], "not-contained-all"), "enum-subsets"
    yield AModel([], [A("Set_a", ["A"]), A("Set_b", ["a"], ["Set_a"])], "not-contained-case"), "enum-subsets"
    yield AModel([], [A("Set_a", ["a"]), A("Set_c", ["c"]), A("Set_b", ["a"], ["Set_a", "Set_c"])], "second-not-contained"), "enum-subsets"
    yield AModel([], [AConst("S", "Set_a", "int", [1]), AConst("S", "Set_b", "float", [1.0], ["Set_a"])], "type-int-in-float"), "enum-subsets"
    yield AModel([], [AConst("S", "Set_a", "str", ["1"]), AConst("S", "Set_b", "int", [1], ["Set_a"])], "type-str-in-int"), "enum-subsets"
    yield AModel([], [AConst("S", "Set_a", "bool", [True]), AConst("S", "Set_b", "int", [1], ["Set_a"])], "type-bool-in-int"), "enum-subsets"
    yield AModel([], [AConst("S", "Set_a", "int", [True]), AConst("S", "Set_b", "int", [1], ["Set_a"])], "True-contained-in-1"), "enum-subsets"
    yield AModel([], [AConst("S", "Set_a", "int", [1, 0]), AConst("S", "Set_b", "int", [True, False], ["Set_a"])], "1-contained-in-True"), "enum-subsets"
    yield AModel([], [AConst("S", "Set_a", "float", [float("inf"), 0.1]), AConst("S", "Set_b", "float", [0.1, 1.5, float("inf")], ["Set_a"])], "floats-inf"), "enum-subsets"
    yield AModel([], [AConst("S", "Set_a", "int", [2**63, 10**30]), AConst("S", "Set_b", "int", [10**30, 2**63, 0], ["Set_a"])], "huge-ints"), "enum-subsets"
    yield AModel([], [AConst("S", "Set_a", "str", ["\ud800", "\x00"]), AConst("S", "Set_b", "str", ["\x00", "\ud800", "😀"], ["Set_a"])], "awkward-strs"), "enum-subsets"
    # --- sets of enumeration literals
    col = AEnum("Color", [("Red", "red"), ("Green", "green"), ("Blue", "blue")])
    mode = AEnum("Mode", [("Red", "red"), ("Other", "other")])
    Es = lambda n, e, lits, sup=(): AConst("E", n, e, list(lits), list(sup))  # noqa: E731
    yield AModel([col], [Es("Set_a", "Color", [])], "enumset-empty"), "enum-enumset"
    yield AModel([col], [Es("Set_a", "Color", ["Green"])], "enumset-one"), "enum-enumset"
    yield AModel([col], [Es("Set_a", "Color", ["Blue", "Red", "Green"])], "enumset-all"), "enum-enumset"
    yield AModel([col], [Es("Set_a", "Color", ["Blue", "Blue"])], "enumset-dup"), "enum-enumset"
    yield AModel([col], [Es("Set_a", "Color", ["Purple"])], "enumset-unknown-literal"), "enum-enumset"
    yield AModel([col], [Es("Set_a", "Something", [])], "set-of-class"), "enum-enumset"
    yield AModel([col], [Es("Set_a", "Unknown_type", [])], "set-of-unknown"), "enum-enumset"
    yield AModel([col, mode], [Es("Set_a", "Color", ["Red"]), Es("Set_b", "Color", ["Green", "Red"], ["Set_a"]), Es("Set_c", "Color", ["Red", "Green", "Blue"], ["Set_b", "Set_a", "Set_c"])], "enumset-chain"), "enum-enumset"
    yield AModel([col, mode], [Es("Set_a", "Color", ["Red", "Blue"]), Es("Set_b", "Color", ["Green", "Red"], ["Set_a"])], "enumset-not-contained"), "enum-enumset"
    yield AModel([col, mode], [Es("Set_a", "Mode", ["Red"]), Es("Set_b", "Color", ["Green", "Red"], ["Set_a"])], "enumset-other-enum"), "enum-enumset"
    yield AModel([col, mode], [A("Set_a", ["red"]), Es("Set_b", "Color", ["Green", "Red"], ["Set_a"])], "enumset-kind-prim"), "enum-enumset"
    yield AModel([col, mode], [Es("Set_a", "Color", ["Red"]), A("Set_b", ["red"], ["Set_a"])], "primset-kind-enum"), "enum-enumset"
    yield AModel([col, mode], [Es("Set_b", "Color", ["Green", "Red"], ["Set_a"])], "enumset-missing"), "enum-enumset"
    yield AModel([col, mode], [AConst("P", "Set_a", "int", 1), Es("Set_b", "Color", ["Green", "Red"], ["Set_a"])], "enumset-primitive-as-subset"), "enum-enumset"
    # --- enumerations
    yield AModel([AEnum("Color", [])], [], "enum-0"), "enum-enum"
    yield AModel([AEnum("Color", [("Red", "red")])], [], "enum-1"), "enum-enum"
    yield AModel([col, mode, AEnum("Kind_of_thing", [])], [], "enum-3"), "enum-enum"
    yield AModel([AEnum("Color", [("Red", "red"), ("Green", "RED"), ("Blue", "Red"), ("Other", " red"), ("X1", "red "), ("Nothing", ""), ("Lower_case", "re")])], [], "enum-case-space"), "enum-enum"
    yield AModel([AEnum("Color", [("Red", "Red"), ("Green", "RED"), ("Blue", "Color.RED"), ("Other", "'Red'")])], [], "enum-values-like-names"), "enum-enum"
    yield AModel([AEnum("Color", [("Red", "red"), ("Green", "red")])], [], "enum-dup-values"), "enum-enum"
    yield AModel([AEnum("Color", [("Red", "red"), ("Green", "green"), ("Blue", "red")])], [], "enum-dup-values-apart"), "enum-enum"
    yield AModel([AEnum("Color", [("Red", "red"), ("Red", "green")])], [], "enum-dup-names"), "enum-enum"
    for i in range(0, len(STR_BOUNDARY), 6):
        vals = STR_BOUNDARY[i : i + 6]
        yield AModel([AEnum("Color", [(f"Literal_{j}", v) for j, v in enumerate(vals)])], [], "enum-boundary-values"), "enum-enum"
    for v in ["\x00", "\ud800", "'", '"', "\\", "\n", "\u2028", "😀", "{", "'\"\\"]:
        yield AModel([AEnum("Color", [("Red", v), ("Green", v + "x"), ("Blue", "x" + v)])], [], "enum-boundary-value"), "enum-enum"
    # everything together
    yield AModel(
        [col, mode],
        [
            AConst("P", "Some_text", "str", "it's \"x\"\\"),
            A("Set_a", ["a", ""]),
            AConst("P", "Some_number", "int", True),
            Es("Set_e", "Color", ["Red"]),
            A("Set_b", ["", "b", "a"], ["Set_a", "Set_b"]),
            AConst("S", "Set_f", "float", [0.1, float("inf")], []),
            Es("Set_g", "Color", ["Red", "Blue"], ["Set_e"]),
            AConst("P", "Some_ratio", "float", 1e22),
        ],
        "mixed",
    ), "enum-mixed"


def random_text(rng: Any) -> str:
    r = rng.random()
    if r < 0.35:
        return rng.choice(STR_BOUNDARY)
    alphabet = "abAB xyz019_-'\"\\{}\n\t\x00é\u2028😀\ud800"
    return "".join(rng.choice(alphabet) for _ in range(rng.randint(0, 6)))


def random_value(rng: Any, t: str) -> Any:
    if t == "bool":
        return rng.random() < 0.5
    if t == "int":
        r = rng.random()
        if r < 0.15:
            return rng.random() < 0.5  # a bool is an int
        if r < 0.5:
            return rng.choice(INT_BOUNDARY)
        return rng.randint(0, 5) if r < 0.8 else rng.getrandbits(rng.choice([8, 31, 53, 64, 100]))
    if t == "float":
        r = rng.random()
        if r < 0.4:
            return rng.choice(FLOAT_BOUNDARY)
        if r < 0.7:
            return float(rng.randint(0, 4)) / 2
        return abs(rng.uniform(0, 1) * 10 ** rng.randint(-30, 30))
    if t == "str":
        return random_text(rng)
    return bytes(rng.getrandbits(8) for _ in range(rng.randint(0, 3)))


def random_model(rng: Any, violate: float) -> AModel:
    """Own focused generator: only enumerations + constants; with probability ``violate`` one rule is broken."""
    enums: List[AEnum] = []
    for name in rng.sample(ENUM_NAMES, rng.randint(0, 3)):
        k = rng.choice([0, 1, 2, 3, 5])
        values: List[str] = []
        while len(values) < k:
            v = random_text(rng)
            if v not in values:
                values.append(v)
        enums.append(AEnum(name, list(zip(rng.sample(LIT_NAMES, k), values))))
    consts: List[AConst] = []
    n = rng.randint(0, 8)
    for i in range(n):
        name = f"Constant_{i}" if rng.random() < 0.7 else f"Some_set_{i}"
        r = rng.random()
        if r < 0.3:
            t = rng.choice(["bool", "int", "float", "str"])
            consts.append(AConst("P", name, t, random_value(rng, t)))
        elif r < 0.75 or not enums:
            t = rng.choice(["int", "float", "str", "str", "bool"])
            k = rng.choice([0, 1, 2, 3, 6])
            pool = [random_value(rng, t) for _ in range(max(1, k // 2 + 1))] if rng.random() < 0.4 else None
            vals = [rng.choice(pool) if pool else random_value(rng, t) for _ in range(k)]
            consts.append(AConst("S", name, t, vals))
        else:
            e = rng.choice(enums)
            names = [nm for nm, _ in e.literals]
            consts.append(AConst("E", name, e.name, rng.sample(names, rng.randint(0, len(names)))))
    # superset_of edges that hold: add the literals of the subset to the superset
    sets = [c for c in consts if c.kind != "P"]
    for c in sets:
        if rng.random() < 0.5:
            cands = [s for s in sets if s.kind == c.kind and s.typ == c.typ and (s is not c or rng.random() < 0.25)]
            for s in rng.sample(cands, min(len(cands), rng.randint(1, 3))):
                c.supers.append(s.name)
    for _ in range(4):  # close under the declared edges (a fixed point exists; cycles just equalise)
        for c in sets:
            for sn in c.supers:
                s = next(x for x in sets if x.name == sn)
                for v in s.values:
                    if c.kind == "E":
                        if v not in c.values:
                            c.values.append(v)
                    elif not any(exact(v, w) or v == w for w in c.values):
                        c.values.insert(rng.randint(0, len(c.values)), v)
    label = "valid"
    if rng.random() < violate and consts:
        c = rng.choice(consts)
        what = rng.choice(["drop-literal", "missing", "kind", "type", "declared", "ill-literal", "dup-enum-literal", "unknown-literal"])
        label = "violate:" + what
        if what == "drop-literal" and c.kind != "P" and c.values:
            c.values.pop(rng.randrange(len(c.values)))
        elif what == "missing" and c.kind != "P":
            c.supers.append(rng.choice(["Nowhere", "Something", "Color"]))
        elif what == "kind" and c.kind != "P":
            others = [o for o in consts if o.kind != c.kind]
            if others:
                c.supers.insert(rng.randint(0, len(c.supers)), rng.choice(others).name)
        elif what == "type" and c.kind != "P":
            others = [o for o in consts if o.kind == c.kind and o.typ != c.typ]
            if others:
                c.supers.append(rng.choice(others).name)
        elif what == "declared" and c.kind == "P":
            c.typ = rng.choice(PRIMS)
        elif what == "ill-literal" and c.kind == "S":
            t = rng.choice(["bool", "int", "float", "str", "bytearray"])
            c.values.insert(rng.randint(0, len(c.values)), random_value(rng, t))
        elif what == "dup-enum-literal" and c.kind == "E" and c.values and not c.supers and not any(c.name in o.supers for o in consts):
            c.values.append(rng.choice(c.values))
        elif what == "unknown-literal" and c.kind == "E":
            c.values.append("Purple")
    return AModel(enums, consts, label)


def from_mm(m: Any) -> AModel:
    """The constants/enumerations part of a ``harness.mm.MM``."""
    enums = [AEnum(e.name, [(l.name, l.value) for l in e.literals]) for e in m.enums]
    enum_names = {e.name for e in enums}
    by_order: List[AConst] = []
    for c in m.constants:
        by_order.append(AConst("P", c.name, "bytearray" if c.type == "bytes" else c.type, c.value))
    for c in m.constant_sets:
        if c.item_type in enum_names:
            by_order.append(AConst("E", c.name, c.item_type, list(c.values), list(c.superset_of)))
        else:
            by_order.append(AConst("S", c.name, "bytearray" if c.item_type == "bytes" else c.item_type, list(c.values), list(c.superset_of)))
    return AModel(enums, by_order, "random_mm", tuple([c.name for c in m.classes] + [c.name for c in m.constrained_primitives]))


RESOLVE_BASE = AModel(
    [AEnum("Color", [("Red", "red"), ("Green", "green"), ("Blue", "blue")]), AEnum("Mode", [("Red", "red")])],
    [
        AConst("S", "Str_ab", "str", ["a", "b"]),
        AConst("S", "Str_a", "str", ["a"]),
        AConst("S", "Str_abc", "str", ["c", "a", "b"]),
        AConst("S", "Str_none", "str", []),
        AConst("S", "Int_01", "int", [0, 1]),
        AConst("S", "Int_tf", "int", [True, False]),
        AConst("S", "Int_12", "int", [1, 2]),
        AConst("S", "Float_1", "float", [1.0]),
        AConst("S", "Bool_t", "bool", [True]),
        AConst("P", "Text_a", "str", "a"),
        AConst("P", "Number_1", "int", 1),
        AConst("E", "Color_r", "Color", ["Red"]),
        AConst("E", "Color_rg", "Color", ["Green", "Red"]),
        AConst("E", "Color_all", "Color", ["Red", "Green", "Blue"]),
        AConst("E", "Color_none", "Color", []),
        AConst("E", "Mode_r", "Mode", ["Red"]),
    ],
    "resolve-base",
)


def resolve_inputs(ctx: Ctx) -> Iterator[Tuple[str, List[str], str]]:
    names = [c.name for c in RESOLVE_BASE.consts] + ["Nowhere"]
    targets = [c.name for c in RESOLVE_BASE.consts]
    for t in targets:
        yield t, [], "resolve-enumerated"
        for p in names:
            yield t, [p], "resolve-enumerated"
    for t in ["Str_ab", "Int_01", "Color_rg"]:
        for p in names:
            for q in ["Str_a", "Int_tf", "Color_r", "Nowhere", "Text_a"]:
                yield t, [p, q], "resolve-enumerated"
    for _ in range(ctx.n(150, 3000)):
        t = ctx.rng.choice(targets)
        yield t, [ctx.rng.choice(names) for _ in range(ctx.rng.randint(0, 5))], "resolve-random"


# --------------------------------------------------------------------------- streams


def check_model(ctx: Ctx, m: AModel, stream: str, with_model: bool, batch: List[Tuple[str, Any]]) -> None:
    """Real tool chain + oracle now; the driver lines are queued in ``batch`` and compared later."""
    ob = observe(m)
    try:
        ctx.count(model_to_json(m), nontrivial=bool(m.consts or m.enums), stream=stream)
        ctx.hit("verdict:" + ob.verdict.split(":")[0] + (":" + ob.verdict.split(":")[1] if ob.verdict.startswith("rejected") else ""))
        for c in m.consts:
            ctx.hit(f"const-kind:{c.kind}")
            if c.supers:
                ctx.hit("superset_of:" + ("self" if c.name in c.supers else "other"))
        failures = judge(m, ob)
        for sig, what in failures:
            ctx.fail(model_to_json(m), what, sig)
        impl_line = dump_impl(m, ob)
        if with_model:
            batch.append((wire_sdk(m), ("sdk", m, impl_line)))
        if ob.verdict == "accepted":
            for e in m.enums:
                f = ob.from_str.get(e.name, _MISSING)
                E = ob.enums.get(e.name, _MISSING)
                if f is _MISSING or E is _MISSING or not e.literals:
                    continue
                N = py_names()
                back = {N.lit(n): n for n, _ in e.literals}
                probes = [t for t, _ in probes_for(m, e)]
                got = []
                for t in probes:
                    try:
                        r = f(t)
                        got.append("!" if r is None else enc_text(back.get(getattr(r, "name", "?"), "?")))
                    except BaseException as ex:  # noqa
                        got.append(crash_name(ex))
                ctx.hit("from_str:probes", len(probes))
                if with_model:
                    batch.append((f"fromstr {wire_enums(m)} {enc_text(e.name)} {wj(',', [enc_text(t) for t in probes])}", ("fromstr", m, wj(",", got))))
        if len(ctx.samples) < 12 and ctx.evaluations % 37 == 1:
            ctx.sample({"label": m.label, "source": render_model(m)[len(HEAD) :][:400], "impl": impl_line[:300]})
    finally:
        if ob.sdk is not None:
            ob.sdk.close()


def flush(ctx: Ctx, batch: List[Tuple[str, Any]]) -> None:
    if not batch:
        return
    answers = ctx.model([b[0] for b in batch])
    for (line, (stream, inp, impl_line)), ans in zip(batch, answers):
        ctx.traces_validated += 1
        if stream.startswith("sdk") and ans.startswith("crash:"):
            # A crash site of the front end (owned by C01): when it is repaired the model is *rejected*;
            # both mean "not accepted", which is all C30 needs to know.
            ctx.hit("model-crash-site:" + ans[6:])
            if impl_line == "crash" or impl_line.startswith("rejected:"):
                continue
        if ans != impl_line:
            ctx.disagree(stream, inp if isinstance(inp, dict) else model_to_json(inp), impl_line, ans)
    batch.clear()


def models(ctx: Ctx) -> Iterator[Tuple[AModel, str]]:
    for c in corpus(ID):
        if "enums" in c:
            yield model_from_json(c), "corpus"
    yield from enumerated(ctx)
    for _ in range(ctx.n(170, 4000)):
        yield random_model(ctx.rng, violate=0.35), "random"
    # the shared platform generator: whole meta-models (classes, invariants, …) around the constants
    from harness import mm

    feats = mm.Features(non_ascii_values=True, control_char_values=True, huge_ints=True)
    for _ in range(ctx.n(8, 150)):
        whole = mm.random_mm(ctx.rng, size=ctx.rng.randint(1, 4), features=feats)
        yield (whole, from_mm(whole)), "random_mm"  # type: ignore[misc]


def _run(ctx: Ctx, with_model: bool) -> None:
    from harness import mm

    batch: List[Tuple[str, Any]] = []
    for item, stream in models(ctx):
        if stream == "random_mm":
            whole, m = item  # type: ignore[misc]
            check_whole(ctx, whole, m, with_model, batch)
        else:
            check_model(ctx, item, stream, with_model, batch)
        if len(batch) >= 400:
            flush(ctx, batch)
    if with_model:
        flush(ctx, batch)
    # function level
    rb: List[Tuple[str, Any]] = []
    for t, ps, stream in resolve_inputs(ctx):
        got = resolve_impl(RESOLVE_BASE, t, ps)
        ctx.count(("resolve", t, ps), stream=stream)
        ctx.hit("resolve:" + got.split(":")[0])
        for kind in ("missing", "kind", "type", "notcontained"):
            if kind + ":" in got:
                ctx.hit("resolve-branch:" + kind)
        for sig, what in judge_resolve(RESOLVE_BASE, t, ps, got):
            ctx.fail({"resolve": {"target": t, "placeholders": ps}}, what, sig)
        if with_model:
            rb.append((f"resolve {wire_enums(RESOLVE_BASE)} {wire_consts(RESOLVE_BASE)} {enc_text(t)} {wj(',', [enc_text(p) for p in ps])}", ("resolve", {"resolve": {"target": t, "placeholders": ps}}, got)))
    if with_model:
        flush(ctx, rb)
    mm.scratch_root()  # keep the scratch directory alive until here (removed at exit)


def check_whole(ctx: Ctx, whole: Any, m: AModel, with_model: bool, batch: List[Tuple[str, Any]]) -> None:
    """A ``random_mm`` model: rendered by the platform; only accepted ones are compared."""
    from harness import mm

    src = mm.render(whole)
    sdk = mm.load_python_sdk(src)
    try:
        ctx.count(("mm", src), stream="random_mm")
        if not sdk.ok:
            e = sdk.error or ""
            ctx.hit("random_mm:" + ("not-accepted" if e.startswith("front end") else "sdk-error"))
            if e.startswith("import:") and re.search(r"\.(constants|types|stringification)'?\b", e.split("\n")[0] + e[-400:]):
                ctx.fail({"mm_source": src}, f"a generated module does not import: {e[:300]}", "C30:sdk:import:random_mm")
            return
        ctx.hit("random_mm:accepted")
        N = py_names()
        ob = Observed("accepted", sdk=sdk)
        for c in m.consts:
            ob.consts[c.name] = getattr(sdk.constants, N.const(c.name), _MISSING)
        for e in m.enums:
            ob.enums[e.name] = getattr(sdk.types, N.enum(e.name), _MISSING)
            ob.from_str[e.name] = getattr(sdk.stringification, N.from_str(e.name), _MISSING)
        for sig, what in judge(m, ob):
            ctx.fail({"mm_source": src, "model": model_to_json(m)}, what, sig)
        if with_model:
            batch.append((wire_sdk(m), ("sdk-random_mm", m, dump_impl(m, ob))))
    finally:
        sdk.close()


def correspond(ctx: Ctx) -> None:
    ctx.extra_cov["rule"] = (
        "inputs = abstract models (enumerations + constants); corpus + enumerated (every primitive type x boundary values, "
        "declared x value type, sets empty/one/all/duplicates/ill-typed, superset_of chains 0-3/diamond/self/forward/cycle and "
        "every violation, enumeration literal sets, enumerations 0/1/n with case/space/boundary values) + seeded random models "
        "(35 % with one broken rule) + harness.mm.random_mm whole models; plus the resolvers called directly on a 16-constant "
        "table with every single placeholder, pairs and random lists; non-trivial = has a constant or an enumeration; distinct by value"
    )
    ctx.assumptions.append(
        "primitive_exact is relative to the literal-encoder round trip of C19 (hypothesis of the theorem); here it is validated by "
        "importing the generated modules for every emitted value"
    )
    _run(ctx, True)


def oracle(ctx: Ctx) -> None:
    # the oracle runs on every correspondence input in _run; alone when the driver is missing or in search
    if not ctx.driver_ok or ctx.searching:
        _run(ctx, False)


def replay(ctx: Ctx, data: Dict[str, Any]) -> Any:
    inp = data["failure"]["input"] if "failure" in data else data
    if "resolve" in inp:
        t, ps = inp["resolve"]["target"], inp["resolve"]["placeholders"]
        got = resolve_impl(RESOLVE_BASE, t, ps)
        res: Dict[str, Any] = {"impl": got, "oracle": judge_resolve(RESOLVE_BASE, t, ps, got)}
        if ctx.driver_ok:
            res["model"] = ctx.model([f"resolve {wire_enums(RESOLVE_BASE)} {wire_consts(RESOLVE_BASE)} {enc_text(t)} {wj(',', [enc_text(p) for p in ps])}"])[0]
        return res
    if "mm_source" in inp and "model" not in inp:
        from harness import mm

        sdk = mm.load_python_sdk(inp["mm_source"])
        return {"impl": "ok" if sdk.ok else sdk.error}
    m = model_from_json(inp["model"] if "model" in inp else inp)
    if "mm_source" in inp:
        from harness import mm

        sdk = mm.load_python_sdk(inp["mm_source"])
        ob = Observed("accepted" if sdk.ok else "sdk-error:" + (sdk.error or "")[:60], sdk=sdk if sdk.ok else None, error=sdk.error or "")
        if sdk.ok:
            N = py_names()
            for c in m.consts:
                ob.consts[c.name] = getattr(sdk.constants, N.const(c.name), _MISSING)
            for e in m.enums:
                ob.enums[e.name] = getattr(sdk.types, N.enum(e.name), _MISSING)
                ob.from_str[e.name] = getattr(sdk.stringification, N.from_str(e.name), _MISSING)
    else:
        ob = observe(m)
    res = {"source": render_model(m), "impl": dump_impl(m, ob), "impl_error": ob.error[-600:], "oracle": judge(m, ob)}
    if ctx.driver_ok:
        res["model"] = ctx.model([wire_sdk(m)])[0]
    return res


# --------------------------------------------------------------------------- Gen: skeleton of the source


def _lean_str(s: str) -> str:
    return '"' + s.replace("\\", "\\\\").replace('"', '\\"') + '"'


class _Rename(ast.NodeTransformer):
    def __init__(self, mapping: Dict[str, str]) -> None:
        self.mapping = mapping

    def visit_Name(self, node: ast.Name) -> ast.AST:
        return ast.copy_location(ast.Name(id=self.mapping.get(node.id, node.id), ctx=node.ctx), node)


def _norm(node: ast.AST, mapping: Dict[str, str]) -> str:
    """Source text of ``node`` with the local variables replaced by role names (a renamed local is no change)."""
    import copy

    return ast.unparse(_Rename(mapping).visit(copy.deepcopy(node)))


def _resolver_skeleton(mod: ast.Module, name: str) -> Tuple[List[str], str, List[str]]:
    fn = extract._func(mod, name)
    loops = [n for n in fn.body if isinstance(n, ast.For)]
    if len(loops) != 1:
        raise ExtractError(f"{name}: expected exactly one top-level for loop, found {len(loops)}")
    loop = loops[0]
    if ast.unparse(loop.iter) != "constant_set.subsets" or not isinstance(loop.target, ast.Name):
        raise ExtractError(f"{name}: the loop does not iterate over constant_set.subsets")
    mapping: Dict[str, str] = {loop.target.id: "PLACEHOLDER"}
    # the looked-up subset
    for st in loop.body:
        if isinstance(st, ast.Assign) and len(st.targets) == 1 and isinstance(st.targets[0], ast.Name) and isinstance(st.value, ast.Call):
            if _norm(st.value, mapping) == "symbol_table.constants_by_name.get(PLACEHOLDER.name, None)":
                mapping[st.targets[0].id] = "SUBSET"
    if "SUBSET" not in mapping.values():
        raise ExtractError(f"{name}: the look-up symbol_table.constants_by_name.get(<placeholder>.name, None) was not found")
    tail = fn.body[fn.body.index(loop) + 1 :]
    if len(tail) != 2 or not isinstance(tail[0], ast.If) or not isinstance(tail[1], ast.Return) or not isinstance(tail[0].body[0], ast.Return):
        raise ExtractError(f"{name}: unexpected statements after the loop")
    test = tail[0].test
    if not (isinstance(test, ast.Compare) and isinstance(test.left, ast.Call) and ast.unparse(test.left.func) == "len" and isinstance(test.left.args[0], ast.Name)):
        raise ExtractError(f"{name}: the final test is not `len(<errors>) > 0`")
    mapping[test.left.args[0].id] = "ERRORS"
    last = tail[1].value
    if not (isinstance(last, ast.Tuple) and isinstance(last.elts[0], ast.Name)):
        raise ExtractError(f"{name}: the final return is not `return <subsets>, None`")
    mapping[last.elts[0].id] = "SUBSETS"
    guards: List[str] = []
    inner: Optional[str] = None
    for st in loop.body:
        if isinstance(st, ast.If):
            appends = any(isinstance(n, ast.Call) and _norm(n.func, mapping) == "ERRORS.append" for n in ast.walk(st))
            ends = isinstance(st.body[-1], ast.Continue)
            if not (appends and ends and not st.orelse):
                raise ExtractError(f"{name}: a guard does not append an error and continue: {ast.unparse(st.test)}")
            guards.append(_norm(st.test, mapping))
        elif isinstance(st, ast.For):
            # either `for L in SUBSET.literals: if <test>: ERRORS.append(…)`
            # or     `for L in [x for x in SUBSET.literals if <test>]: ERRORS.append(…)` (the list possibly named once before)
            it = extract.resolve_local(fn, st.iter)
            appends_in = lambda block: any(  # noqa: E731
                isinstance(n, ast.Call) and _norm(n.func, mapping) == "ERRORS.append" for b in block for n in ast.walk(b)
            )
            if (
                isinstance(it, ast.ListComp)
                and len(it.generators) == 1
                and not it.generators[0].is_async
                and isinstance(it.generators[0].target, ast.Name)
                and isinstance(it.elt, ast.Name)
                and it.elt.id == it.generators[0].target.id
                and _norm(it.generators[0].iter, mapping) == "SUBSET.literals"
            ):
                if len(it.generators[0].ifs) != 1 or any(isinstance(n, ast.If) for n in st.body) or not appends_in(st.body):
                    raise ExtractError(f"{name}: the inner loop has no single error-appending test")
                inner_map = dict(mapping)
                inner_map[it.generators[0].target.id] = "LITERAL"
                inner = _norm(it.generators[0].ifs[0], inner_map)
                continue
            if _norm(it, mapping) != "SUBSET.literals" or not isinstance(st.target, ast.Name):
                raise ExtractError(f"{name}: the inner loop does not iterate over the literals of the subset")
            inner_map = dict(mapping)
            inner_map[st.target.id] = "LITERAL"
            ifs = [n for n in st.body if isinstance(n, ast.If)]
            if len(ifs) != 1 or not appends_in([ifs[0]]):
                raise ExtractError(f"{name}: the inner loop has no single error-appending test")
            inner = _norm(ifs[0].test, inner_map)
    if inner is None:
        raise ExtractError(f"{name}: the containment loop was not found")
    if _norm(loop.body[-1], mapping) != "SUBSETS.append(SUBSET)":
        raise ExtractError(f"{name}: the loop does not end with <subsets>.append(<subset>)")
    final = [_norm(tail[0].test, mapping), _norm(tail[0].body[0].value, mapping), _norm(tail[1].value, mapping)]  # type: ignore[arg-type]
    return guards, inner, final


def gen_SdkConst(repo: pathlib.Path) -> str:
    mod = extract._parse(repo, "aas_core_codegen/intermediate/_translate.py")
    pg, pi, pf = _resolver_skeleton(mod, "_resolve_subsets_in_constant_set_of_primitives")
    eg, ei, ef = _resolver_skeleton(mod, "_resolve_subsets_in_constant_set_of_enumeration_literals")
    # what the python generator iterates over when it writes a set
    gmod = extract._parse(repo, "aas_core_codegen/python/lib/_generate_constants.py")
    iters: List[str] = []
    for fname in ("_generate_constant_set_of_primitives", "_generate_constant_set_of_enumeration_literals"):
        fn = extract._func(gmod, fname)
        found = sorted({ast.unparse(n.iter) for n in ast.walk(fn) if isinstance(n, ast.For)})
        if not found:
            raise ExtractError(f"{fname}: no loop over the literals")
        iters += found
    # the from-string map and function
    smod = extract._parse(repo, "aas_core_codegen/python/lib/_generate_stringification.py")
    fn = extract._func(smod, "_generate_enum_from_string")
    # (what a module-level helper writes reads as if it were written at its call, parameters bound to the arguments)
    fnodes = extract.nodes_in_execution_order(smod, fn, lambda g: True)
    loops = [n for n in fnodes if isinstance(n, ast.For)]
    if len(loops) != 1 or ast.unparse(loops[0].iter) != "enumeration.literals" or not isinstance(loops[0].target, ast.Name):
        raise ExtractError("_generate_enum_from_string: expected one loop over enumeration.literals")
    lmap = {loops[0].target.id: "LITERAL"}
    entry = [_norm(v.value, lmap) for n in ast.walk(loops[0]) if isinstance(n, ast.JoinedStr) for v in n.values if isinstance(v, ast.FormattedValue)]
    entry = [x for x in entry if "LITERAL" in x]
    if len(entry) != 1:
        raise ExtractError(f"_generate_enum_from_string: expected one formatted value over the literal in a map entry, found {entry}")
    tails = [c.value for n in fnodes if isinstance(n, ast.JoinedStr) for c in n.values if isinstance(c, ast.Constant) and isinstance(c.value, str) and c.value.startswith(".get(")]
    if len(tails) != 1:
        raise ExtractError("_generate_enum_from_string: the lookup `<map>.get(…)` of the from-string function was not found")
    lookup = tails[0].split("\n")[0].strip()
    tmod = extract._parse(repo, "aas_core_codegen/python/lib/_generate_types.py")
    efn = extract._func(tmod, "_generate_enum")
    eloops = [n for n in ast.walk(efn) if isinstance(n, ast.For) and ast.unparse(n.iter) == "enum.literals" and isinstance(n.target, ast.Name)]
    if len(eloops) != 1:
        raise ExtractError("_generate_enum: expected one loop over enum.literals")
    emap = {eloops[0].target.id: "LITERAL"}  # type: ignore[union-attr]
    lines = [n for n in ast.walk(eloops[0]) if isinstance(n, ast.JoinedStr) and any(isinstance(c, ast.Constant) and c.value == " = " for c in n.values)]
    if len(lines) != 1:
        raise ExtractError("_generate_enum: the member line `<name> = <value>` was not found")
    member = [x for x in (_norm(v.value, emap) for v in lines[0].values if isinstance(v, ast.FormattedValue)) if "LITERAL" in x]
    out = [
        "/-! GENERATED by harness/props/c30.py (gen_SdkConst) from aas_core_codegen/intermediate/_translate.py,",
        "python/lib/_generate_constants.py, _generate_stringification.py, _generate_types.py — do not edit. -/",
        "namespace AasVerif.Gen.SdkConst",
        "/-- tests of the error branches of the loop over `constant_set.subsets`, in order (each appends an error and continues) -/",
        "def primGuards : List String := [" + ", ".join(_lean_str(g) for g in pg) + "]",
        "def enumGuards : List String := [" + ", ".join(_lean_str(g) for g in eg) + "]",
        "/-- the containment test inside `for literal in maybe_subset.literals` -/",
        "def primMembership : String := " + _lean_str(pi),
        "def enumMembership : String := " + _lean_str(ei),
        "/-- `if <test>: return <a>` / `return <b>` after the loop -/",
        "def primFinal : List String := [" + ", ".join(_lean_str(g) for g in pf) + "]",
        "def enumFinal : List String := [" + ", ".join(_lean_str(g) for g in ef) + "]",
        "/-- what the python generator loops over when it writes a constant set -/",
        "def emittedLoops : List String := [" + ", ".join(_lean_str(g) for g in iters) + "]",
        "/-- the formatted values of one entry of the from-string map, and the lookup of the function -/",
        "def fromStrEntry : List String := [" + ", ".join(_lean_str(g) for g in entry) + "]",
        "def fromStrLookup : String := " + _lean_str(lookup),
        "/-- the formatted values of one member line of a generated enumeration -/",
        "def enumMemberLine : List String := [" + ", ".join(_lean_str(g) for g in member) + "]",
        "end AasVerif.Gen.SdkConst",
    ]
    return "\n".join(out) + "\n"
