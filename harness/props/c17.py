"""C17 — UTF-16 regex rewriting (`retree._fix`, `jsonschema.fix_pattern_for_utf16`).

* Gen: the numeric constants of `_FixForUTF16Regex` (plane bounds, surrogate arithmetic, `@ensure` bounds).
* Correspondence: `fix` on trees (wire form) and `fix_pattern_for_utf16` on pattern text against
  `Model.Fix16.fix`; `surrogates`, `utf16`.
* Direct oracle (independent of Lean): Python `re` on the surrogate-pair encoding:
  `re.fullmatch(p, s) <=> re.fullmatch(fix_pattern_for_utf16(p), units(s))` for scalar strings `s`.
"""
from __future__ import annotations

import ast
import pathlib
import re
import traceback
from typing import Any, Dict, Iterator, List, Optional, Sequence, Tuple

from harness import retree_wire
from harness.core import Ctx, corpus, crash_name, dec_text, enc_text
from harness.extract import ExtractError, HEADER, _class, _func, _parse

ID = "C17"
GEN = ["Fix16"]

SIG_F1 = "C17:unit-wide-dot-or-complement:astral-input"
SIG_F2 = "C17:surrogate-code-points-in-pattern:astral-input"

# --------------------------------------------------------------------------- Gen


def _int(node: ast.AST, what: str) -> int:
    if isinstance(node, ast.Constant) and isinstance(node.value, int) and not isinstance(node.value, bool):
        return node.value
    raise ExtractError(f"{what}: integer literal expected, got {ast.dump(node)[:80]}")


def _sub_code(node: ast.AST, what: str) -> int:
    # (code - K)
    if isinstance(node, ast.BinOp) and isinstance(node.op, ast.Sub) and isinstance(node.left, ast.Name) and node.left.id == "code":
        return _int(node.right, what)
    raise ExtractError(f"{what}: `code - K` expected")


def gen_Fix16(repo: pathlib.Path) -> str:
    rel = "aas_core_codegen/parse/retree/_fix.py"
    mod = _parse(repo, rel)
    cls = _class(mod, "_FixForUTF16Regex")
    consts: Dict[str, int] = {}
    for st in cls.body:
        if isinstance(st, ast.Assign) and len(st.targets) == 1 and isinstance(st.targets[0], ast.Name):
            if st.targets[0].id in ("_SUPPLEMENTARY_PLANE_START", "_SUPPLEMENTARY_PLANE_END"):
                consts[st.targets[0].id] = _int(st.value, st.targets[0].id)
    if len(consts) != 2:
        raise ExtractError("_SUPPLEMENTARY_PLANE_START/_END not found as integer class constants")
    fn = _func(cls, "_convert_to_surrogates")
    arith: Dict[str, Tuple[int, int, int]] = {}
    for st in fn.body:
        if isinstance(st, ast.Assign) and len(st.targets) == 1 and isinstance(st.targets[0], ast.Name):
            name = st.targets[0].id
            v = st.value
            # (code - A) OP B + C
            if not (isinstance(v, ast.BinOp) and isinstance(v.op, ast.Add) and isinstance(v.left, ast.BinOp)):
                raise ExtractError(f"{name}: `(code - A) op B + C` expected")
            op = v.left.op
            want = ast.FloorDiv if name == "high_surrogate" else ast.Mod
            if not isinstance(op, want):
                raise ExtractError(f"{name}: operator {type(op).__name__} instead of {want.__name__}")
            arith[name] = (_sub_code(v.left.left, name), _int(v.left.right, name), _int(v.right, name))
    if set(arith) != {"high_surrogate", "low_surrogate"}:
        raise ExtractError("_convert_to_surrogates: high_surrogate/low_surrogate assignments not found")
    ret = fn.body[-1]
    if not (
        isinstance(ret, ast.Return)
        and isinstance(ret.value, ast.Tuple)
        and [getattr(e, "id", None) for e in ret.value.elts] == ["high_surrogate", "low_surrogate"]
    ):
        raise ExtractError("_convert_to_surrogates does not return (high_surrogate, low_surrogate)")
    # @ensure(lambda result: L1 <= result[0] <= U1 and L2 <= result[1] <= U2)
    ens: Optional[List[int]] = None
    req_ok = False
    for dec in fn.decorator_list:
        if isinstance(dec, ast.Call) and getattr(dec.func, "id", None) == "ensure" and isinstance(dec.args[0], ast.Lambda):
            body = dec.args[0].body
            if isinstance(body, ast.BoolOp) and isinstance(body.op, ast.And) and len(body.values) == 2:
                got = []
                for i, cmp in enumerate(body.values):
                    if not (
                        isinstance(cmp, ast.Compare)
                        and len(cmp.ops) == 2
                        and all(isinstance(o, ast.LtE) for o in cmp.ops)
                        and isinstance(cmp.comparators[0], ast.Subscript)
                        and _int(cmp.comparators[0].slice, "ensure index") == i
                    ):
                        raise ExtractError("@ensure of _convert_to_surrogates has an unknown shape")
                    got += [_int(cmp.left, "ensure"), _int(cmp.comparators[1], "ensure")]
                ens = got
        if isinstance(dec, ast.Call) and getattr(dec.func, "id", None) == "require" and isinstance(dec.args[0], ast.Lambda):
            body = dec.args[0].body
            if (
                isinstance(body, ast.Compare)
                and len(body.ops) == 2
                and all(isinstance(o, ast.LtE) for o in body.ops)
                and getattr(body.left, "attr", None) == "_SUPPLEMENTARY_PLANE_START"
                and getattr(body.comparators[0], "id", None) == "code"
                and getattr(body.comparators[1], "attr", None) == "_SUPPLEMENTARY_PLANE_END"
            ):
                req_ok = True
    if ens is None:
        raise ExtractError("@ensure of _convert_to_surrogates not found")
    if not req_ok:
        raise ExtractError("@require PLANE_START <= code <= PLANE_END of _convert_to_surrogates not found")
    h, l = arith["high_surrogate"], arith["low_surrogate"]
    lines = [
        ("planeStart", consts["_SUPPLEMENTARY_PLANE_START"]),
        ("planeEnd", consts["_SUPPLEMENTARY_PLANE_END"]),
        ("hiSub", h[0]),
        ("hiDiv", h[1]),
        ("hiBase", h[2]),
        ("loSub", l[0]),
        ("loMod", l[1]),
        ("loBase", l[2]),
        ("ensHiMin", ens[0]),
        ("ensHiMax", ens[1]),
        ("ensLoMin", ens[2]),
        ("ensLoMax", ens[3]),
    ]
    return (
        HEADER.format(src=rel)
        + "namespace AasVerif.Gen.Fix16\n"
        + "".join(f"abbrev {n} : Nat := {v}\n" for n, v in lines)
        + "end AasVerif.Gen.Fix16\n"
    )


# --------------------------------------------------------------------------- helpers on real nodes


def rt() -> Any:
    from aas_core_codegen.parse import retree

    return retree


def units(s: str) -> str:
    """UTF-16 code units of ``s``, one ``chr`` per 16-bit unit."""
    b = s.encode("utf-16-le", "surrogatepass")
    return "".join(chr(b[i] | (b[i + 1] << 8)) for i in range(0, len(b), 2))


def is_scalar(s: str) -> bool:
    return all(not (0xD800 <= ord(c) <= 0xDFFF) for c in s)


def render_text(regex: Any) -> str:
    parts = rt().render(regex)
    assert all(isinstance(p, str) for p in parts)
    return "".join(parts)


def impl_fix_tree(wire: str) -> str:
    """The real `fix_for_utf16_regex_in_place` on a tree given in wire form."""
    try:
        regex = retree_wire.dec(wire)
    except BaseException as e:  # noqa
        return "unbuildable:" + type(e).__name__
    try:
        rt().fix_for_utf16_regex_in_place(regex)
        return "ok " + retree_wire.enc(regex)
    except BaseException as e:  # noqa
        return crash_name(e)


def parse_text(p: str) -> Tuple[str, Any]:
    """('ok', regex) | ('rejected', None) | ('crash:<T>', None)"""
    try:
        regex, err = rt().parse([p])
    except BaseException as e:  # noqa
        return crash_name(e), None
    if err is not None:
        return "rejected", None
    return "ok", regex


def impl_fix_text(p: str) -> Tuple[str, Optional[str], str]:
    """The real `fix_pattern_for_utf16`: (status, fixed text, raising function)."""
    from aas_core_codegen.jsonschema.main import fix_pattern_for_utf16

    try:
        return "ok", fix_pattern_for_utf16(p), ""
    except BaseException as e:  # noqa
        tb = traceback.extract_tb(e.__traceback__)
        site = ""
        for fr in reversed(tb):
            if "icontract" not in fr.filename:
                site = fr.name
                break
        return crash_name(e), None, site


# --------------------------------------------------------------------------- generators

HIS = [0xD800, 0xD801, 0xD802, 0xD803, 0xD83D, 0xDBFE, 0xDBFF]
LOS = [0xDC00, 0xDC01, 0xDE00, 0xDFFE, 0xDFFF]
BMP = [0x61, 0x62, 0x7A, 0x30, 0x0A, 0x20, 0xFF, 0x100, 0xD7FF, 0xE000, 0xFFFD, 0xFFFF]
SURR = [0xD800, 0xDBFF, 0xDC00, 0xDFFF]


def astral(hi: int, lo: int) -> int:
    return 0x10000 + (hi - 0xD800) * 0x400 + (lo - 0xDC00)


class G:
    """Random trees as nested tuples; `wire()` gives the shared wire form.

    value := ('g', union) | ('h', code, enc) | ('s', compl, [(a, ea, b|None, eb)]) | ('y', k)
    term := (value, quant|None), quant := (nonGreedy, min, max|None); union := [concat], concat := [term]
    """

    def __init__(self, rng: Any, clean: bool) -> None:
        self.rng = rng
        self.clean = clean  # no dot, no complement, no surrogate code points

    def code(self, astral_bias: float = 0.5) -> int:
        r = self.rng
        x = r.random()
        if x < astral_bias:
            return astral(r.choice(HIS), r.choice(LOS))
        if not self.clean and x > 0.97:
            return r.choice(SURR)
        return r.choice(BMP)

    def rng_(self) -> Tuple[int, bool, Optional[int], bool]:
        r = self.rng
        k = r.random()
        ea, eb = r.random() < 0.5, r.random() < 0.5
        if k < 0.15:
            return (self.code(), ea, None, False)
        if k < 0.25:
            c = self.code()
            return (c, ea, c, eb)
        if k < 0.65:
            # astral range by high-surrogate distance
            hs = r.choice(HIS[:5])
            d = r.choice([0, 0, 1, 1, 2, 2, 3, 7, 0x3FF])
            he = min(hs + d, 0xDBFF)
            a, b = astral(hs, r.choice(LOS)), astral(he, r.choice(LOS))
            if a > b:
                a, b = b, a
            return (a, ea, b, eb)
        if k < 0.8:
            # straddling
            lo = r.choice([0x61, 0xE000, 0xFFFD, 0xFFFF] + ([] if self.clean else [0xD7FF, 0xD800, 0xDFFF]))
            return (lo, ea, astral(r.choice(HIS), r.choice(LOS)), eb)
        # BMP range
        cands = [(0x61, 0x7A), (0x30, 0x39), (0xE000, 0xFFFD), (0x20, 0xD7FF), (0x61, 0x62)]
        if not self.clean:
            cands += [(0xD7FF, 0xE000), (0x0, 0xFFFF), (0xD800, 0xDBFF), (0xDC00, 0xDFFF)]
        a, b = r.choice(cands)
        return (a, ea, b, eb)

    def quant(self) -> Optional[Tuple[bool, int, Optional[int]]]:
        r = self.rng
        if r.random() < 0.55:
            return None
        mn = r.choice([0, 0, 1, 1, 2])
        mx = r.choice([None, mn, mn + 1, mn + 2])
        if mx == 0:
            mx = 1
        return (r.random() < 0.2, mn, mx)

    def value(self, depth: int) -> Any:
        r = self.rng
        k = r.random()
        if depth > 0 and k < 0.22:
            return ("g", self.union(depth - 1))
        if k < 0.55:
            return ("h", self.code(0.55), r.random() < 0.5)
        if k < 0.93 or self.clean:
            n = r.choice([1, 1, 2, 2, 3])
            compl = (not self.clean) and r.random() < 0.25
            rs = []
            allow_overlap = (not self.clean) and r.random() < 0.15  # the parser rejects overlapping ranges
            for _ in range(n):
                for _attempt in range(6):
                    x = self.rng_()
                    lo, hi = x[0], (x[0] if x[2] is None else x[2])
                    if allow_overlap or all(hi < y[0] or (y[0] if y[2] is None else y[2]) < lo for y in rs):
                        rs.append(x)
                        break
            if not rs:
                rs = [self.rng_()]
            if compl and r.random() < 0.8:
                rs = [x for x in rs if x[0] < 0x10000 and (x[2] is None or x[2] < 0x10000)] or [(0x61, False, None, False)]
            return ("s", compl, rs)
        return ("y", 2)

    def concat(self, depth: int) -> List[Any]:
        n = self.rng.choice([1, 1, 2, 2, 3])
        return [(self.value(depth), self.quant()) for _ in range(n)]

    def union(self, depth: int) -> List[Any]:
        n = self.rng.choice([1, 1, 1, 2, 3])
        return [self.concat(depth) for _ in range(n)]

    def regex(self) -> List[Any]:
        u = self.union(self.rng.choice([0, 1, 1, 2]))
        if self.rng.random() < 0.7:
            u = [[(("y", 0), None)] + c + [(("y", 1), None)] for c in u]
        return u


def _b(x: bool) -> str:
    return "1" if x else "0"


def wire_of(u: Any) -> str:
    out: List[str] = []

    def union(u: Any) -> None:
        out.extend(["u", str(len(u))])
        for c in u:
            out.extend(["c", str(len(c))])
            for v, q in c:
                out.append("t")
                if v[0] == "g":
                    out.append("g")
                    union(v[1])
                elif v[0] == "h":
                    out.extend(["h", str(v[1]), _b(v[2])])
                elif v[0] == "s":
                    out.extend(["s", _b(v[1]), str(len(v[2]))])
                    for a, ea, b, eb in v[2]:
                        out.extend(["r", str(a), _b(ea)])
                        if b is None:
                            out.append("n")
                        else:
                            out.extend(["e", str(b), _b(eb)])
                else:
                    out.extend(["y", str(v[1])])
                if q is None:
                    out.append("n")
                else:
                    out.extend(["q", _b(q[0]), str(q[1]), "x" if q[2] is None else str(q[2])])

    union(u)
    return ",".join(out)


def anch(*terms: Any) -> List[Any]:
    return [[(("y", 0), None)] + list(terms) + [(("y", 1), None)]]


def enumerated() -> Iterator[Tuple[str, str]]:
    """Seed-independent trees that alone hit every branch of the model."""
    Q = [None, (False, 0, None), (False, 1, 2), (True, 2, 2)]
    # astral literal, with/without quantifier, both encodings
    for c in [0x10000, 0x1F600, 0x103FF, 0x10400, 0x10FFFF, 0x61, 0xFFFF, 0xD800]:
        for q in Q:
            for e in (False, True):
                yield wire_of(anch((("h", c, e), q))), "enum-literal"
    # one astral range: equal / adjacent / +2 / distant high surrogates x low edges
    for hs in [0xD800, 0xD83D, 0xDBFC]:
        for d in [0, 1, 2, 3, 5]:
            he = hs + d
            if he > 0xDBFF:
                continue
            for ls in [0xDC00, 0xDC01, 0xDFFF]:
                for le in [0xDC00, 0xDFFE, 0xDFFF]:
                    a, b = astral(hs, ls), astral(he, le)
                    for q in (None, (False, 1, None)):
                        yield wire_of(anch((("s", False, [(a, True, b, True)]), q))), "enum-range"
    # single element / start == end / BMP + astral / several astral ranges / straddling
    S = [
        [(0x1F600, False, None, False)],
        [(0x1F600, True, 0x1F600, False)],
        [(0x61, False, 0x7A, False), (0x1F600, True, 0x1F64F, True)],
        [(0x1F600, True, 0x1F64F, True), (0x30, False, None, False), (0x10000, True, 0x10FFFF, True)],
        [(0x61, False, 0x10000, True)],
        [(0xFFFF, True, 0x10000, True)],
        [(0xE000, True, 0x10FFFF, True)],
        [(0x0, True, 0x10FFFF, True)],
        [(0x61, False, 0x7A, False)],
        [(0xD800, True, 0xDFFF, True)],
        [],
        [(0x1F601, True, 0x1F600, True)],
        [(0x1F601, True, 0x61, False)],
        [(0x7A, False, 0x61, False)],
    ]
    for rs in S:
        for compl in (False, True):
            for q in (None, (False, 0, 1)):
                yield wire_of(anch((("s", compl, rs), q))), "enum-set"
    # dot, groups, unions, nesting, crash order (phase 1 after a group that crashes)
    bad = ("s", True, [(0x1F600, True, None, False)])
    bad2 = ("s", False, [(0x1F601, True, 0x1F600, True)])
    good = ("s", False, [(0x1F600, True, 0x1F64F, True)])
    lit = ("h", 0x1F600, False)
    for q in Q:
        yield wire_of(anch((("y", 2), q))), "enum-misc"
        yield wire_of(anch((("g", [[(lit, None), (good, q)], [(("h", 0x61, False), q)]]), q))), "enum-misc"
        yield wire_of([[(("g", [[(("g", [[(lit, q)]]), None)]]), q)], [(good, None)]]), "enum-misc"
        yield wire_of([[(("g", [[(bad, None)]]), None), (bad2, q)]]), "enum-misc"
        yield wire_of([[(("g", [[(bad2, None)]]), None), (lit, q)], [(bad, None)]]), "enum-misc"
    yield wire_of([]), "enum-misc"
    yield wire_of([[]]), "enum-misc"
    yield wire_of([[(("f", 0), None)]]) if False else wire_of([[(("y", 0), None)]]), "enum-misc"


def trees(ctx: Ctx) -> Iterator[Tuple[str, str]]:
    for c in corpus(ID):
        if "wire" in c:
            yield c["wire"], "corpus"
        elif "pattern" in c or "p" in c:
            st, regex = parse_text(dec_text(c["p"]) if "p" in c else c["pattern"])
            if regex is not None:
                yield retree_wire.enc(regex), "corpus"
    yield from enumerated()
    for i in range(ctx.n(900, 15000)):
        g = G(ctx.rng, clean=(i % 4 != 0))
        yield wire_of(g.regex()), ("random-clean" if g.clean else "random-any")


# --------------------------------------------------------------------------- oracle


def tree_facts(regex: Any) -> Dict[str, Any]:
    """What the oracle needs to know about a (real) tree: code points used, dot/complement, surrogates."""
    R = rt()
    facts = {"codes": set(), "dot_or_compl": False, "surrogates": False, "astral": False}

    def walk_union(u: Any) -> None:
        for c in u.uniates:
            for t in c.concatenants:
                v = t.value
                if isinstance(v, R.Group):
                    walk_union(v.union)
                elif isinstance(v, R.Char):
                    o = ord(v.character)
                    facts["codes"].add(o)
                    if 0xD800 <= o <= 0xDFFF:
                        facts["surrogates"] = True
                elif isinstance(v, R.CharSet):
                    if v.complementing:
                        facts["dot_or_compl"] = True
                    for r in v.ranges:
                        a = ord(r.start.character)
                        b = a if r.end is None else ord(r.end.character)
                        facts["codes"].update((a, b))
                        if a <= 0xDFFF and b >= 0xD800:
                            facts["surrogates"] = True
                elif isinstance(v, R.Symbol) and v.kind is R.SymbolKind.DOT:
                    facts["dot_or_compl"] = True

    walk_union(regex.union)
    return facts


def scalar_complement(ranges: Sequence[Tuple[int, int]]) -> List[Tuple[int, int]]:
    """Scalar values (0..D7FF, E000..10FFFF) not covered by ``ranges``."""
    out = []
    for lo, hi in ((0, 0xD7FF), (0xE000, 0x10FFFF)):
        cur = lo
        for a, b in sorted(ranges):
            if b < cur or a > hi:
                continue
            if a > cur:
                out.append((cur, min(a - 1, hi)))
            cur = max(cur, b + 1)
            if cur > hi:
                break
        if cur <= hi:
            out.append((cur, hi))
    return out


def clip_scalar(a: int, b: int) -> List[Tuple[int, int]]:
    out = []
    if a <= min(b, 0xD7FF):
        out.append((a, min(b, 0xD7FF)))
    if max(a, 0xE000) <= b:
        out.append((max(a, 0xE000), b))
    return out


class CannotDesugar(Exception):
    pass


def desugar(regex: Any) -> Any:
    """A tree with the same language over *scalar* strings, but with `.` and complemented sets
    written as positive sets of scalar values and no set covering surrogate code points —
    the form for which the surrogate-pair expansion is meant to be exact."""
    R = rt()

    def mk_set(pairs: Sequence[Tuple[int, int]]) -> Any:
        if not pairs:
            raise CannotDesugar()
        return R.CharSet(
            False,
            [R.Range(R.Char(chr(a), True), None if a == b else R.Char(chr(b), True)) for a, b in pairs],
        )

    def union(u: Any) -> Any:
        cs = []
        for c in u.uniates:
            ts = []
            for t in c.concatenants:
                v = t.value
                if isinstance(v, R.Group):
                    nv = R.Group(union(v.union))
                elif isinstance(v, R.Char):
                    if 0xD800 <= ord(v.character) <= 0xDFFF:
                        raise CannotDesugar()
                    nv = v
                elif isinstance(v, R.CharSet):
                    pairs = []
                    for r in v.ranges:
                        a = ord(r.start.character)
                        b = a if r.end is None else ord(r.end.character)
                        pairs.append((a, b))
                    if v.complementing:
                        nv = mk_set(scalar_complement(pairs))
                    else:
                        clipped = [p for a, b in pairs for p in clip_scalar(a, b)]
                        nv = mk_set(clipped)
                elif isinstance(v, R.Symbol) and v.kind is R.SymbolKind.DOT:
                    nv = mk_set(scalar_complement([(10, 10)]))
                else:
                    nv = v
                ts.append(R.Term(nv, t.quantifier))
            cs.append(R.Concatenation(ts))
        return R.UnionExpr(cs)

    return R.Regex(union(regex.union))


def fm(p: Any, s: str) -> bool:
    return p.fullmatch(s) is not None


def strings_for(ctx: Ctx, regex: Any, facts: Dict[str, Any], n_random: int) -> List[str]:
    """Scalar strings over the pattern's characters, their neighbours, range boundaries +-1, astral."""
    R = rt()
    rng = ctx.rng
    alpha = set()
    for c in facts["codes"]:
        for d in (-1, 0, 1):
            if 0 <= c + d <= 0x10FFFF:
                alpha.add(c + d)
        if c >= 0x10000:
            # same high surrogate / same low surrogate neighbours
            for d in (-0x400, 0x400):
                if 0x10000 <= c + d <= 0x10FFFF:
                    alpha.add(c + d)
    alpha.update([0x61, 0x0A, 0x1F600, 0x10000, 0x10FFFF, 0xFFFF, 0xE000, 0xD7FF])
    alpha = sorted(c for c in alpha if not (0xD800 <= c <= 0xDFFF))
    out = [""] + [chr(c) for c in alpha]

    def sample(u: Any, depth: int = 0) -> str:
        c = rng.choice(u.uniates) if u.uniates else None
        if c is None:
            return ""
        s = ""
        for t in c.concatenants:
            q = t.quantifier
            k = 1
            if q is not None:
                hi = q.minimum + 2 if q.maximum is None else min(q.maximum, q.minimum + 2)
                k = rng.randint(q.minimum, hi)
            for _ in range(k):
                v = t.value
                if isinstance(v, R.Group):
                    s += sample(v.union, depth + 1)
                elif isinstance(v, R.Char):
                    s += v.character
                elif isinstance(v, R.CharSet):
                    if v.complementing or not v.ranges:
                        s += chr(rng.choice(alpha))
                    else:
                        r = rng.choice(v.ranges)
                        a = ord(r.start.character)
                        b = a if r.end is None else ord(r.end.character)
                        if a > b:
                            a, b = b, a
                        x = rng.choice([a, b, a, b, min(a + 1, b), max(b - 1, a), rng.randint(a, b)])
                        # move along the surrogate grid: first/last low surrogate of a row
                        if x >= 0x10000 and rng.random() < 0.4:
                            row = (x - 0x10000) // 0x400
                            y = 0x10000 + row * 0x400 + rng.choice([0, 0x3FF])
                            if a <= y <= b:
                                x = y
                        s += chr(x)
                elif isinstance(v, R.Symbol) and v.kind is R.SymbolKind.DOT:
                    s += chr(rng.choice(alpha))
        return s

    for _ in range(n_random):
        s = sample(regex.union)
        if len(s) > 12:
            continue
        k = rng.random()
        if k < 0.35 and s:
            i = rng.randrange(len(s))
            s = s[:i] + chr(rng.choice(alpha)) + s[i + 1 :]
        elif k < 0.45:
            i = rng.randint(0, len(s))
            s = s[:i] + chr(rng.choice(alpha)) + s[i:]
        elif k < 0.5 and s:
            i = rng.randrange(len(s))
            s = s[:i] + s[i + 1 :]
        out.append(s)
    seen = set()
    res = []
    for s in out:
        if s not in seen and is_scalar(s):
            seen.add(s)
            res.append(s)
    return res


def judge(ctx: Ctx, p: str, strings: Optional[List[str]] = None, n_random: int = 40) -> Dict[str, Any]:
    """The statement of C17 decided for the pattern text ``p`` on the real code.

    Returns {"status", "fixed", "failures": [(sig, what, s)], "checked": n}.
    """
    res: Dict[str, Any] = {"status": "", "fixed": None, "failures": [], "checked": 0, "matched": 0, "wire": None}
    st, regex = parse_text(p)
    if regex is None:
        res["status"] = "not-accepted:" + st  # outside the quantifier of C17 (front end is C16's)
        return res
    try:
        cp = re.compile(p)
    except (re.error, RecursionError, OverflowError) as e:
        res["status"] = "re-rejects-original"  # faithfulness of the front end to `re` is C16's
        return res
    st, fixed, site = impl_fix_text(p)
    if fixed is None:
        res["wire"] = retree_wire.enc(regex)
        res["status"] = st
        res["failures"].append(
            (f"C17:{st}:{site}", f"fix_pattern_for_utf16 raised {st[6:]} in {site} on an accepted pattern", None)
        )
        return res
    res["fixed"] = fixed
    try:
        cf = re.compile(fixed)
    except re.error as e:
        res["status"] = "fixed-not-compilable"
        res["failures"].append(("C17:fixed-pattern-invalid", f"the rewritten pattern {fixed!r} is not a valid regex: {e}", None))
        return res
    res["status"] = "ok"
    res["wire"] = retree_wire.enc(regex)
    facts = tree_facts(regex)
    res["unclean"] = facts["dot_or_compl"] or facts["surrogates"]
    if strings is None:
        strings = strings_for(ctx, regex, facts, n_random)
    desugared: Any = None  # lazily: (compiled original-desugared, compiled fixed-desugared) or False
    for s in strings:
        if not is_scalar(s):
            continue
        a, b = fm(cp, s), fm(cf, units(s))
        res["checked"] += 1
        res["matched"] += 1 if a else 0
        if a == b:
            continue
        what = (
            f"re.fullmatch({p!r}, {s!r}) is {a} but re.fullmatch({fixed!r}, utf16 units of it) is {b}"
        )
        sig = "C17:language-differs"
        has_astral = any(ord(c) >= 0x10000 for c in s)
        if has_astral and (facts["dot_or_compl"] or facts["surrogates"]):
            # Is the difference explained by `.`/`[^…]`/surrogate code points being one unit wide?
            # It is iff it disappears once these are written as positive sets of scalar values.
            if desugared is None:
                try:
                    d = desugar(regex)
                    pd = render_text(d)
                    std, fd, _ = impl_fix_text(pd)
                    desugared = (re.compile(pd), re.compile(fd)) if fd is not None else False
                except (CannotDesugar, re.error):
                    desugared = "cannot"
            if desugared == "cannot":
                # a surrogate literal / a set of surrogates only: nothing scalar to compare with
                explained = facts["surrogates"]
            elif desugared is False:
                explained = False
            else:
                explained = fm(desugared[0], s) == a and fm(desugared[1], units(s)) == a
            if explained:
                sig = SIG_F1 if facts["dot_or_compl"] else SIG_F2
        res["failures"].append((sig, what, s))
    return res


# --------------------------------------------------------------------------- stages


def _surrogate_stream(ctx: Ctx) -> None:
    from aas_core_codegen.parse.retree._fix import _FixForUTF16Regex as F

    codes = [0, 0x61, 0xD800, 0xFFFF, 0x10000, 0x10001, 0x103FF, 0x10400, 0x1F600, 0x10FFFE, 0x10FFFF, 0x110000, 0x200000]
    codes += [astral(h, l) for h in HIS for l in LOS]
    codes += [ctx.rng.randint(0, 0x12FFFF) for _ in range(ctx.n(300, 5000))]
    outs = []
    for c in codes:
        try:
            h, l = F._convert_to_surrogates(code=c)
            outs.append(f"ok {h} {l}")
        except BaseException as e:  # noqa
            outs.append(crash_name(e))
    mouts = ctx.model([f"surrogates {c}" for c in codes])
    for c, a, b in zip(codes, outs, mouts):
        ctx.count(("surrogates", c), nontrivial=0x10000 <= c <= 0x10FFFF, stream="surrogates")
        ctx.traces_validated += 1
        if a != b:
            ctx.disagree("surrogates", {"code": c}, a, b)
        elif a.startswith("ok"):
            # the oracle's own reading: the pair is the UTF-16 encoding of the code point
            h, l = map(int, a.split()[1:])
            if units(chr(c)) != chr(h) + chr(l):
                ctx.fail({"code": c}, f"_convert_to_surrogates({c:#x}) = ({h:#x}, {l:#x}) is not its UTF-16 encoding", "C17:surrogates-wrong")
    # utf16 of the model against Python's codec (validates the Lean-side encoding used in the theorems)
    texts = ["", "a", "\U0001F600", "a\U00010000b\U0010FFFF", "\ud800", "\udfff\U00010000"]
    for _ in range(ctx.n(200, 3000)):
        texts.append("".join(chr(G(ctx.rng, False).code()) for _ in range(ctx.rng.randint(0, 6))))
    mouts = ctx.model([f"utf16 {enc_text(t)}" for t in texts])
    for t, m in zip(texts, mouts):
        ctx.count(("utf16", t), nontrivial=len(t) > 0, stream="utf16")
        ctx.traces_validated += 1
        if m != enc_text(units(t)):
            ctx.disagree("utf16", {"text": t}, enc_text(units(t)), m)


MALFORMED = ["", "x", "u,1", "u,1,c,1,t,q", "u,1,c,1,t,h,65,0,n,extra", "u,1,c,1,t,s,0,1,r,97,0,n",
             "u,1,c,1,t,y,3,n", "u,1,c,1,t,h,65,0,q,0,2,1", "u,0,", "u,1,c,1,t,h,1114112,0,n"]


def _malformed_stream(ctx: Ctx) -> None:
    """Both sides must reject malformed wire text (the driver never answers with a default)."""
    mouts = ctx.model([f"fix {w}" for w in MALFORMED])
    for w, m in zip(MALFORMED, mouts):
        got = impl_fix_tree(w)
        ctx.count(("malformed", w), nontrivial=False, stream="malformed")
        ctx.traces_validated += 1
        impl_rejects = got.startswith("unbuildable")
        # `min > max` and code points above U+10FFFF are rejected by the Python constructors only;
        # the Lean types have no such invariant (Types.lean), so the driver may answer for them.
        only_python = w in ("u,1,c,1,t,h,65,0,q,0,2,1", "u,1,c,1,t,h,1114112,0,n")
        if (m == "bad-op") != impl_rejects and not only_python:
            ctx.disagree("malformed", {"wire": w}, got, m)
        ctx.hit("malformed:" + ("rejected-by-both" if m == "bad-op" and impl_rejects else "python-only"))


def _run(ctx: Ctx, with_model: bool) -> None:
    batch = list(trees(ctx))
    n_strings = 40 if ctx.tier == "quick" else 60
    # ---- tree level
    impl_out = [impl_fix_tree(w) for w, _ in batch]
    if with_model:
        mout = ctx.model([f"fix {w}" for w, _ in batch])
        hyp = ctx.model([f"hyp {w}" for w, _ in batch])
    texts: List[Tuple[str, str, str]] = []  # (pattern, stream, wire of the generated tree)
    seen = set()
    for k, ((w, stream), got) in enumerate(zip(batch, impl_out)):
        # non-trivial: the rewriting changed the tree (or crashed on it)
        ctx.count(("tree", w), nontrivial=not (got.startswith("ok") and got[3:] == w), stream="tree/" + stream)
        if got.startswith("ok"):
            ctx.hit("tree:changed" if got[3:] != w else "tree:unchanged")
        else:
            ctx.hit("tree:" + got)
        if with_model:
            ctx.traces_validated += 1
            if got != mout[k] and not got.startswith("unbuildable"):
                ctx.disagree("fix-tree", {"wire": w}, got, mout[k])
            ndc, nsl, wf = hyp[k].split()
            if ndc == "1" and nsl == "1":
                ctx.hit("hyp:NoDotNoComplement+NoSurrogateLiterals")
            else:
                ctx.hit(f"hyp:excluded-region(ndc={ndc},nsl={nsl})")
            ctx.hit("hyp:FixWF" if wf == "1" else "hyp:not-FixWF")
            if wf == "1" and not got.startswith("ok"):
                # fix_never_crashes says the model cannot crash here; the real code did
                ctx.disagree("fix-tree-wf", {"wire": w}, got, "ok (FixWF tree)")
        if k % 401 == 0:
            ctx.sample({"wire": w, "fix": got})
        # ---- render to text for the pattern-level stream and the oracle
        try:
            p = render_text(retree_wire.dec(w))
        except BaseException:  # noqa
            continue
        if p not in seen:
            seen.add(p)
            texts.append((p, stream, w))
    # ---- text level
    lines: List[str] = []
    idx: List[int] = []
    results = []
    pending: List[Tuple[Any, str, str]] = []
    clear_witness = False
    for i, (p, stream, w) in enumerate(texts):
        res = judge(ctx, p, n_random=n_strings)
        results.append(res)
        ctx.count(("pattern", p), nontrivial=res["status"] == "ok" and res["matched"] > 0, stream="pattern/" + stream)
        ctx.hit("pattern:" + res["status"].split(":")[0] + (":" + res["status"].split(":")[1] if res["status"].startswith("not-accepted") else ""))
        ctx.hit("strings-checked", res["checked"])
        ctx.hit("strings-matched", res["matched"])
        for sig, what, s in res["failures"]:
            inp = {"pattern": p, "string": s, "p": enc_text(p), "s": None if s is None else enc_text(s)}
            ctx.hit("oracle:" + sig)
            if sig == "C17:language-differs" and res.get("unclean"):
                # an unexplained difference on a pattern that also has `.`/`[^…]`/surrogates: reported only
                # if no clearer witness (a pattern without them) turns up in this run
                pending.append((inp, what, sig))
                continue
            if sig not in (SIG_F1, SIG_F2):
                clear_witness = True
            ctx.fail(inp, what, sig)
        if i % 301 == 0:
            ctx.sample({"pattern": p, "fixed": res["fixed"], "status": res["status"], "strings": res["checked"]})
        if with_model and res.get("wire") is not None:
            lines.append("fix " + res["wire"])
            idx.append(i)
    if not clear_witness:
        for inp, what, sig in pending:
            ctx.fail(inp, what, sig)
    if with_model and lines:
        mouts = ctx.model(lines)
        for i, m in zip(idx, mouts):
            p = texts[i][0]
            res = results[i]
            ctx.traces_validated += 1
            if m.startswith("ok "):
                try:
                    want = render_text(retree_wire.dec(m[3:]))
                except BaseException as e:  # noqa
                    want = "unrenderable:" + type(e).__name__
            else:
                want = m
            got = res["fixed"] if res["fixed"] is not None else res["status"]
            if got != want:
                ctx.disagree("fix-pattern-text", {"pattern": p}, got, want)
            # consistency of machinery: inside the hypotheses of fix_preserves_partial the oracle must agree
    if with_model:
        _surrogate_stream(ctx)
        _malformed_stream(ctx)


def correspond(ctx: Ctx) -> None:
    ctx.extra_cov["rule"] = (
        "trees = corpus + enumerated (astral literals x quantifiers, one astral range for equal/adjacent/+2/+3/distant "
        "high surrogates x low-surrogate edges DC00/DC01/DFFE/DFFF, mixed/straddling/complemented/ill-ordered sets, "
        "nesting, crash order) + seeded random trees (3/4 inside the hypotheses of fix_preserves_partial); every "
        "tree is also rendered with the real renderer and, if the real parser accepts the text, sent through "
        "fix_pattern_for_utf16 and judged with Python re on ~40-100 scalar strings (alphabet: pattern characters, "
        "+-1 neighbours, same-row/column astral neighbours, fixed extras; strings sampled from the language and mutated); "
        "distinct by tree / pattern text; a pattern is non-trivial if at least one string matched"
    )
    ctx.assumptions.append(
        "Python re.fullmatch is the judge of the original and of the rewritten pattern (code points vs UTF-16 units "
        "encoded as one chr per unit); Sem.FullMatch = re.fullmatch on parser output is C16's assumption A, sampled there"
    )
    _run(ctx, True)


def oracle(ctx: Ctx) -> None:
    if not ctx.driver_ok or ctx.searching:
        _run(ctx, False)


def replay(ctx: Ctx, data: Dict[str, Any]) -> Any:
    inp = data["failure"]["input"] if "failure" in data else data
    res: Dict[str, Any] = {}
    if "wire" in inp:
        w = inp["wire"]
        res["impl"] = impl_fix_tree(w)
        if ctx.driver_ok:
            res["model"] = ctx.model([f"fix {w}"])[0]
        try:
            p = render_text(retree_wire.dec(w))
        except BaseException as e:  # noqa
            p = None
    else:
        p = dec_text(inp["p"]) if "p" in inp else inp["pattern"]
    if p is not None:
        s = dec_text(inp["s"]) if inp.get("s") is not None else inp.get("string")
        j = judge(ctx, p, strings=[s] if s is not None else None)
        res["pattern"] = p
        res["impl_text"] = j["fixed"] if j["fixed"] is not None else j["status"]
        res["oracle"] = [(sig, what) for sig, what, _ in j["failures"]]
        st, regex = parse_text(p)
        if regex is not None and ctx.driver_ok:
            m = ctx.model(["fix " + retree_wire.enc(regex)])[0]
            res["model_text"] = render_text(retree_wire.dec(m[3:])) if m.startswith("ok ") else m
    return res
