"""C16 — retree.parse / retree.render: Gen tables, correspondence with the Lean model, direct oracle.

Inputs are *parts lists*: ``[str | int]`` where an ``int`` stands for a formatted value
(``FormattedValue`` node number ``int``).  A plain pattern is ``[pattern]``.
"""
from __future__ import annotations

import ast
import itertools
import pathlib
import re
import warnings
from typing import Any, Dict, Iterator, List, Optional, Sequence, Tuple, Union

from harness import retree_wire
from harness.core import Ctx, corpus, crash_name, dec_text, enc_text
from harness.extract import ExtractError, HEADER, _class, _parse, lean_text

ID = "C16"
GEN = ["Retree"]

Parts = List[Union[str, int]]

# --------------------------------------------------------------------------- Gen


def _str_dict(cls: ast.ClassDef, name: str) -> Dict[str, str]:
    for node in cls.body:
        tgt = None
        if isinstance(node, ast.Assign) and len(node.targets) == 1 and isinstance(node.targets[0], ast.Name):
            tgt, val = node.targets[0].id, node.value
        elif isinstance(node, ast.AnnAssign) and isinstance(node.target, ast.Name) and node.value is not None:
            tgt, val = node.target.id, node.value
        if tgt != name:
            continue
        if not isinstance(val, ast.Dict):
            raise ExtractError(f"Renderer.{name} is not a dict literal")
        out: Dict[str, str] = {}
        for k, v in zip(val.keys, val.values):
            if not (isinstance(k, ast.Constant) and isinstance(k.value, str) and isinstance(v, ast.Constant) and isinstance(v.value, str)):
                raise ExtractError(f"Renderer.{name} has a non-literal entry")
            if len(k.value) != 1:
                raise ExtractError(f"Renderer.{name} has the key {k.value!r} which is not one character")
            out[k.value] = v.value  # a repeated key: the last one wins, as in Python
        return out
    raise ExtractError(f"Renderer.{name} not found")


def gen_Retree(repo: pathlib.Path) -> str:
    rel = "aas_core_codegen/parse/retree/_render.py"
    mod = _parse(repo, rel)
    cls = _class(mod, "Renderer")
    lit = _str_dict(cls, "_ESCAPING_IN_CHARACTER_LITERALS")
    rng = _str_dict(cls, "_ESCAPING_IN_RANGE")
    # the uses must still be: literals for a Char term, range table for the members of a set
    uses = [n.attr for n in ast.walk(cls) if isinstance(n, ast.Attribute) and n.attr.startswith("_ESCAPING_IN_")]
    if sorted(uses) != ["_ESCAPING_IN_CHARACTER_LITERALS", "_ESCAPING_IN_RANGE", "_ESCAPING_IN_RANGE"]:
        raise ExtractError(f"unexpected uses of the escape tables in Renderer: {uses}")

    def table(d: Dict[str, str]) -> str:
        return "[" + ", ".join(f"({ord(k)}, {lean_text(v)})" for k, v in d.items()) + "]"

    return (
        "import AasVerif.Model.Text\n"
        + HEADER.format(src=rel)
        + "namespace AasVerif.Gen.Retree\n"
        + "/-- `Renderer._ESCAPING_IN_CHARACTER_LITERALS`: (character, escaped text) -/\n"
        + f"def escLiteral : List (Nat × Text) := {table(lit)}\n"
        + "/-- `Renderer._ESCAPING_IN_RANGE` -/\n"
        + f"def escRange : List (Nat × Text) := {table(rng)}\n"
        + "end AasVerif.Gen.Retree\n"
    )


# --------------------------------------------------------------------------- implementation side

_FVS: List[Any] = []


def fv_node(i: int) -> Any:
    """The i-th formatted value (one object per number, so identity survives parse/render)."""
    from aas_core_codegen.parse import tree
    from aas_core_codegen.common import Identifier

    while len(_FVS) <= i:
        node = ast.parse(f"x{len(_FVS)}", mode="eval").body
        _FVS.append(tree.FormattedValue(value=tree.Name(identifier=Identifier(f"x{len(_FVS)}"), original_node=node), original_node=node))
    return _FVS[i]


def to_values(parts: Parts) -> List[Any]:
    return [p if isinstance(p, str) else fv_node(p) for p in parts]


def fv_ids() -> Dict[int, int]:
    return {id(n): i for i, n in enumerate(_FVS)}


def from_values(values: Sequence[Any]) -> Parts:
    ids = fv_ids()
    return [v if isinstance(v, str) else ids[id(v)] for v in values]


def offset_of(cursor: Any) -> int:
    """Offset of a cursor in the flattened values (characters + formatted values before it)."""
    off = 0
    for v in cursor.values[: cursor.major_cursor]:
        off += len(v) if isinstance(v, str) else 1
    if cursor.major_cursor < len(cursor.values) and isinstance(cursor.values[cursor.major_cursor], str):
        off += cursor._minor_cursor or 0
    return off


_LAST_ERROR: List[Any] = [None]
_SITE = [""]


def impl_parse(parts: Parts) -> Tuple[str, Any]:
    """('ok', regex) | ('err', offset) | ('crash', 'crash:Type'); remembers the raising function / the error."""
    import traceback

    from aas_core_codegen.parse import retree

    try:
        regex, error = retree.parse(to_values(parts))
        if error is not None:
            _LAST_ERROR[0] = error
            return "err", offset_of(error.cursor)
        return "ok", regex
    except BaseException as e:  # noqa
        names = [f.name for f in traceback.extract_tb(e.__traceback__) if "retree" in f.filename]
        _SITE[0] = names[-1] if names else "?"
        return "crash", crash_name(e)


def impl_render(regex: Any) -> Any:
    from aas_core_codegen.parse import retree

    try:
        return from_values(retree.render(regex))
    except BaseException as e:  # noqa
        return crash_name(e)


def enc_parts(parts: Parts) -> str:
    if not parts:
        return "[]"
    return ",".join(("s:" + enc_text(p)) if isinstance(p, str) else f"f{p}" for p in parts)


def dec_parts(w: str) -> Parts:
    if w == "[]":
        return []
    return [dec_text(p[2:]) if p.startswith("s:") else int(p[1:]) for p in w.split(",")]


def wf_parts(parts: Parts) -> bool:
    for i, p in enumerate(parts):
        if isinstance(p, str):
            if i + 1 < len(parts) and (isinstance(parts[i + 1], str) or p == ""):
                return False
    return True


# --------------------------------------------------------------------------- generators

SYMS16 = ["a", "^", "$", "*", "+", "?", "{", "}", "[", "]", "(", ")", "|", "-", "\\", ",", "1"]
# NOTE: the statement lists 16 symbols `a ^ $ * + ? { } [ ] ( ) | - \ , 1`; that enumeration has 17 entries.
MUT_TOKENS = ["^", "*", "+", "?", "{", "}", "[", "]", "(", ")", "|", "-", "\\", "$", ".", ","]
RAW_CLASSES = (
    list("abcxyz019")
    + list("^$*+?{}[]()|-\\.,#")
    + [" ", "\t", "\n", "\r", "\f", "\v", "\x00", "\x7f", "\xfe", "\xff", "Ā", "퟿", "\ud800", "\udbff", "\udc00", "\udfff", "￿"]
    + ["\U00010000", "\U00010001", "\U0001f600", "\U0010ffff", "²", "٣", "é"]
)


def gen_char(ctx: Ctx, in_range: bool, in_set: bool) -> List[str]:
    r = ctx.rng.random()
    if r < 0.25:
        code = ctx.rng.choice([0, 9, 10, 65, 97, 124, 254, 255, 256, 0xD800, 0xFFFF, 0x10000, 0x1F600, 0x10FFFF, ctx.rng.randrange(0x110000)])
        return [str(code), "1"]
    c = ctx.rng.choice(RAW_CLASSES) if ctx.rng.random() < 0.6 else ctx.rng.choice("abcde")
    if in_range and not in_set and c == "|":
        c = "a"
    return [str(ord(c)), "0"]


#: switched on by C16's own streams only: the other checks that borrow the generators (C13, C17, C18) expand the repetitions
#: (greenery, the VM translation) and would not survive a count of 2**32 - 2
BIG_COUNTS = [False]


def gen_quant(ctx: Ctx) -> List[str]:
    r = ctx.rng.random()
    ng = "1" if ctx.rng.random() < 0.3 else "0"
    if r < 0.5:
        mn, mx = ctx.rng.choice([(0, None), (1, None), (0, 1)])
    else:
        mn = ctx.rng.choice([0, 0, 1, 2, 3, 3, 10] if ctx.rng.random() < 0.9 else [17, 100, 1234])
        mx = ctx.rng.choice([None, mn, mn + 1, mn + 2, mn + 2, mn + 13 if mn > 3 else mn + 3])
        if BIG_COUNTS[0] and ctx.rng.random() < 0.03:
            # around the largest repetition count (2**32 - 2); larger ones are outside the image of the parser
            big = ctx.rng.choice([4294967293, 4294967294, 4294967294, 4294967295, 4294967296, 10**20])
            mn, mx = ctx.rng.choice([(big, big), (mn, big), (big, None), (big, big + 1)])
    return ["q", ng, str(mn), "x" if mx is None else str(mx)]


def gen_set(ctx: Ctx, in_range: bool) -> List[str]:
    compl = ctx.rng.random() < 0.3
    n = ctx.rng.choice([1, 1, 2, 2, 3, 4]) if in_range or ctx.rng.random() < 0.9 else 0
    ranges: List[List[str]] = []
    if in_range:
        # disjoint by construction: increasing code points (then possibly shuffled)
        pool = sorted(
            ctx.rng.sample(
                [9, 10, 45, 45, 48, 57, 65, 90, 91, 92, 93, 94, 94, 97, 98, 99, 122, 124, 255, 256, 0xD800, 0xDFFF, 0xFFFF]
                + ([] if compl else [0x10000, 0x10001, 0x1F600, 0x10FFFF]),
                min(2 * n, 12),
            )
        )
        pool = sorted(set(pool))
        k = 0
        while k < len(pool) and len(ranges) < n:
            enc = "1" if ctx.rng.random() < 0.2 else "0"
            if k + 1 < len(pool) and ctx.rng.random() < 0.5:
                ranges.append(["r", str(pool[k]), enc, "e", str(pool[k + 1]), "1" if ctx.rng.random() < 0.2 else "0"])
                k += 2
            else:
                ranges.append(["r", str(pool[k]), enc, "n"])
                k += 1
        if ctx.rng.random() < 0.5:
            ctx.rng.shuffle(ranges)
        if not ranges:
            ranges = [["r", "97", "0", "n"]]
    else:
        for _ in range(n):
            s = gen_char(ctx, False, True)
            if ctx.rng.random() < 0.4:
                ranges.append(["r", *s, "e", *gen_char(ctx, False, True)])
            else:
                ranges.append(["r", *s, "n"])
    return ["s", "1" if compl else "0", str(len(ranges))] + [t for r in ranges for t in r]


def gen_union(ctx: Ctx, depth: int, in_range: bool, fv: bool, top: bool = True) -> List[str]:
    n = ctx.rng.choice([1, 1, 1, 2, 3])
    out = ["u", str(n)]
    for i in range(n):
        m = ctx.rng.choice([0, 1, 1, 2, 3, 4, 6]) if not (top and n == 1) else ctx.rng.choice([1, 2, 3, 4, 6])
        out += ["c", str(m)]
        for _ in range(m):
            out += gen_term(ctx, depth, in_range, fv)
    return out


def gen_term(ctx: Ctx, depth: int, in_range: bool, fv: bool) -> List[str]:
    r = ctx.rng.random()
    anchor = False
    if r < 0.45:
        val = ["h", *gen_char(ctx, in_range, False)]
    elif r < 0.6:
        val = gen_set(ctx, in_range)
    elif r < 0.72 and depth > 0:
        val = ["g", *gen_union(ctx, depth - 1, in_range, fv, top=False)]
    elif r < 0.8 and fv:
        val = ["f", str(ctx.rng.randrange(3))]
    elif r < 0.9:
        k = ctx.rng.choice(["0", "1", "2"])
        anchor = k != "2"
        val = ["y", k]
    else:
        val = ["h", str(ord(ctx.rng.choice("ab"))), "0"]
    q = ["n"] if anchor or ctx.rng.random() < 0.6 else gen_quant(ctx)
    return ["t", *val, *q]


def build_tree(wire: str) -> Any:
    fv_node(2)
    return retree_wire.dec(wire, _FVS)


_WS_QUANT_RE = re.compile(r"\{(?=[^}]*[ \t])[ \t]*[0-9]*[ \t]*,?[ \t]*[0-9]*[ \t]*\}")
_TOKEN_RE = re.compile(r"\\x[0-9a-fA-F]{2}|\\u[0-9a-fA-F]{4}|\\U[0-9a-fA-F]{8}|\\.|.", re.S)


def mutate(ctx: Ctx, parts: Parts) -> Parts:
    """Token-level near miss: drop / duplicate / swap / insert / replace one token."""
    toks: List[Union[str, int]] = []
    for p in parts:
        if isinstance(p, str):
            toks.extend(_TOKEN_RE.findall(p))
        else:
            toks.append(p)
    for _ in range(ctx.rng.choice([1, 1, 1, 2])):
        op = ctx.rng.choice(["drop", "dup", "swap", "ins", "repl", "ins"])
        if not toks:
            op = "ins"
        i = ctx.rng.randrange(len(toks)) if toks else 0
        if op == "drop":
            del toks[i]
        elif op == "dup":
            toks.insert(i, toks[i])
        elif op == "swap" and i + 1 < len(toks):
            toks[i], toks[i + 1] = toks[i + 1], toks[i]
        elif op == "repl":
            toks[i] = ctx.rng.choice(MUT_TOKENS)
        else:
            toks.insert(ctx.rng.randrange(len(toks) + 1), ctx.rng.choice(MUT_TOKENS))
    return regroup(toks)


_BRACKET_FIRST_RE = re.compile(r"(?<!\\)((?:\\\\)*)\[(\^?)\\\]")


def bracket_first(parts: Parts) -> Optional[Parts]:
    """
    The renderer always writes a closing bracket in a set as ``\\]``; this rewrites ``[\\]`` / ``[^\\]`` to ``[]`` / ``[^]``
    (the bracket is the first member, which Python's re reads as a literal) — ``None`` if there is no such set.
    """
    out: Parts = []
    changed = False
    for p in parts:
        if isinstance(p, str):
            q = _BRACKET_FIRST_RE.sub(lambda m: m.group(1) + "[" + m.group(2) + "]", p)
            changed = changed or q != p
            out.append(q)
        else:
            out.append(p)
    return out if changed else None


def regroup(toks: Sequence[Union[str, int]]) -> Parts:
    out: Parts = []
    for t in toks:
        if isinstance(t, str) and out and isinstance(out[-1], str):
            out[-1] = out[-1] + t
        else:
            out.append(t)
    return [p for i, p in enumerate(out) if p != "" or i == len(out) - 1]


ENCODING_SEEDS = [
    "\\x41", "\\x4", "\\x", "\\xg1", "\\x4G", "\\xfF", "\\u0041", "\\u004", "\\u", "\\ud800", "\\uDFFF", "\\uffff", "\\uzzzz",
    "\\U0001f600", "\\U0001F600", "\\U00010000", "\\U0010ffff", "\\U00110000", "\\U0000ffff", "\\U0001f60", "\\U", "\\U0001f60g",
    "[\\x41-\\x5a]", "[\\u0041-\\uffff]", "[\\U00010000-\\U0010ffff]", "[^\\x00-\\xff]", "[^\\U00010000]", "[^\\U00010001]", "[^a-\\U0001f600]",
    "[\\x5a-\\x41]", "[\\x4]", "[\\u12]", "[\\U123]", "\\x00", "\\xff", "\\xfe", "\\u0100", "\\u00ff",
    "\ud800", "\udfff", "[\ud800-\udfff]", "\U0001f600", "[\U0001f600]", "[^\U0001f600]", "[a-\U0001f600]", "[^\U00010000]", "\U0001f600*", "[\ud800\U00010000]",
    "\\s", "\\S", "\\w", "\\W", "\\d", "\\D", "[\\s]", "[\\w]", "[\\d]", "[\\D]", "\\", "[\\", "\\q", "[\\q]", "\\|", "\\-", "[\\-]", "\\#", "\\{", "\\}",
    "a{²}", "a{٣}", "a{1,٣}", "a{ 1 }", "a{1 ,2}", "a{\t1}", "a{1, 2}", "a{01}", "a{007,010}", "a{,}", "a{}", "a{,3}", "a{3,}", "a{3,}?", "a{2,1}", "a{1,1}", "a{0,1}", "a{0}", "a{0,0}?",
    "a{4294967295}", "a{99999999999999999999}",
    # the repetition counts around the limit of Python's re (2**32 - 1 and more are errors of the pattern since fix 8f5e6f83)
    "a{4294967294}", "a{4294967294,}", "a{0,4294967294}", "a{4294967294,4294967294}?", "a{4294967296}", "a{0,4294967295}", "a{4294967295,}",
    "a{,4294967295}", "a{4294967295,1}", "a{4294967294,4294967295}", "a{ 4294967295 }", "(ab){04294967295}", "a{4294967293,4294967294}",
    # more digits than int() converts (ValueError before fix 82ce1998)
    "a{" + "1" * 4301 + "}", "a{1," + "9" * 4400 + "}", "a{" + "0" * 4400 + "7}",
    # a closing bracket in the first position is a member of the set (since fix 8785af5a), in every other position it closes the set
    "[]a]", "[^]a]", "[]-a]", "[]]", "[^]]", "[]-]", "[-]]", "[^-]]", "[]a", "[^]a", "[]-", "[]\\]", "[]a-]", "[]-]]", "[]]]", "[][]", "[]-\\x5d]",
    "[]-\\x5c]", "[]\\]]", "[\\]]]", "^[]a]$", "([]a]|[^]b])*", "[]a]{2}", "[]\\x5d]", "[a]]", "[]^]", "[]^-a]", "[^]^]", "[ ]]", "[]\U0001f600]", "[^]\U0001f600]",
] + [
    # every {m,n} / {m,} / {,n} / {m} bound combination over small and boundary values, greedy and non-greedy, on a char and on a group
    f"{t}{{{m},{n}}}{q}" for t in ("a", "(ab)") for m in ("", "0", "1", "2", "5") for n in ("", "0", "1", "2", "5") for q in ("", "?")
] + [f"a{{{m}}}{q}" for m in ("0", "1", "2", "10") for q in ("", "?")] + [
    # escapes of every ASCII punctuation character, outside and inside a set (parser and renderer tables must agree)
    f"\\{chr(c)}" for c in range(33, 127) if not chr(c).isalnum()
] + [f"[\\{chr(c)}]" for c in range(33, 127) if not chr(c).isalnum()] + [
    # the escape-width thresholds of the renderer
    "\\xfe", "\\xff", "\\u0100", "\\ufffe", "\\uffff", "\\U00010000", "[\\ufffe-\\uffff]", "[^\\uffff]", "\uffff", "\ufffe", "[\ufffe-\uffff]",
]

FV_SEEDS: List[Parts] = [
    [0], [0, "a"], ["a", 0], ["a", 0, "b"], [0, 1], ["(", 0, ")"], ["[", 0, "]"], ["[a", 0], ["[a-", 0, "]"], ["[^", 0], ["a{", 0, "}"], ["a{1", 0],
    ["a{1,", 0, "}"], [0, "*"], [0, "{2}"], [0, "+?"], ["\\", 0], ["\\x4", 0], ["\\x", 0, "41"], ["(?", 0], ["a|", 0], [0, "|", 1], ["^", 0, "$"],
    ["[", 0], ["[-", 0], ["a-", 0], ["(", 0], [0, ")"], [0, "", ], ["", ], [], ["^(", 0, "|", 1, ")*\\.", 2, "$"], ["-", 0], ["[a-c", 0, "x]"],
]

NON_WF_SEEDS: List[Parts] = [["a", "b"], ["", 0], ["", "a"], [0, "", 1], ["a", "", 0], [0, "a", "b"], ["a", 0, "", 1]]


def inputs(ctx: Ctx) -> Iterator[Tuple[Parts, str]]:
    for c in corpus(ID):
        yield list(c["parts"]), "corpus"
    # enumerated, seed independent: all strings of length <= 3 over the symbol set
    for k in range(0, 4):
        for tup in itertools.product(SYMS16, repeat=k):
            yield ["".join(tup)], "enumerated"
    for s in ENCODING_SEEDS:
        yield [s], "encodings"
    for p in FV_SEEDS:
        yield list(p), "formatted-values"
    for p in NON_WF_SEEDS:
        yield list(p), "not-well-formed-values"
    # type-directed random trees, rendered by the real renderer
    n = ctx.n(700, 6000)
    for i in range(n):
        fv = i % 4 == 0
        BIG_COUNTS[0] = True
        try:
            wire = ",".join(gen_union(ctx, 2, True, fv))
        finally:
            BIG_COUNTS[0] = False
        try:
            parts = impl_render(build_tree(wire))
        except BaseException:  # constructor preconditions (never expected for in_range trees)
            continue
        if isinstance(parts, str):
            continue
        yield parts, "rendered-trees-fv" if fv else "rendered-trees"
        raw = bracket_first(parts)
        if raw is not None:
            yield raw, "bracket-first"
            yield mutate(ctx, raw), "near-miss-bracket-first"
        for _ in range(2):
            yield mutate(ctx, parts), "near-miss-fv" if fv else "near-miss"
    for s in ENCODING_SEEDS:
        for _ in range(ctx.n(2, 10)):
            yield mutate(ctx, [s]), "near-miss-encodings"


def render_inputs(ctx: Ctx) -> Iterator[Tuple[str, str]]:
    """Trees (wire form) for the correspondence of render: arbitrary trees, not only parser outputs."""
    for c in corpus(ID):
        if "tree" in c:
            yield c["tree"], "corpus"
    fixed = [
        "u,0", "u,1,c,0", "u,2,c,0,c,0", "u,1,c,1,t,g,u,0,n", "u,1,c,1,t,s,0,0,n", "u,1,c,1,t,s,1,0,n",
        "u,1,c,1,t,s,0,1,r,94,0,e,97,0,n", "u,1,c,1,t,s,1,1,r,94,0,e,97,0,n", "u,1,c,1,t,s,0,2,r,97,0,n,r,94,0,n,n",
        "u,1,c,1,t,s,0,1,r,45,0,n,n", "u,1,c,1,t,s,0,2,r,45,0,n,r,45,0,n,n", "u,1,c,1,t,s,0,3,r,45,0,n,r,45,0,n,r,45,0,n,n",
        "u,1,c,1,t,s,0,1,r,45,0,e,97,0,n", "u,1,c,1,t,s,0,2,r,97,0,n,r,45,1,n,n", "u,1,c,1,t,s,0,1,r,94,1,n,n",
        "u,1,c,1,t,h,124,0,n", "u,1,c,1,t,h,123,0,n", "u,1,c,1,t,h,254,1,n", "u,1,c,1,t,h,255,1,n", "u,1,c,1,t,h,256,1,n",
        "u,1,c,1,t,h,65535,1,n", "u,1,c,1,t,h,65536,1,n", "u,1,c,1,t,h,1114111,1,n", "u,1,c,1,t,h,55296,1,n", "u,1,c,1,t,h,55296,0,n",
        "u,1,c,1,t,h,97,0,q,0,0,0", "u,1,c,1,t,h,97,0,q,1,0,1", "u,1,c,1,t,h,97,0,q,0,1,1", "u,1,c,1,t,h,97,0,q,0,0,2",
        "u,1,c,1,t,h,97,0,q,0,2,x", "u,1,c,1,t,h,97,0,q,1,1,x", "u,1,c,1,t,h,97,0,q,0,0,x", "u,1,c,1,t,h,97,0,q,0,10,100",
        "u,1,c,3,t,f,0,n,t,f,1,q,0,0,x,t,h,97,0,n", "u,1,c,3,t,h,97,0,n,t,f,1,n,t,h,98,0,n",
    ]
    for w in fixed:
        yield w, "enumerated"
    for k in RAW_CLASSES:
        yield f"u,1,c,1,t,h,{ord(k)},0,n", "enumerated"
        yield f"u,1,c,1,t,s,0,2,r,97,0,n,r,{ord(k)},0,n,n", "enumerated"
        yield f"u,1,c,1,t,s,0,2,r,{ord(k)},0,n,r,98,0,e,{ord(k)},0,n", "enumerated"
    for i in range(ctx.n(1000, 8000)):
        yield ",".join(gen_union(ctx, 2, i % 2 == 0, i % 3 == 0)), "random-trees"


# --------------------------------------------------------------------------- the direct oracle


def sample_match(ctx: Ctx, node: Any, budget: List[int]) -> str:
    """A string the tree is likely to match (positive samples for the language comparison)."""
    from aas_core_codegen.parse import retree
    from aas_core_codegen.parse.tree import FormattedValue

    rng = ctx.rng
    if isinstance(node, retree.Regex):
        return sample_match(ctx, node.union, budget)
    if isinstance(node, retree.UnionExpr):
        if not node.uniates:
            return ""
        return sample_match(ctx, rng.choice(node.uniates), budget)
    if isinstance(node, retree.Concatenation):
        return "".join(sample_match(ctx, t, budget) for t in node.concatenants)
    if isinstance(node, retree.Term):
        q = node.quantifier
        if q is None:
            k = 1
        else:
            hi = q.minimum + 2 if q.maximum is None else min(q.maximum, q.minimum + 2)
            k = rng.randint(q.minimum, hi)
        out = []
        for _ in range(k):
            if budget[0] <= 0:
                break
            budget[0] -= 1
            out.append(sample_match(ctx, node.value, budget))
        return "".join(out)
    if isinstance(node, retree.Group):
        return sample_match(ctx, node.union, budget)
    if isinstance(node, retree.Char):
        return node.character
    if isinstance(node, retree.Symbol):
        return "" if node.kind in (retree.SymbolKind.START, retree.SymbolKind.END) else rng.choice(["x", "\U0001f600", " "])
    if isinstance(node, retree.CharSet):
        if not node.ranges:
            return "a"
        r = rng.choice(node.ranges)
        lo = ord(r.start.character)
        hi = lo if r.end is None else ord(r.end.character)
        if node.complementing:
            return chr(rng.choice([max(lo - 1, 0), min(hi + 1, 0x10FFFF), 0x62]))
        return chr(rng.choice([lo, hi, (lo + hi) // 2]))
    if isinstance(node, FormattedValue):
        return ""
    return ""


def match_strings(ctx: Ctx, pattern: str, tree: Any) -> List[str]:
    chars = sorted(set(pattern))[:12]
    alpha = set(chars)
    for c in chars:
        o = ord(c)
        if o > 0:
            alpha.add(chr(o - 1))
        if o < 0x10FFFF:
            alpha.add(chr(o + 1))
    alpha |= {"\n", "퟿", "\ud800", "\udfff", "", "\U0001f600", "a"}
    alpha_l = sorted(alpha)
    out = ["", "\n", "a"]
    out += chars
    for _ in range(14):
        s = sample_match(ctx, tree, [40])
        out.append(s)
        if s and ctx.rng.random() < 0.7:
            i = ctx.rng.randrange(len(s))
            out.append(s[:i] + s[i + 1 :])
            out.append(s[:i] + ctx.rng.choice(alpha_l) + s[i:])
    while len(out) < 40:
        out.append("".join(ctx.rng.choice(alpha_l) for _ in range(ctx.rng.randint(1, 5))))
    return out[:48]


class _Timeout(Exception):
    pass


def _with_alarm(seconds: float, fn: Any) -> Any:
    """Run fn() but give up (raise _Timeout) after `seconds`: random patterns may backtrack exponentially."""
    import signal

    def handler(signum: int, frame: Any) -> None:
        raise _Timeout()

    old = signal.signal(signal.SIGALRM, handler)
    signal.setitimer(signal.ITIMER_REAL, seconds)
    try:
        return fn()
    finally:
        signal.setitimer(signal.ITIMER_REAL, 0)
        signal.signal(signal.SIGALRM, old)


def _compile(p: str) -> Any:
    try:
        with warnings.catch_warnings():
            warnings.simplefilter("ignore")
            return re.compile(p)
    except (re.error, OverflowError, RecursionError) as e:
        return e
    except ValueError as e:
        # CPython's guard on int(<more than 4300 digits>) inside re's own parser is no verdict about the pattern
        # (``a{000…07}``): ask again without the guard.
        import sys

        if "integer string conversion" not in str(e):
            raise
        limit = sys.get_int_max_str_digits()
        sys.set_int_max_str_digits(0)
        try:
            with warnings.catch_warnings():
                warnings.simplefilter("ignore")
                return re.compile(p)
        except (re.error, OverflowError, RecursionError) as e2:
            return e2
        finally:
            sys.set_int_max_str_digits(limit)


def judge(ctx: Ctx, parts: Parts) -> Tuple[Tuple[str, Any], List[Tuple[str, str]]]:
    """The statement of C16 decided on one input with the real implementation. Returns (parse outcome, [(sig, what)])."""
    from aas_core_codegen.parse import retree

    bad: List[Tuple[str, str]] = []
    kind, val = impl_parse(parts)
    wf = wf_parts(parts)
    if kind == "crash":
        if wf:
            site = _SITE[0]
            bad.append((f"C16:parse-raises:{val.split(':')[1]}:{site}", f"retree.parse raised {val} ({site})"))
        return (kind, val), bad
    if kind == "err":
        total = sum(len(p) if isinstance(p, str) else 1 for p in parts)
        if not (0 <= val <= total):
            bad.append(("C16:error-position", f"error cursor at offset {val} outside 0..{total}"))
        else:
            try:
                if len(parts) > 0 and not any(isinstance(p, str) and re.search("[\n\f\v\r]", p) for p in parts):
                    retree.render_pointer(_LAST_ERROR[0].cursor)
            except BaseException as e:  # noqa
                bad.append(("C16:error-pointer:" + type(e).__name__, f"render_pointer on the returned error raised {crash_name(e)}"))
        return (kind, val), bad
    tree = val
    rendered = impl_render(tree)
    if isinstance(rendered, str):
        bad.append(("C16:render-raises:" + rendered, f"retree.render raised {rendered}"))
        return (kind, val), bad
    # re-parse
    kind2, val2 = impl_parse(rendered)
    if kind2 != "ok":
        bad.append(("C16:reparse-fails:" + _shape(tree), f"parse(render(tree)) is {kind2} {val2 if kind2 != 'ok' else ''}; rendering {rendered!r}"))
    else:
        same = retree.dump(tree) == retree.dump(val2) and retree_wire.enc(tree, fv_ids()) == retree_wire.enc(val2, fv_ids())
        if not same:
            bad.append(("C16:reparse-differs:" + _shape(tree), f"parse(render(tree)) is a different tree; rendering {rendered!r}"))
    if all(isinstance(p, str) for p in parts):
        p = "".join(parts)  # type: ignore
        r = "".join(rendered)  # type: ignore
        cr = _compile(r)
        cp = _compile(p)
        if isinstance(cr, Exception):
            sig = "C16:render-invalid:" + (type(cr).__name__ if not isinstance(cr, re.error) else str(cr.msg).split(" at ")[0])
            bad.append((sig, f"rendering {r!r} is not a valid Python regular expression: {cr}"))
        elif isinstance(cp, Exception):
            bad.append(("C16:accepts-invalid:" + str(getattr(cp, "msg", type(cp).__name__)).split(" at ")[0], f"parse accepts {p!r} which re rejects ({cp}); rendering {r!r}"))
        else:
            for s in match_strings(ctx, p, tree):
                try:
                    a, b = _with_alarm(1.0, lambda: (cp.fullmatch(s) is not None, cr.fullmatch(s) is not None))
                except (RecursionError, _Timeout):
                    ctx.hit("fullmatch=gave-up")
                    break
                ctx.hit("fullmatch=" + ("yes" if a else "no"))
                if a != b:
                    shape = "quantifier-whitespace" if _WS_QUANT_RE.search(p) else _shape(tree)
                    bad.append(("C16:language:" + shape, f"re.fullmatch({p!r}, {s!r}) is {a} but with the rendering {r!r} it is {b}"))
                    break
    return (kind, val), bad


def _shape(tree: Any) -> str:
    """Coarse shape of a tree for finding signatures: the kinds of values it contains."""
    w = retree_wire.enc(tree, {})
    kinds = sorted(set(t for t in w.split(",") if t in ("g", "h", "s", "f", "y", "q")))
    return "".join(kinds)


# --------------------------------------------------------------------------- stages


def _canon_impl(kind: str, val: Any) -> str:
    if kind == "ok":
        return "ok " + retree_wire.enc(val, fv_ids())
    if kind == "err":
        return f"err {val}"
    return "crash"


def _canon_model(ans: str) -> str:
    f = ans.split(" ")
    if f[0] == "ok":
        return ans
    if f[0] == "err":
        return f"err {f[1]}"
    if f[0] == "crash":
        return "crash"
    return ans


def _run(ctx: Ctx, with_model: bool) -> None:
    batch = list(inputs(ctx))
    # implementation + oracle
    results = []
    for parts, stream in batch:
        (kind, val), bad = judge(ctx, parts)
        results.append((kind, val))
        ctx.count(repr(parts), nontrivial=(sum(len(p) if isinstance(p, str) else 1 for p in parts) > 1), stream=stream)
        ctx.hit("parse=" + kind)
        for sig, what in bad:
            ctx.fail({"parts": parts, "wire": enc_parts(parts)}, what, sig)
    if with_model:
        answers = ctx.model([f"parse {enc_parts(p)}" for p, _ in batch])
        in_range_lines = []
        for k, ((parts, stream), (kind, val), ans) in enumerate(zip(batch, results, answers)):
            got = _canon_impl(kind, val)
            want = _canon_model(ans)
            if ans.startswith("err "):
                ctx.hit("err=" + ans.split(" ")[2])
            if ans.startswith("crash "):
                ctx.hit("model-crash=" + ans.split(" ")[1])
            if got != want:
                ctx.disagree("parse/" + stream, {"parts": parts}, got if kind != "crash" else val, ans)
            ctx.traces_validated += 1
            if k % 499 == 0:
                ctx.sample({"parts": parts, "impl": got[:200], "model": ans[:200]})
            if kind == "ok":
                in_range_lines.append("inrange " + retree_wire.enc(val, fv_ids()))
        # every tree the implementation returns must be in the image the theorems talk about
        for ln, a in zip(in_range_lines, ctx.model(in_range_lines)):
            ctx.hit("parser-output-inRange=" + a)
            if a != "1":
                ctx.disagree("inrange", {"tree": ln.split(" ")[1]}, "parser output", "not InRange")
        # render
        rb = list(render_inputs(ctx))
        ranswers = ctx.model([f"render {w}" for w, _ in rb])
        flags = ctx.model([f"inrange {w}" for w, _ in rb])
        for (w, stream), ans, fl in zip(rb, ranswers, flags):
            ctx.count(("render", w), nontrivial=True, stream="render/" + stream)
            ctx.hit("render-input-inRange=" + fl)
            try:
                tree = build_tree(w)
            except BaseException as e:  # noqa: a constructor precondition — not a renderer input
                ctx.hit("render-input-rejected-by-constructor")
                continue
            got = impl_render(tree)
            got_w = got if isinstance(got, str) else enc_parts(got)
            if got_w != ans:
                ctx.disagree("render/" + stream, {"tree": w}, got, ans if ans == "bad-op" else dec_parts(ans))
                # let the oracle decide on the parse of this rendering
                if not isinstance(got, str):
                    for sig, what in judge(ctx, got)[1]:
                        ctx.fail({"parts": got, "wire": enc_parts(got)}, what, sig)
            ctx.traces_validated += 1
            if fl == "1" and not isinstance(got, str):
                # direct oracle on trees: the rendering of an in-range tree parses back to it
                kind2, val2 = impl_parse(got)
                if kind2 != "ok" or retree_wire.enc(val2, fv_ids()) != w:
                    ctx.fail({"tree": w, "parts": got}, f"parse(render(tree)) is {kind2}, not the tree; rendering {got!r}", "C16:tree-roundtrip:" + _shape(tree))


def correspond(ctx: Ctx) -> None:
    ctx.extra_cov["rule"] = (
        "inputs are parts lists (strings and formatted values); corpus + all 5 220 strings of length <= 3 over "
        "17 symbols (a ^ $ * + ? { } [ ] ( ) | - \\ , 1) + fixed encoding / formatted-value seeds + seeded random "
        "type-directed trees rendered to text + two token-level mutations of each; non-trivial = more than one token; "
        "distinct by value. render: fixed trees + every raw character class in literal/set position + random trees "
        "(half of them outside the parser's image)."
    )
    ctx.assumptions.append(
        "A: re.fullmatch(p, s) <=> FullMatch (parse p) s for CPython's re — language preservation is validated by "
        "sampling ~40 strings per accepted pattern (re on p versus re on render(parse p)), not proved"
    )
    _run(ctx, True)


def oracle(ctx: Ctx) -> None:
    if not ctx.driver_ok or ctx.searching:
        _run(ctx, False)


def replay(ctx: Ctx, data: Dict[str, Any]) -> Any:
    inp = data["failure"]["input"] if "failure" in data else data
    res: Dict[str, Any] = {}
    if "parts" in inp:
        parts = dec_parts(inp["wire"]) if "wire" in inp else list(inp["parts"])
        (kind, val), bad = judge(ctx, parts)
        res["impl"] = _canon_impl(kind, val) if kind != "crash" else val
        res["oracle"] = bad
        if kind == "ok":
            res["rendering"] = impl_render(val)
        if ctx.driver_ok:
            res["model"] = ctx.model([f"parse {enc_parts(parts)}"])[0]
    if "tree" in inp and "parts" not in inp:
        tree = build_tree(inp["tree"])
        got = impl_render(tree)
        res["impl"] = got
        if ctx.driver_ok:
            res["model"] = ctx.model([f"render {inp['tree']}"])[0]
    return res
