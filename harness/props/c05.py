"""C05 — the intermediate model resolves inheritance faithfully.

Abstract hierarchy (the shared truth between the source renderer and the Lean wire form):

    H = [ {name, parents, abstract, props, invs, methods, args, ctor, wmt[, ser]}, ... ]   (declaration order)

``wmt`` is the declared ``with_model_type`` (None | True | False); the optional ``ser`` selects HOW the decorator is
written: absent key/None = ``@serialization(with_model_type=<wmt>)`` resp. no decorator when ``wmt`` is None,
``"bare"`` = ``@serialization()`` (decorator present, setting left open; only with ``wmt`` None), ``"pos"`` =
``@serialization(<wmt>)`` (positional).  All spellings of one setting have the same wire form: the model (and the
statement of C05) only knows the declared value.

* ``render(H)``      -> meta-model source text fed to the REAL front end (parse + intermediate.translate)
* ``wire(H)``        -> one request line for the Lean driver (``Hier.translate``)
* ``impl(H)``        -> canonical outcome of the real code  (``cycle X`` | ``err <stage>`` | ``crash:<T>`` | ``ok …``)
* ``judge(H, dump)`` -> the statement of C05 decided directly on the dump of an accepted model by an
                         independent fix-point closure over the SOURCE hierarchy (no Lean involved).
"""
from __future__ import annotations

import itertools
import json
from typing import Any, Dict, Iterator, List, Optional, Sequence, Set, Tuple

from harness.core import Ctx, corpus, crash_name, enc_list, enc_text

ID = "C05"
GEN: List[str] = []

Hier = List[Dict[str, Any]]

# --------------------------------------------------------------------------- rendering


def prop_type(name: str) -> str:
    return "int" if sum(map(ord, name)) % 2 == 0 else "str"


def ctor_args(h: Hier) -> Dict[str, List[str]]:
    """Argument names of every rendered ``__init__``: the super-calls' arguments, then the assigned ones."""
    by = {c["name"]: c for c in h}
    memo: Dict[str, List[str]] = {}

    def go(n: str, stack: Tuple[str, ...]) -> List[str]:
        if n in memo:
            return memo[n]
        out: List[str] = []
        if n in by and n not in stack:
            for kind, x in by[n]["ctor"]:
                for a in (go(x, stack + (n,)) if kind == "S" else [x]):
                    if a not in out:
                        out.append(a)
        if not stack:
            memo[n] = out
        return out

    return {c["name"]: go(c["name"], ()) for c in h}


def render(h: Hier) -> str:
    args = {c["name"]: c["args"] for c in h}
    out: List[str] = []
    for c in h:
        if c["abstract"]:
            out.append("@abstract")
        if c["wmt"] is not None:
            out.append(f"@serialization({c['wmt']})" if c.get("ser") == "pos" else f"@serialization(with_model_type={c['wmt']})")
        elif c.get("ser") == "bare":
            out.append("@serialization()")
        for d in reversed(c["invs"]):  # decorators apply bottom-up
            out.append(f'@invariant(lambda self: True, "{d}")')
        bases = ", ".join(list(c["parents"]) + ["DBC"])
        out.append(f"class {c['name']}({bases}):")
        body: List[str] = []
        for p in c["props"]:
            body.append(f"    {p}: {prop_type(p)}")
        for m in c["methods"]:
            body.append("")
            body.append("    @implementation_specific")
            body.append(f"    def {m}(self) -> int:")
            body.append("        pass")
        if c["ctor"] or c["args"]:
            sig = "".join(f", {a}: {prop_type(a)}" for a in args[c["name"]])
            body.append("")
            body.append(f"    def __init__(self{sig}) -> None:")
            for kind, x in c["ctor"]:
                if kind == "S":
                    call = "".join(f", {a}" for a in args.get(x, []))
                    body.append(f"        {x}.__init__(self{call})")
                else:
                    body.append(f"        self.{x} = {x}")
            if not c["ctor"]:
                body.append("        pass")
        if not body:
            body.append("    pass")
        out.extend(body)
        out.append("")
        out.append("")
    out.append('__version__ = "dummy"')
    out.append('__xml_namespace__ = "https://dummy.com"')
    return "\n".join(out) + "\n"


def wire(h: Hier) -> str:
    if not h:
        return "tr -"
    cls = []
    for c in h:
        ctor = enc_list([("S" if k == "S" else "A") + x for k, x in c["ctor"]])
        cls.append(
            "|".join(
                [
                    enc_text(c["name"]),
                    enc_list(c["parents"]),
                    "a" if c["abstract"] else "c",
                    enc_list(c["props"]),
                    enc_list(c["invs"]),
                    enc_list(c["methods"]),
                    enc_list(c["args"]),
                    ctor,
                    {None: "n", True: "t", False: "f"}[c["wmt"]],
                ]
            )
        )
    return "tr " + ";".join(cls)


# --------------------------------------------------------------------------- the real front end


def run_real(h: Hier) -> Tuple[str, Any]:
    """Returns (kind, payload): ('ok', intermediate.SymbolTable) | ('cycle', name) | ('err', stage) | ('crash', T)."""
    from aas_core_codegen import parse, intermediate
    from aas_core_codegen.intermediate import _hierarchy, construction

    try:
        atok, exc = parse.source_to_atok(source=render(h))
        if exc is not None:
            return "err", "syntax"
        assert atok is not None
        if len(parse.check_expected_imports(atok=atok)) > 0:
            return "err", "imports"
        pst, err = parse.atok_to_symbol_table(atok=atok)
        if err is not None:
            return "err", "parse"
        assert pst is not None
        st, err = intermediate.translate(parsed_symbol_table=pst, atok=atok)
        if err is None:
            return "ok", st
        # which stage refused? (decided structurally, not from the wording of the messages)
        _, bad = _hierarchy._topologically_sort(pst)
        if bad is not None:
            return "cycle", str(bad.name)
        _, errs = _hierarchy.map_symbol_table_to_ontology(pst)
        if errs is not None:
            return "err", "ontology"
        _, cerr = construction.understand_all(parsed_symbol_table=pst, atok=atok)
        if cerr is not None:
            return "err", "construction"
        return "err", "translate"
    except BaseException as e:  # noqa
        return "crash", crash_name(e)


def dump_real(st: Any) -> Dict[str, Any]:
    from aas_core_codegen import intermediate
    from aas_core_codegen.intermediate import construction

    d: Dict[str, Any] = {"topo": [str(t.name) for t in st.our_types_topologically_sorted], "classes": {}, "order": []}
    for c in st.classes:
        d["order"].append(str(c.name))
        d["classes"][str(c.name)] = {
            "concrete": isinstance(c, intermediate.ConcreteClass),
            "anc": [str(a.name) for a in c.ancestors],
            "desc": [str(a.name) for a in c.descendants],
            "cdesc": [str(a.name) for a in c.concrete_descendants],
            "props": [f"{p.specified_for.name}/{p.name}" for p in c.properties],
            "invs": [f"{i.specified_for.name}/{i.description}" for i in c.invariants],
            "methods": [f"{m.specified_for.name}/{m.name}" for m in c.methods],
            "inl": [
                ("A" + str(s.name)) if isinstance(s, construction.AssignArgument) else ("S" + str(getattr(s, "super_name", "?")))
                for s in c.constructor.inlined_statements
            ],
            "iface": c.interface is not None,
            "wmt": bool(c.serialization.with_model_type) if c.serialization.with_model_type is not None else None,
        }
    return d


def canon_dump(d: Dict[str, Any]) -> str:
    parts = [enc_list(d["topo"])]
    for n in d["order"]:
        c = d["classes"][n]
        parts.append(
            "|".join(
                [
                    enc_text(n),
                    enc_list(c["anc"]),
                    enc_list(c["desc"]),
                    enc_list(c["cdesc"]),
                    enc_list(c["props"]),
                    enc_list(c["invs"]),
                    enc_list(c["methods"]),
                    enc_list(c["inl"]),
                    "i" if c["iface"] else "o",
                    {None: "n", True: "t", False: "f"}[c["wmt"]],
                ]
            )
        )
    return "ok " + ";".join(parts)


def impl3(h: Hier) -> Tuple[str, Optional[Dict[str, Any]], Any]:
    """(canonical outcome, dump of an accepted model, the symbol table itself)"""
    kind, payload = run_real(h)
    if kind == "ok":
        try:
            d = dump_real(payload)
        except BaseException as e:  # noqa
            return "crash:dump:" + type(e).__name__, None, None
        return canon_dump(d), d, payload
    if kind == "cycle":
        return "cycle " + enc_text(payload), None, None
    if kind == "err":
        return "err " + payload, None, None
    return payload, None, None


def impl(h: Hier) -> Tuple[str, Optional[Dict[str, Any]]]:
    got, d, _ = impl3(h)
    return got, d


# --------------------------------------------------------------------------- id-set backed queries + pickle round trip
#
# ``Class`` keeps, beside every list (inheritances, ancestors, descendants, concrete descendants, properties, methods,
# invariants), a derived ``*_id_set`` / ``*_by_name`` that the rest of the generator queries (``is_subclass_of``,
# ``ancestor_id_set`` …).  They are dropped by ``__getstate__`` and recomputed by ``__setstate__``, so a pickled and
# re-loaded symbol table (that is what ``run.load_model`` caches) answers them from DIFFERENT code than a fresh one.
# ``dump_ext`` reads every such query through the public API and names the ids; it is compared fresh vs un-pickled
# and judged against the closure of the SOURCE hierarchy (``judge_ext``) on both tables.


def dump_ext(st: Any) -> Dict[str, Any]:
    from aas_core_codegen import intermediate

    classes = list(st.classes)
    name_of = {id(c): str(c.name) for c in classes}

    def ids(s: Any) -> List[str]:
        known = sorted(name_of[i] for i in s if i in name_of)
        foreign = sum(1 for i in s if i not in name_of)
        return known + ([f"?{foreign} foreign id(s)"] if foreign else [])

    def strangers(xs: Sequence[Any]) -> List[str]:
        """names in a list of classes whose object is not THE class of that name in the table"""
        return [str(x.name) for x in xs if st.find_our_type(x.name) is not x]

    def by_name(mapping: Any, items: Sequence[Any]) -> Dict[str, Any]:
        return {
            "keys": [f"{k}={v.specified_for.name}/{v.name}" for k, v in mapping.items()],
            "same": len(mapping) == len(items) and all(mapping.get(x.name, None) is x for x in items),
        }

    out: Dict[str, Any] = {
        "our_types": [str(t.name) for t in st.our_types],
        "concrete_classes": [str(t.name) for t in st.concrete_classes],
        "topo_strangers": strangers(list(st.our_types_topologically_sorted)),
        "classes": {},
    }
    for c in classes:
        e: Dict[str, Any] = {
            "inh": [str(x.name) for x in c.inheritances],
            "inh_ids": ids(c.inheritance_id_set),
            "anc_ids": ids(c.ancestor_id_set),
            "desc_ids": ids(c.descendant_id_set),
            "cdesc_ids": ids(c.concrete_descendant_id_set),
            "sub": [str(t.name) for t in classes if c.is_subclass_of(t)],
            "strangers": strangers(list(c.inheritances) + list(c.ancestors) + list(c.descendants) + list(c.concrete_descendants))
            + strangers([x.specified_for for x in list(c.properties) + list(c.methods) + list(c.invariants)]),
            "pbn": by_name(c.properties_by_name, c.properties),
            "mbn": by_name(c.methods_by_name, c.methods),
            "pid": c.property_id_set == frozenset(id(x) for x in c.properties),
            "mid": c.method_id_set == frozenset(id(x) for x in c.methods),
            "iid": c.invariant_id_set == frozenset(id(x) for x in c.invariants),
            "iface": None,
        }
        i = c.interface
        if i is not None:
            e["iface"] = {
                "base": i.base is c,
                "inh": [str(x.name) for x in i.inheritances],
                "inh_same": all(x is getattr(st.find_our_type(x.name), "interface", None) for x in i.inheritances),
                "impl": [str(x.name) for x in i.implementers],
                "impl_strangers": strangers(list(i.implementers)),
                "props": [str(x.name) for x in i.properties],
                "props_same": all(c.properties_by_name.get(x.name, None) is x for x in i.properties),
                "pbn": [str(k) for k in i.properties_by_name],
                "pid": i.property_id_set == frozenset(id(x) for x in i.properties),
            }
        out["classes"][str(c.name)] = e
    _ = intermediate
    return out


def judge_ext(h: Hier, d: Dict[str, Any], x: Dict[str, Any]) -> List[Tuple[str, str]]:
    """The id-set / by-name backed queries decided against the closure of the source hierarchy."""
    bad: List[Tuple[str, str]] = []
    by = {c["name"]: c for c in h}
    names = [c["name"] for c in h]
    anc = closure(h)
    if x["our_types"] != names or x["concrete_classes"] != [n for n in names if not by[n]["abstract"]]:
        bad.append(("C05:table-lists", f"our_types {x['our_types']} / concrete_classes {x['concrete_classes']} differ from the declared classes {names}"))
        return bad
    if x["topo_strangers"]:
        bad.append(("C05:identity", f"our_types_topologically_sorted holds objects that are not the classes of the table: {x['topo_strangers']}"))
    for c in h:
        n = c["name"]
        e = x["classes"][n]
        inv = sorted(m for m in names if n in anc[m])
        if e["inh"] != c["parents"]:
            bad.append(("C05:inheritances", f"inheritances of {n} are {e['inh']}, declared {c['parents']}"))
        if e["inh_ids"] != sorted(set(c["parents"])):
            bad.append(("C05:idset-inheritances", f"inheritance_id_set of {n} names {e['inh_ids']}, declared {sorted(set(c['parents']))}"))
        if e["anc_ids"] != sorted(anc[n]):
            bad.append(("C05:idset-ancestors", f"ancestor_id_set of {n} names {e['anc_ids']}, the closure is {sorted(anc[n])}"))
        if e["desc_ids"] != inv:
            bad.append(("C05:idset-descendants", f"descendant_id_set of {n} names {e['desc_ids']}, the inverse relation gives {inv}"))
        want_cd = [m for m in inv if not by[m]["abstract"]]
        if e["cdesc_ids"] != want_cd:
            bad.append(("C05:idset-concrete-descendants", f"concrete_descendant_id_set of {n} names {e['cdesc_ids']}, expected {want_cd}"))
        want_sub = [m for m in names if m == n or m in anc[n]]
        if e["sub"] != want_sub:
            bad.append(("C05:is-subclass-of", f"{n}.is_subclass_of holds for {e['sub']}, the closure (with {n} itself) is {want_sub}"))
        if e["strangers"]:
            bad.append(("C05:identity", f"{n} refers to objects that are not the classes of the table: {e['strangers']}"))
        r = d["classes"][n]
        for key, lst, what in (("pbn", r["props"], "properties_by_name"), ("mbn", r["methods"], "methods_by_name")):
            want = [f"{y.split('/', 1)[1]}={y}" for y in lst]
            if e[key]["keys"] != want or not e[key]["same"]:
                bad.append((f"C05:{what}", f"{what} of {n} is {e[key]['keys']} (same objects: {e[key]['same']}), the stacked list is {lst}"))
        for key, what in (("pid", "property_id_set"), ("mid", "method_id_set"), ("iid", "invariant_id_set")):
            if not e[key]:
                bad.append((f"C05:{what}", f"{what} of {n} is not the set of ids of the listed objects"))
        i = e["iface"]
        if i is not None:
            own_p = [p for p in c["props"]]
            impl = sorted(want_cd + ([] if c["abstract"] else [n]))
            if not i["base"] or i["inh"] != c["parents"] or not i["inh_same"]:
                bad.append(("C05:interface-parents", f"interface of {n}: base is the class: {i['base']}, parent interfaces {i['inh']} (the parents' own: {i['inh_same']}), declared parents {c['parents']}"))
            if sorted(i["impl"]) != impl or len(i["impl"]) != len(set(i["impl"])) or i["impl_strangers"]:
                bad.append(("C05:interface-implementers", f"implementers of the interface of {n} are {i['impl']}, expected {impl}"))
            if i["props"] != own_p or i["pbn"] != own_p or not i["props_same"] or not i["pid"]:
                bad.append(("C05:interface-properties", f"interface of {n} lists the properties {i['props']} (by name {i['pbn']}, id set right: {i['pid']}), the class declares {own_p}"))
    return bad


def round_trip(st: Any) -> Any:
    import pickle

    return pickle.loads(pickle.dumps(st))


def examine(h: Hier, got: str, d: Dict[str, Any], st: Any) -> Dict[str, Any]:
    """Everything beyond the Lean-compared dump for an ACCEPTED model: id-set queries on the fresh table, the pickle
    round trip (same dump, same queries, same oracle).  Returns {"fail": [(sig, what)], "diff": [text], "trip": outcome}."""
    fail: List[Tuple[str, str]] = []
    diff: List[str] = []
    fresh = judge(h, d)
    x1: Optional[Dict[str, Any]] = None
    try:
        x1 = dump_ext(st)
        fresh_ext = judge_ext(h, d, x1)
    except BaseException as e:  # noqa
        fresh_ext = [("C05:query-" + crash_name(e), f"a query on the fresh symbol table raised {type(e).__name__}: {e}"[:300])]
    fail += fresh + fresh_ext
    seen = {sig for sig, _ in fail}
    try:
        st2 = round_trip(st)
    except BaseException as e:  # noqa
        fail.append(("C05:pickle-" + crash_name(e), f"pickle round trip of the accepted symbol table raised {type(e).__name__}: {e}"[:300]))
        return {"fail": fail, "diff": diff, "trip": crash_name(e)}
    try:
        d2 = dump_real(st2)
        x2 = dump_ext(st2)
    except BaseException as e:  # noqa
        fail.append(("C05:unpickled-query-" + crash_name(e), f"a query on the un-pickled symbol table raised {type(e).__name__}: {e}"[:300]))
        return {"fail": fail, "diff": diff, "trip": "query-" + crash_name(e)}
    got2 = canon_dump(d2)
    if got2 != got:
        diff.append("canonical dump changed by the pickle round trip")
    if x1 is not None and x2 != x1:
        keys = sorted(f"{n}.{k}" for n in x1["classes"] for k in x1["classes"][n] if x2["classes"].get(n, {}).get(k) != x1["classes"][n][k])
        diff.append(f"id-set backed queries changed by the pickle round trip: {keys[:8]}")
    # the same oracle on the un-pickled table; what already fails on the fresh table is reported once, there
    for sig, what in judge(h, d2) + judge_ext(h, d2, x2):
        if sig not in seen:
            fail.append((sig + ":unpickled", "after pickle.loads(pickle.dumps(symbol_table)): " + what))
    return {"fail": fail, "diff": diff, "trip": "identity" if not diff else "changed", "unpickled": got2}


# --------------------------------------------------------------------------- the direct oracle


def closure(h: Hier) -> Dict[str, Set[str]]:
    """Strict ancestors of every class: least fix-point of  anc(c) ⊇ parents(c) ∪ ⋃ anc(p)."""
    anc: Dict[str, Set[str]] = {c["name"]: set(c["parents"]) for c in h}
    changed = True
    while changed:
        changed = False
        for c in h:
            s = anc[c["name"]]
            for p in list(s):
                extra = anc.get(p, set()) - s
                if extra:
                    s |= extra
                    changed = True
    return anc


def judge(h: Hier, d: Dict[str, Any]) -> List[Tuple[str, str]]:
    """C05 decided on the dump of an ACCEPTED model. Returns [(sig, what)]."""
    bad: List[Tuple[str, str]] = []
    by = {c["name"]: c for c in h}
    names = [c["name"] for c in h]
    anc = closure(h)

    def dup(xs: Sequence[Any]) -> bool:
        return len(set(xs)) != len(xs)

    if d["order"] != names:
        bad.append(("C05:classes", f"classes of the symbol table {d['order']} differ from the declared ones {names}"))
        return bad
    # topological type order
    topo = d["topo"]
    if sorted(topo) != sorted(names):
        bad.append(("C05:topo-perm", f"topological order {topo} is not a permutation of the classes"))
    else:
        pos = {n: i for i, n in enumerate(topo)}
        for c in h:
            for p in c["parents"]:
                if not pos[p] < pos[c["name"]]:
                    bad.append(("C05:topo-order", f"{p} does not precede its child {c['name']} in {topo}"))
    for c in h:
        n = c["name"]
        r = d["classes"][n]
        # ancestors / descendants
        if set(r["anc"]) != anc[n]:
            bad.append(("C05:ancestors-set", f"ancestors of {n} are {r['anc']}, the closure is {sorted(anc[n])}"))
        elif dup(r["anc"]):
            bad.append(("C05:ancestors-dup", f"ancestors of {n} list a class twice: {r['anc']}"))
        inv = {m for m in names if n in anc[m]}
        if set(r["desc"]) != inv:
            bad.append(("C05:descendants-set", f"descendants of {n} are {r['desc']}, the inverse relation gives {sorted(inv)}"))
        elif dup(r["desc"]):
            bad.append(("C05:descendants-dup", f"descendants of {n} list a class twice: {r['desc']}"))
        want_cd = [m for m in r["desc"] if not by[m]["abstract"]]
        if r["cdesc"] != want_cd:
            bad.append(("C05:concrete-descendants", f"concrete descendants of {n} are {r['cdesc']}, expected {want_cd}"))
        if r["concrete"] == c["abstract"]:
            bad.append(("C05:abstractness", f"{n} abstract={c['abstract']} but concrete={r['concrete']}"))
        # stacking: inherited (de-duplicated, ancestors first) followed by own
        for key, own_key, what in (("props", "props", "properties"), ("invs", "invs", "invariants"), ("methods", "methods", "methods")):
            got = r[key]
            own = [f"{n}/{x}" for x in c[own_key]]
            k = len(got) - len(own)
            if k < 0 or got[k:] != own:
                bad.append((f"C05:{key}-own-last", f"{what} of {n} {got} do not end with its own {own}"))
                continue
            inh = got[:k]
            want = {f"{a}/{x}" for a in anc[n] for x in by[a][own_key]}
            if set(inh) != want:
                bad.append((f"C05:{key}-inherited-set", f"inherited {what} of {n} are {inh}, expected the set {sorted(want)}"))
                continue
            if dup(inh):
                bad.append((f"C05:{key}-dup", f"inherited {what} of {n} contain a duplicate: {inh}"))
                continue
            owners = [x.split("/", 1)[0] for x in inh]
            for i, a in enumerate(owners):
                for b in owners[:i]:
                    if b != a and b in anc and a in anc[b]:
                        bad.append((f"C05:{key}-ancestors-first", f"in {what} of {n} an entry of {b} precedes one of its ancestor {a}: {inh}"))
                        break
            for a in set(owners):
                if [x for x in inh if x.startswith(a + "/")] != [f"{a}/{x}" for x in by[a][own_key]]:
                    bad.append((f"C05:{key}-owner-order", f"{what} of {n} inherited from {a} are re-ordered: {inh}"))
        if dup([x.split("/", 1)[1] for x in r["props"]]):
            bad.append(("C05:props-name-dup", f"properties of {n} share a name: {r['props']}"))
        # constructor
        if any(not s.startswith("A") for s in r["inl"]):
            bad.append(("C05:ctor-super-call-left", f"in-lined constructor of {n} still calls a super constructor: {r['inl']}"))
        else:
            targets = sorted(s[1:] for s in r["inl"])
            pnames = sorted(x.split("/", 1)[1] for x in r["props"])
            if targets != pnames:
                twice = sorted({t for t in targets if targets.count(t) > 1})
                # a repetition the modeller wrote (`self.x = x` twice in one `__init__`) is copied, not caused, by in-lining
                written = sorted(
                    t for t in twice if any([x for k, x in o["ctor"] if k == "A"].count(t) > 1 for o in h if o["name"] == n or o["name"] in anc[n])
                )
                if twice and twice == written and sorted(set(targets)) == pnames:
                    bad.append(("C05:ctor-source-assigns-twice", f"the constructor source assigns {written} twice and the in-lined constructor of {n} keeps both: {r['inl']}"))
                elif twice and sorted(set(targets)) == pnames:
                    bad.append(("C05:ctor-assigned-twice", f"in-lined constructor of {n} assigns {twice} more than once: {r['inl']}"))
                else:
                    bad.append(("C05:ctor-assignments", f"in-lined constructor of {n} assigns {targets}, the properties are {pnames}"))
        # interface
        if r["iface"] != (c["abstract"] or len(inv) > 0):
            bad.append(("C05:interface", f"{n}: interface={r['iface']} abstract={c['abstract']} descendants={sorted(inv)}"))
        # model type propagates down
        if r["wmt"] is None:
            bad.append(("C05:model-type-unset", f"{n}: with_model_type left unset"))
        elif r["wmt"]:
            for m in inv:
                if d["classes"][m]["wmt"] is not True:
                    bad.append(("C05:model-type", f"{n} has with_model_type but its descendant {m} has not"))
        if c["wmt"] is not None and r["wmt"] != c["wmt"]:
            bad.append(("C05:model-type-own", f"{n} declares with_model_type={c['wmt']} but got {r['wmt']}"))
        # ... evaluated from the source: the setting of a class is the one declared by the class or by any of its
        # ancestors (all of them agree in an accepted model), False when nobody declares one; however the decorator
        # is spelled on the classes in between (absent, `@serialization()`, positional)
        declared = sorted({by[a]["wmt"] for a in anc[n] | {n} if a in by and by[a]["wmt"] is not None})
        if len(declared) > 1:
            bad.append(("C05:model-type-contradiction-accepted", f"{n} and its ancestors declare both with_model_type=True and =False, yet the model is accepted"))
        elif r["wmt"] is not None and r["wmt"] != (declared[0] if declared else False):
            carriers = sorted(a for a in anc[n] | {n} if by[a]["wmt"] is not None)
            bad.append(("C05:model-type-source", f"{n}: with_model_type={r['wmt']}, but the source declares {declared[0] if declared else 'nothing (default False)'} on {carriers}"))
    return bad


# --------------------------------------------------------------------------- generators

NAMES = ["A", "B", "C", "D", "E", "F"]
NAME_POOL = [
    "A", "B", "C", "D", "E", "F", "G", "H", "Aa", "Ab", "A_b", "Bb", "Ba", "Zz", "Z", "A1", "A10", "A2", "Abc", "Abd",
    "M", "Ma", "Mb", "N", "Node", "Nodes", "Leaf", "Leaf_a", "Tree", "Trunk", "X", "Xy", "Y", "Q", "Q_1", "Q_2",
]  # fmt: skip


def mk_class(name: str, parents: Sequence[str], abstract: bool = False, props: int = 1, invs: int = 0, methods: int = 0, wmt: Optional[bool] = None, ser: Optional[str] = None) -> Dict[str, Any]:
    low = name.lower()
    if ser is not None:
        return dict(mk_class(name, parents, abstract, props, invs, methods, wmt), ser=ser)
    return {
        "name": name,
        "parents": list(parents),
        "abstract": abstract,
        "props": [f"{low}_p{i}" for i in range(props)],
        "invs": [f"{name} inv{i}" for i in range(invs)],
        "methods": [f"{low}_m{i}" for i in range(methods)],
        "args": [],
        "ctor": [],
        "wmt": wmt,
    }


def canonical_ctors(h: Hier) -> Hier:
    """Constructors as a modeller writes them: call every parent that has a constructor, then assign the own properties."""
    by = {c["name"]: c for c in h}
    anc = closure(h)
    has_ctor = {c["name"]: bool(c["props"]) or any(by[a]["props"] for a in anc[c["name"]] if a in by) for c in h}
    for c in h:
        c["ctor"] = [["S", p] for p in c["parents"] if has_ctor.get(p)] + [["A", x] for x in c["props"]]
    return set_args(h)


def set_args(h: Hier) -> Hier:
    args = ctor_args(h)
    for c in h:
        c["args"] = args[c["name"]]
    return h


def legal_orders(names: Sequence[str], parents: Dict[str, List[str]], limit: int) -> List[List[str]]:
    """Linear extensions (parents declared before children), at most ``limit``."""
    out: List[List[str]] = []

    def go(done: List[str], rest: List[str]) -> None:
        if len(out) >= limit:
            return
        if not rest:
            out.append(list(done))
            return
        for n in rest:
            if all(p in done for p in parents[n]):
                go(done + [n], [m for m in rest if m != n])

    go([], list(names))
    return out


def dag_shapes(n: int) -> List[List[Tuple[int, int]]]:
    """All DAGs on n nodes up to isomorphism (edges (parent, child) with parent < child)."""
    pairs = [(i, j) for j in range(n) for i in range(j)]
    seen: Set[Tuple[Tuple[int, int], ...]] = set()
    out: List[List[Tuple[int, int]]] = []
    for mask in range(1 << len(pairs)):
        edges = [pairs[k] for k in range(len(pairs)) if mask >> k & 1]
        best = None
        for perm in itertools.permutations(range(n)):
            key = tuple(sorted((perm[a], perm[b]) for a, b in edges))
            if best is None or key < best:
                best = key
        assert best is not None
        if best not in seen:
            seen.add(best)
            out.append(edges)
    return out


_SHAPES: Dict[int, List[List[Tuple[int, int]]]] = {}


def shapes(n: int) -> List[List[Tuple[int, int]]]:
    if n not in _SHAPES:
        _SHAPES[n] = dag_shapes(n)
    return _SHAPES[n]


def build(names: Sequence[str], edges: Sequence[Tuple[int, int]], abstract_mask: int, parent_rev: bool, order: Optional[Sequence[str]] = None, rich: int = 0) -> Hier:
    n = len(names)
    parents: Dict[str, List[str]] = {names[i]: [] for i in range(n)}
    for a, b in edges:
        parents[names[b]].append(names[a])
    if parent_rev:
        for k in parents:
            parents[k].reverse()
    cls = {
        names[i]: mk_class(
            names[i],
            parents[names[i]],
            abstract=bool(abstract_mask >> i & 1),
            props=(1 if rich == 0 else (i + rich) % 3),
            invs=(0 if rich == 0 else (i + 2 * rich) % 3),
            methods=(0 if rich == 0 else (i + rich) % 2),
        )
        for i in range(n)
    }
    seq = list(order) if order is not None else legal_orders(list(names), parents, 1)[0]
    return canonical_ctors([cls[x] for x in seq])


def enumerated(ctx: Ctx) -> Iterator[Tuple[Hier, str]]:
    maxn = 4 if ctx.tier == "quick" else 5
    for n in range(0, maxn + 1):
        base = NAMES[:n]
        if n <= 3:
            namings = [list(p) for p in itertools.permutations(base)]
        else:
            namings = [base, base[::-1], base[1::2] + base[0::2]]
        masks = [0, (1 << n) - 1, 0b0101 & ((1 << n) - 1), 0b1010 & ((1 << n) - 1)] if n <= 3 else [0, 0b00101 & ((1 << n) - 1)]
        for edges in shapes(n):
            for names in namings:
                parents = {names[i]: [names[a] for a, b in edges if b == i] for i in range(n)}
                orders = legal_orders(names, parents, 24 if n <= 3 else (3 if n == 4 else 2))
                multi = any(len(v) > 1 for v in parents.values())
                for rev in ([False, True] if multi else [False]):
                    for oi, order in enumerate(orders):
                        for mi, mask in enumerate(sorted(set(masks))):
                            if n >= 4 and (oi + mi) % 2 == 1:
                                continue  # thin out the product for the larger shapes
                            yield build(names, edges, mask, rev, order, rich=(oi + mi) % 3), f"enum{n}"


def random_hier(ctx: Ctx, nmax: int) -> Hier:
    rng = ctx.rng
    n = rng.randint(1, nmax)
    names = rng.sample(NAME_POOL, n) if n <= len(NAME_POOL) else [f"K{i}" for i in range(n)]
    style = rng.choice(["sparse", "dense", "chain", "layers", "multiroot"])
    if style == "dense" and n > 10:
        style = "layers"  # the ontology keeps one ancestor entry per inheritance path: keep that polynomial
    edges: List[Tuple[int, int]] = []
    for j in range(1, n):
        if style == "chain":
            cand = [j - 1] + ([rng.randrange(j)] if rng.random() < 0.2 else [])
        elif style == "dense":
            cand = [i for i in range(j) if rng.random() < 0.5]
        elif style == "layers":
            cand = [i for i in range(max(0, j - 4), j) if rng.random() < 0.45]
        elif style == "multiroot":
            cand = [i for i in range(j) if rng.random() < 0.15]
        else:
            cand = [i for i in range(j) if rng.random() < 2.0 / (j + 1)]
        cand = sorted(set(cand))
        rng.shuffle(cand)
        edges += [(i, j) for i in cand[: 4 if n <= 12 else 3]]
    parents: Dict[str, List[str]] = {x: [] for x in names}
    for a, b in edges:
        parents[names[b]].append(names[a])
    cls = []
    wmt_mode = rng.choice(["none", "none", "true", "false", "mixed"])
    with_methods = rng.random() < 0.3  # a method above a diamond is always refused
    for i, x in enumerate(names):
        w: Optional[bool] = None
        r = rng.random()
        if wmt_mode in ("true", "false") and r < 0.2:
            w = wmt_mode == "true"
        elif wmt_mode == "mixed" and r < 0.2:
            w = rng.choice([True, True, False])
        cls.append(
            mk_class(
                x, parents[x], abstract=rng.random() < 0.4, props=rng.choice([0, 1, 1, 2]), invs=rng.choice([0, 0, 1, 2]),
                methods=(rng.choice([0, 0, 1]) if with_methods else 0), wmt=w,
            )
        )
        # how the decorator is spelled: bare `@serialization()` on classes without a setting, positional argument
        if wmt_mode != "none" and rng.random() < 0.25:
            cls[-1]["ser"] = "bare" if w is None else "pos"
    # a random legal declaration order
    done: List[str] = []
    rest = list(names)
    by = {c["name"]: c for c in cls}
    while rest:
        ready = [x for x in rest if all(p in done for p in parents[x])]
        x = rng.choice(ready)
        done.append(x)
        rest.remove(x)
    return canonical_ctors([by[x] for x in done])


def mutate(ctx: Ctx, h: Hier) -> Tuple[Hier, str]:
    """One edit that moves a valid hierarchy towards (or across) the acceptance boundary."""
    rng = ctx.rng
    h = json.loads(json.dumps(h))
    kind = rng.choice(["order", "order-noprops", "order-noprops", "drop-super", "drop-assign", "prop-clash", "method-clash", "prop-in-ancestor", "method-in-ancestor", "cycle", "wmt", "no-ctor", "inv-clash", "dup-assign", "dup-super"])
    by = {c["name"]: c for c in h}
    anc = closure(h)
    with_anc = [c for c in h if anc[c["name"]]]
    if kind == "order":
        rng.shuffle(h)
    elif kind == "order-noprops":
        # any declaration order is accepted when there is nothing to initialise: the stacking passes must
        # still follow the topological order, not the declaration order
        for c in h:
            c["props"], c["ctor"], c["args"] = [], [], []
            if not c["invs"] and rng.random() < 0.5:
                c["invs"] = [f"{c['name']} inv0"]
        rng.shuffle(h)
    elif kind == "drop-super":
        cand = [c for c in h if any(k == "S" for k, _ in c["ctor"])]
        if cand:
            c = rng.choice(cand)
            c["ctor"].remove(rng.choice([s for s in c["ctor"] if s[0] == "S"]))
    elif kind == "drop-assign":
        cand = [c for c in h if any(k == "A" for k, _ in c["ctor"])]
        if cand:
            c = rng.choice(cand)
            c["ctor"].remove(rng.choice([s for s in c["ctor"] if s[0] == "A"]))
    elif kind in ("dup-assign", "dup-super"):
        # a statement written twice: a repeated own assignment must be refused (former finding C05-F1), a repeated
        # super call is harmless because the in-lining skips the statements it has seen
        k_ = "A" if kind == "dup-assign" else "S"
        cand = [c for c in h if any(k == k_ for k, _ in c["ctor"])]
        if cand:
            c = rng.choice(cand)
            st = rng.choice([s_ for s_ in c["ctor"] if s_[0] == k_])
            c["ctor"].insert(rng.randint(0, len(c["ctor"])), list(st))
    elif kind in ("prop-clash", "method-clash", "inv-clash"):
        key = {"prop-clash": "props", "method-clash": "methods", "inv-clash": "invs"}[kind]
        src = [c for c in h if c[key]]
        if src and len(h) > 1:
            a = rng.choice(src)
            b = rng.choice([c for c in h if c is not a])
            x = rng.choice(a[key])
            if x not in b[key]:
                b[key].append(x)
                if key == "props":
                    canonical_ctors(h)
    elif kind in ("prop-in-ancestor", "method-in-ancestor"):
        key = "props" if kind == "prop-in-ancestor" else "methods"
        cand = [c for c in with_anc if any(by[a][key] for a in anc[c["name"]])]
        if cand:
            c = rng.choice(cand)
            a = rng.choice([a for a in sorted(anc[c["name"]]) if by[a][key]])
            x = rng.choice(by[a][key])
            if x not in c[key]:
                c[key].append(x)
    elif kind == "cycle":
        if with_anc:
            c = rng.choice(with_anc)
            a = by[rng.choice(sorted(anc[c["name"]]))]
            a["parents"].append(c["name"])
        else:
            h[0]["parents"].append(h[0]["name"])
        for c in h:
            c["props"], c["ctor"], c["args"] = [], [], []
    elif kind == "wmt":
        for c in rng.sample(h, min(len(h), 3)):
            c["wmt"] = rng.choice([True, True, False, None])
            c.pop("ser", None)
            if rng.random() < 0.5:
                c["ser"] = "bare" if c["wmt"] is None else "pos"
    elif kind == "no-ctor":
        cand = [c for c in h if c["ctor"] and not c["props"]]
        if cand:
            c = rng.choice(cand)
            c["ctor"], c["args"] = [], []
    return h, "mut-" + kind


def boundary(ctx: Ctx) -> Iterator[Tuple[Hier, str]]:
    """Seed-independent inputs that alone reach every outcome class and branch of the model."""
    A = lambda **k: mk_class("A", [], **k)  # noqa: E731
    # diamonds, declared parents in both orders, redundant edge
    for rev in (False, True):
        yield build(["A", "B", "C", "D"], [(0, 1), (0, 2), (1, 3), (2, 3)], 0b0111, rev, rich=1), "boundary"
    yield build(["A", "B", "D"], [(0, 1), (0, 2), (1, 2)], 0b001, True), "boundary"
    # tie-break by name vs declaration order, multi-root
    yield build(["Zz", "Aa", "A", "B"], [(0, 3), (1, 3)], 0, False, ["Zz", "Aa", "A", "B"]), "boundary"
    # cycles: self loop, 2-cycle, cycle reachable from a clean root
    yield [mk_class("A", ["A"], props=0)], "boundary"
    yield [mk_class("B", ["A"], props=0), mk_class("A", ["B"], props=0)], "boundary"
    yield [mk_class("A", [], props=0), mk_class("C", ["A", "D"], props=0), mk_class("D", ["C"], props=0)], "boundary"
    # ontology errors
    h = canonical_ctors([A(), mk_class("B", ["A"])])
    h[1]["props"].append("a_p0")
    yield h, "boundary"
    h = canonical_ctors([A(methods=1), mk_class("B", ["A"])])
    h[1]["methods"].append("a_m0")
    yield h, "boundary"
    h = canonical_ctors([A(), mk_class("B", ["A"], props=0)])
    h[1]["ctor"], h[1]["args"] = [], []
    yield h, "boundary"
    # construction: super-call of a class without constructor / of a non-parent
    h = canonical_ctors([A(props=0), mk_class("B", ["A"])])
    h[1]["ctor"].insert(0, ["S", "A"])
    yield h, "boundary"
    h = canonical_ctors([A(), mk_class("B", ["A"]), mk_class("C", ["B"])])
    h[2]["ctor"].insert(0, ["S", "A"])
    yield h, "boundary"
    # stacking: property-name clash between unrelated parents; methods over a diamond and between parents; override-free
    h = canonical_ctors([A(), mk_class("B", []), mk_class("C", ["A", "B"])])
    h[1]["props"] = ["a_p0"]
    yield canonical_ctors(h), "boundary"
    yield build(["A", "B", "C", "D"], [(0, 1), (0, 2), (1, 3), (2, 3)], 0b0111, False, rich=2), "boundary"
    h = canonical_ctors([A(methods=1), mk_class("B", [], methods=1), mk_class("C", ["A", "B"])])
    h[1]["methods"] = ["a_m0"]
    yield h, "boundary"
    # with_model_type: inherited, set by the child only, inconsistent between parents, parent vs own, explicit False
    yield canonical_ctors([A(wmt=True, abstract=True), mk_class("B", ["A"]), mk_class("C", ["B"])]), "boundary"
    yield canonical_ctors([A(), mk_class("B", ["A"], wmt=True)]), "boundary"
    yield canonical_ctors([A(wmt=True), mk_class("B", [], wmt=False), mk_class("C", ["A", "B"])]), "boundary"
    yield canonical_ctors([A(wmt=True), mk_class("B", ["A"], wmt=False)]), "boundary"
    yield canonical_ctors([A(wmt=False), mk_class("B", ["A"])]), "boundary"
    # constructors: forward declared parent (nothing lost / assignment lost), dropped super call, dropped assignment
    yield canonical_ctors([mk_class("B", ["A"]), A(props=0)]), "boundary"
    yield canonical_ctors([mk_class("B", ["A"]), A()]), "boundary"
    yield canonical_ctors([mk_class("C", ["B"]), A(), mk_class("B", ["A"], props=0)]), "boundary"
    h = canonical_ctors([A(), mk_class("B", ["A"])])
    h[1]["ctor"] = [["A", "b_p0"]]
    yield h, "boundary"
    h = canonical_ctors([A(props=2)])
    h[0]["ctor"] = [["A", "a_p0"]]
    yield h, "boundary"
    # reversed declaration of a chain that only carries invariants and a model-type setting
    yield [mk_class("C", ["B"], props=0, invs=1), mk_class("B", ["A"], props=0, invs=1), mk_class("A", [], props=0, invs=1, wmt=True, abstract=True)], "boundary"
    # the second parent alone carries with_model_type
    yield canonical_ctors([A(), mk_class("B", [], wmt=True), mk_class("C", ["A", "B"])]), "boundary"
    # the decorator without a setting (`@serialization()`): below an ancestor with the setting, between two carriers,
    # above a carrier, alone; positional spelling; a bare one must not count as a contradiction
    B = lambda parents, **k: mk_class("B", parents, **k)  # noqa: E731
    yield canonical_ctors([A(wmt=True, abstract=True), B(["A"], ser="bare"), mk_class("C", ["B"])]), "boundary"
    yield canonical_ctors([A(wmt=True), B(["A"], ser="bare"), mk_class("C", ["B"], ser="bare"), mk_class("D", ["C"])]), "boundary"
    yield canonical_ctors([A(ser="bare"), B(["A"], wmt=True), mk_class("C", ["B"], ser="bare")]), "boundary"
    yield canonical_ctors([A(ser="bare"), B(["A"], ser="bare")]), "boundary"
    yield canonical_ctors([A(wmt=True, ser="pos"), B([], ser="bare"), mk_class("C", ["B", "A"], ser="bare"), mk_class("D", ["C"])]), "boundary"
    yield canonical_ctors([A(wmt=False), B(["A"], ser="bare"), mk_class("C", ["B"], wmt=True)]), "boundary"
    yield canonical_ctors([A(wmt=True), B(["A"], ser="bare"), mk_class("C", ["B"], wmt=False, ser="pos")]), "boundary"
    # former finding C05-F1 (repaired): the modeller assigns an own property twice; must be refused (err construction)
    h = canonical_ctors([A(), mk_class("B", ["A"])])
    h[0]["ctor"].append(["A", "a_p0"])
    yield h, "boundary"
    # duplicated invariant description along a chain and inside one class
    h = canonical_ctors([A(invs=1), mk_class("B", ["A"], invs=1)])
    h[1]["invs"] = ["A inv0"]
    yield h, "boundary"


SER_VARIANTS: List[Tuple[Optional[bool], Optional[str]]] = [(None, None), (None, "bare"), (True, None), (False, None)]


def ser_enumerated(ctx: Ctx) -> Iterator[Tuple[Hier, str]]:
    """Every assignment of {no decorator, `@serialization()`, with_model_type=True, =False} to the classes of a chain
    of three (declared top-down, and bottom-up without properties so that the front end accepts it), a join of two
    roots, and a diamond: the setting must reach every descendant whichever way it is (not) written in between.
    The positional spelling `@serialization(True)` replaces the keyword one in every third input."""
    shapes_: List[Tuple[List[str], List[Tuple[int, int]], List[Optional[List[str]]], int]] = [
        (["A", "B", "C"], [(0, 1), (1, 2)], [None], 1),
        (["A", "B", "C"], [(0, 1), (1, 2)], [["C", "B", "A"], ["B", "C", "A"]], 0),
        (["A", "B", "C"], [(0, 2), (1, 2)], [None], 1),
        (["A", "B", "C", "D"], [(0, 1), (0, 2), (1, 3), (2, 3)], [None], 1),
    ]
    k = 0
    for names, edges, orders, props in shapes_:
        for combo in itertools.product(SER_VARIANTS, repeat=len(names)):
            k += 1
            order = orders[k % len(orders)]
            parents: Dict[str, List[str]] = {x: [] for x in names}
            for a, b in edges:
                parents[names[b]].append(names[a])
            if k % 2 == 0:
                for x in parents:
                    parents[x].reverse()
            cls = {
                x: mk_class(x, parents[x], abstract=(i == 0 and k % 4 < 2), props=props, invs=(0 if props else 1), wmt=w, ser=("pos" if (w is not None and k % 3 == 0) else sv))
                for i, (x, (w, sv)) in enumerate(zip(names, combo))
            }
            yield canonical_ctors([cls[x] for x in (order or names)]), "ser-enum"


def inputs(ctx: Ctx) -> Iterator[Tuple[Hier, str]]:
    for c in corpus(ID):
        yield c["hier"], "corpus"
    yield from boundary(ctx)
    yield from ser_enumerated(ctx)
    yield from enumerated(ctx)
    nmax = 25
    for _ in range(ctx.n(250, 6000)):
        h = random_hier(ctx, nmax if ctx.rng.random() < 0.5 else 8)
        yield h, "random"
        if ctx.rng.random() < 0.6:
            yield mutate(ctx, h)


# --------------------------------------------------------------------------- constrained-primitive chains (oracle only)


def render_cprim(h: Hier) -> str:
    """`class X(str, DBC)` roots and `class Y(X1, X2, DBC)` below them, invariants on `self`."""
    out: List[str] = []
    for c in h:
        for d in reversed(c["invs"]):
            out.append(f'@invariant(lambda self: len(self) > 0, "{d}")')
        bases = ", ".join((list(c["parents"]) or ["str"]) + ["DBC"])
        out.append(f"class {c['name']}({bases}):")
        out.append("    pass")
        out.append("")
        out.append("")
    out.append('__version__ = "dummy"')
    out.append('__xml_namespace__ = "https://dummy.com"')
    return "\n".join(out) + "\n"


def cprim_inputs(ctx: Ctx) -> Iterator[Hier]:
    def mk(names: Sequence[str], edges: Sequence[Tuple[int, int]], rev: bool, order: Sequence[str]) -> Hier:
        parents: Dict[str, List[str]] = {x: [] for x in names}
        for a, b in edges:
            parents[names[b]].append(names[a])
        if rev:
            for k in parents:
                parents[k].reverse()
        by = {x: mk_class(x, parents[x], props=0, invs=(i % 3)) for i, x in enumerate(names)}
        return [by[x] for x in order]

    for n in range(1, 5):
        for edges in shapes(n):
            for names in ([NAMES[:n], NAMES[:n][::-1]] if n > 1 else [NAMES[:1]]):
                parents = {names[i]: [names[a] for a, b in edges if b == i] for i in range(n)}
                for order in legal_orders(names, parents, 2):
                    yield mk(names, edges, False, order)
                    if any(len(v) > 1 for v in parents.values()):
                        yield mk(names, edges, True, order)
    for _ in range(ctx.n(40, 800)):
        n = ctx.rng.randint(2, 12)
        names = ctx.rng.sample(NAME_POOL, n)
        edges = [(i, j) for j in range(1, n) for i in range(j) if ctx.rng.random() < 1.5 / (j + 1)]
        parents = {names[i]: [names[a] for a, b in edges if b == i] for i in range(n)}
        order = legal_orders(names, parents, 1)[0]
        if ctx.rng.random() < 0.3:
            order = list(order)
            ctx.rng.shuffle(order)
        yield mk(names, edges, ctx.rng.random() < 0.5, order)


def judge_cprim(h: Hier, st: Any) -> List[Tuple[str, str]]:
    """The statement of C05 on a table of constrained primitives, incl. the id-set backed queries."""
    names = [c["name"] for c in h]
    anc = closure(h)
    by = {c["name"]: c for c in h}
    got = {str(t.name): t for t in st.constrained_primitives}
    bad: List[Tuple[str, str]] = []
    if sorted(got) != sorted(names):
        return [("C05:cprim-classes", f"constrained primitives {sorted(got)} differ from the declared {sorted(names)}")]
    topo = [str(t.name) for t in st.our_types_topologically_sorted]
    pos = {x: i for i, x in enumerate(topo)}
    name_of = {id(t): n for n, t in got.items()}

    def ids(s_: Any) -> List[str]:
        return sorted(name_of.get(i, "?foreign") for i in s_)

    for c in h:
        n = c["name"]
        t = got[n]
        a = [str(x.name) for x in t.ancestors]
        d = [str(x.name) for x in t.descendants]
        inv = {m for m in names if n in anc[m]}
        if set(a) != anc[n] or len(set(a)) != len(a):
            bad.append(("C05:cprim-ancestors", f"ancestors of the constrained primitive {n} are {a}, the closure is {sorted(anc[n])}"))
        if set(d) != inv or len(set(d)) != len(d):
            bad.append(("C05:cprim-descendants", f"descendants of the constrained primitive {n} are {d}, the inverse relation gives {sorted(inv)}"))
        if any(not pos[p] < pos[n] for p in c["parents"]):
            bad.append(("C05:cprim-topo", f"a parent of {n} does not precede it in {topo}"))
        invs = [f"{i.specified_for.name}/{i.description}" for i in t.invariants]
        own = [f"{n}/{x}" for x in c["invs"]]
        k = len(invs) - len(own)
        want = {f"{x}/{y}" for x in anc[n] for y in by[x]["invs"]}
        if k < 0 or invs[k:] != own or set(invs[:k]) != want or len(set(invs[:k])) != k:
            bad.append(("C05:cprim-invariants", f"invariants of the constrained primitive {n} are {invs}; expected the inherited {sorted(want)} once each, then {own}"))
        # id-set backed queries and object identity
        if [str(x.name) for x in t.inheritances] != c["parents"] or ids(t.inheritance_id_set) != sorted(set(c["parents"])):
            bad.append(("C05:cprim-inheritances", f"inheritances of the constrained primitive {n}: {[str(x.name) for x in t.inheritances]} / id set {ids(t.inheritance_id_set)}, declared {c['parents']}"))
        if ids(t.ancestor_id_set) != sorted(anc[n]):
            bad.append(("C05:cprim-idset-ancestors", f"ancestor_id_set of the constrained primitive {n} names {ids(t.ancestor_id_set)}, the closure is {sorted(anc[n])}"))
        if ids(t.descendant_id_set) != sorted(inv):
            bad.append(("C05:cprim-idset-descendants", f"descendant_id_set of the constrained primitive {n} names {ids(t.descendant_id_set)}, the inverse relation gives {sorted(inv)}"))
        sub = [m for m in names if t.is_subclass_of(got[m])]
        if sub != [m for m in names if m == n or m in anc[n]]:
            bad.append(("C05:cprim-is-subclass-of", f"{n}.is_subclass_of holds for {sub}, the closure (with {n} itself) is {[m for m in names if m == n or m in anc[n]]}"))
        if t.invariant_id_set != frozenset(id(i) for i in t.invariants):
            bad.append(("C05:cprim-invariant-id-set", f"invariant_id_set of {n} is not the set of ids of its invariants"))
        strangers = [str(x.name) for x in list(t.inheritances) + list(t.ancestors) + list(t.descendants) + [i.specified_for for i in t.invariants] if got.get(str(x.name)) is not x]
        if strangers or st.find_our_type(t.name) is not t:
            bad.append(("C05:cprim-identity", f"{n} refers to objects that are not the constrained primitives of the table: {strangers}"))
    return bad


def run_cprim(ctx: Ctx) -> None:
    """The statement of C05 on hierarchies of constrained primitives (ancestors, descendants, invariants), on the
    fresh symbol table and on its pickle round trip."""
    from aas_core_codegen import parse, intermediate

    for h in cprim_inputs(ctx):
        ctx.count("cprim " + wire(h), nontrivial=any(c["parents"] for c in h), stream="cprim")
        try:
            atok, exc = parse.source_to_atok(source=render_cprim(h))
            assert exc is None and atok is not None
            pst, err = parse.atok_to_symbol_table(atok=atok)
            if err is not None:
                ctx.hit("cprim:err parse")
                continue
            st, err = intermediate.translate(parsed_symbol_table=pst, atok=atok)
        except BaseException as e:  # noqa
            ctx.hit("cprim:" + crash_name(e))
            continue
        if err is not None:
            ctx.hit("cprim:rejected")
            continue
        ctx.hit("cprim:accepted")
        try:
            bad = judge_cprim(h, st)
        except BaseException as e:  # noqa
            bad = [("C05:cprim-query-" + crash_name(e), f"a query on the table of constrained primitives raised {type(e).__name__}: {e}"[:300])]
        for sig, what in bad:
            ctx.fail({"cprim": h}, what, sig)
        seen = {sig for sig, _ in bad}
        try:
            bad2 = judge_cprim(h, round_trip(st))
            ctx.hit("cprim:pickle:" + ("same-verdict" if {s_ for s_, _ in bad2} == seen else "verdict-changed"))
        except BaseException as e:  # noqa
            bad2 = [("C05:cprim-pickle-" + crash_name(e), f"pickle round trip / a query on the un-pickled table raised {type(e).__name__}: {e}"[:300])]
        for sig, what in bad2:
            if sig not in seen:
                ctx.fail({"cprim": h, "pickle": True}, "after pickle.loads(pickle.dumps(symbol_table)): " + what, sig + ":unpickled")


# --------------------------------------------------------------------------- runner hooks


def _run(ctx: Ctx, with_model: bool) -> None:
    batch: List[Tuple[Hier, str]] = list(inputs(ctx))
    outs: List[Tuple[str, Optional[Dict[str, Any]], Optional[Dict[str, Any]]]] = []
    for h, _ in batch:
        got, d, st = impl3(h)
        outs.append((got, d, examine(h, got, d, st) if d is not None else None))
        del st
    mouts: List[str] = []
    if with_model:
        mouts = ctx.model([wire(h) for h, _ in batch])
    for k, ((h, stream), (got, d, ex)) in enumerate(zip(batch, outs)):
        anc = closure(h)
        diamond = any(len([p for p in c["parents"] if a in anc.get(p, set()) or a == p]) > 1 for c in h for a in anc[c["name"]])
        ctx.count(wire(h) + "".join("#" + str(c.get("ser"))[0] for c in h if c.get("ser")), nontrivial=len(h) >= 2 and any(c["parents"] for c in h), stream=stream)
        ctx.hit("outcome:" + got.split(" ")[0] + (" " + got.split(" ")[1] if got.startswith("err ") else ""))
        if d is not None and ex is not None:
            ctx.hit("accepted:diamond" if diamond else "accepted:tree-like")
            ctx.hit(f"accepted:n={min(len(h), 10)}{'+' if len(h) >= 10 else ''}")
            if any(c["wmt"] for c in h):
                ctx.hit("accepted:with-model-type")
            for c in h:
                if c.get("ser") == "bare" and anc[c["name"]] and any(by_["wmt"] is not None for by_ in h if by_["name"] in anc[c["name"]]):
                    ctx.hit("accepted:bare-serialization-below-a-setting")
                    break
            if any(c.get("ser") == "pos" for c in h):
                ctx.hit("accepted:positional-serialization")
            if [c["name"] for c in h] != d["topo"]:
                ctx.hit("accepted:topo-differs-from-declaration")
            ctx.hit("pickle:" + ex["trip"])
            if any(len(anc[c["name"]]) > len(set(c["parents"])) for c in h):
                ctx.hit("pickle:with-grand-parents")
        if k % 499 == 0:
            ctx.sample({"hier": [f"{c['name']}({','.join(c['parents'])})" for c in h], "outcome": got[:120]})
        if with_model:
            ctx.traces_validated += 1
            if got != mouts[k]:
                ctx.disagree("translate", {"hier": h}, _explain(got), _explain(mouts[k]))
            elif ex is not None and ex.get("unpickled", got) != mouts[k]:
                ctx.disagree("translate-unpickled", {"hier": h, "pickle": True}, _explain(ex["unpickled"]), _explain(mouts[k]))
        if ex is not None:
            for what in ex["diff"]:
                ctx.disagree("pickle-round-trip", {"hier": h, "pickle": True}, what, "the round trip is the identity")
            for sig, what in ex["fail"]:
                ctx.fail({"hier": h, "pickle": True} if sig.endswith(":unpickled") or sig.startswith("C05:pickle-") else {"hier": h}, what, sig)


def _explain(s: str) -> Any:
    """Readable form of a canonical outcome for evidence/replay files."""
    from harness.core import dec_list, dec_text

    try:
        if s.startswith("ok "):
            parts = s[3:].split(";")
            out: Dict[str, Any] = {"topo": dec_list(parts[0])}
            for p in parts[1:]:
                f = p.split("|")
                out[dec_text(f[0])] = {
                    "anc": dec_list(f[1]), "desc": dec_list(f[2]), "cdesc": dec_list(f[3]), "props": dec_list(f[4]),
                    "invs": dec_list(f[5]), "methods": dec_list(f[6]), "inl": dec_list(f[7]), "iface": f[8], "wmt": f[9],
                }  # fmt: skip
            return out
        if s.startswith("cycle "):
            return "cycle " + dec_text(s[6:])
    except Exception:  # noqa
        pass
    return s


def correspond(ctx: Ctx) -> None:
    ctx.assumptions.append(
        "constrained-primitive hierarchies are exercised by the direct oracle only (stream cprim); the Lean model covers plain classes"
    )
    ctx.extra_cov["rule"] = (
        "hierarchies = corpus + a fixed boundary list + every assignment of {no decorator, @serialization(), "
        "with_model_type=True, =False} to the classes of a chain of three (two declaration orders), a join and a diamond "
        "(keyword and positional spelling) + every DAG shape on <=4 (quick) / <=5 (thorough) classes up to "
        "isomorphism x name assignments x parent-list orders x Python-legal declaration orders x abstract masks + seeded "
        "random DAGs (<=25 classes) and single-edit mutants; every accepted symbol table is additionally queried through "
        "all its id-set / by-name backed accessors and sent through pickle.loads(pickle.dumps(.)), after which the same "
        "canonical dump, the same queries and the same oracle must give the same answers; non-trivial = at least two "
        "classes and one inheritance; distinct by wire form + decorator spelling"
    )
    ctx.assumptions.append(
        "the pickle round trip is compared in Python (fresh vs un-pickled dump, both against the Lean answer and the "
        "direct oracle); the Lean model has no notion of pickling because the round trip must be the identity"
    )
    _run(ctx, True)


def oracle(ctx: Ctx) -> None:
    if not ctx.driver_ok or ctx.searching:
        _run(ctx, False)
    run_cprim(ctx)


def replay(ctx: Ctx, data: Dict[str, Any]) -> Any:
    inp = data["failure"]["input"] if "failure" in data else data
    if "cprim" in inp:
        before = len(ctx.failures)
        saved = globals()["cprim_inputs"]
        try:
            globals()["cprim_inputs"] = lambda _ctx: iter([inp["cprim"]])
            run_cprim(ctx)
        finally:
            globals()["cprim_inputs"] = saved
        return {"source": render_cprim(inp["cprim"]), "oracle": [[f["sig"], f["what"]] for f in ctx.failures[before:]]}
    if "hier" not in inp and data.get("disagreements"):
        inp = data["disagreements"][0]["input"]
    h = inp["hier"]
    got, d, st = impl3(h)
    res: Dict[str, Any] = {"source": render(h), "impl": _explain(got), "oracle": "not accepted: nothing to judge"}
    if d is not None:
        ex = examine(h, got, d, st)
        res["oracle"] = [list(f) for f in ex["fail"]]
        res["pickle_round_trip"] = {"outcome": ex["trip"], "differences": ex["diff"]}
    if ctx.driver_ok:
        m = ctx.model([wire(h)])[0]
        res["model"] = _explain(m)
        res["agree"] = m == got
    return res
