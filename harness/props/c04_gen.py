"""
C04, oracle (5): the located errors of the GENERATOR stage.

The front end accepts the meta-models of this module; a generator (``main.execute`` for a target) rejects them with
errors that carry nodes: the helpers ``intermediate.errors_if_*`` (contracts of functions / methods / constructors,
understood methods, lists of lists), ``<target>.lib.verify_for_types`` (naming collisions), and the generate functions
(descriptions that can not be rendered, numbers that can not be represented, invariants and verification functions that
can not be transpiled).  The models have SEVERAL offending entities in sequence, some with a node of their own and some
without (the synthesized constructor of a class without ``__init__``, inherited methods, inherited invariants).

The statement, written from the property text and independent of the Lean model and of the implementation:

* **entity rule** (every message): a located error is ABOUT the constructs its message names (quoted identifiers resolved
  against the definitions of the meta-model text, read with ``ast``; an error that names nothing is about what the
  error above it names).  A top-level error must be located at the first character of such a construct (or of its
  line; the ``@`` of its first decorator; the first character of its docstring), an underlying error inside the text
  of such a construct (for a class: or of an ancestor — inherited invariants).  The most specific names decide: a member
  named together with a class means the definition of that member in that class or in its ancestors.
* **designed expectation** (the three ``errors_if_*`` helpers): the offenders are computed from the text (decorators,
  inheritance) and matched one-to-one with the reported errors of the same message; an error about a construct that
  is not written anywhere (synthesized constructor) may be un-located, or located at its class or at the constructor
  of an ancestor it inherits the contract from — never at another offender.
"""
from __future__ import annotations

import ast
import itertools
import re
from typing import Any, Dict, Iterator, List, Optional, Sequence, Set, Tuple

Pos = Tuple[int, int]

LOC_RE = re.compile(r"At line (-?\d+) and column (-?\d+): ")

HEADER = '''\
from enum import Enum
from re import match
from typing import List, Optional, Set

from icontract import invariant, require, ensure, DBC

from aas_core_meta.marker import (
    abstract,
    serialization,
    implementation_specific,
    verification,
    constant_set,
    non_mutating,
)

'''

FOOTER = '''
__version__ = "V0.1"

__xml_namespace__ = "https://example.com/aasv/0/1"
'''


# =========================================================================== the definitions of a meta-model text


class Entity:
    """A definition of the meta-model text: class, enumeration, literal, property, method, constructor, function, constant."""

    def __init__(self, kind: str, name: str, owner: Optional[str], node: ast.AST, first: int, last: int, starts: Set[Pos]) -> None:
        self.kind, self.name, self.owner, self.node = kind, name, owner, node
        self.first, self.last = first, last  # the lines of its text (decorators and docstring included)
        self.starts = starts  # admissible positions of an error located AT it

    def __repr__(self) -> str:
        return f"<{self.kind} {self.owner + '.' if self.owner else ''}{self.name} lines {self.first}-{self.last}>"


def _char_col(lines: Sequence[str], lineno: int, col_offset: int) -> int:
    return len(lines[lineno - 1].encode("utf-8")[:col_offset].decode("utf-8"))


def _starts(lines: Sequence[str], node: ast.AST) -> Set[Pos]:
    ln = node.lineno  # type: ignore
    out = {(ln, _char_col(lines, ln, node.col_offset) + 1), (ln, 1)}  # type: ignore
    decos = getattr(node, "decorator_list", None)
    if decos:
        d = min(decos, key=lambda x: (x.lineno, x.col_offset))
        line = lines[d.lineno - 1]
        j = _char_col(lines, d.lineno, d.col_offset) - 1
        while j >= 0 and line[j] in " \t\f":
            j -= 1
        if j >= 0 and line[j] == "@":
            out |= {(d.lineno, j + 1), (d.lineno, 1)}
    return out


def _is_doc(st: ast.AST) -> bool:
    return isinstance(st, ast.Expr) and isinstance(st.value, ast.Constant) and isinstance(st.value.value, str)


def _deco_names(node: Any) -> List[str]:
    out = []
    for d in node.decorator_list:
        f = d.func if isinstance(d, ast.Call) else d
        if isinstance(f, ast.Name):
            out.append(f.id)
    return out


class Index:
    """The definitions of a meta-model text, read with ``ast`` (nothing of the implementation is used)."""

    def __init__(self, src: str) -> None:
        self.src = src
        self.lines = src.split("\n")
        self.tree = ast.parse(src)
        self.entities: List[Entity] = []
        self.bases: Dict[str, List[str]] = {}
        self.class_order: List[str] = []
        for st in self.tree.body:
            if isinstance(st, ast.ClassDef):
                self._class(st)
            elif isinstance(st, ast.FunctionDef):
                self._add("function", st.name, None, st, self._doc_of_def(st))
            elif isinstance(st, (ast.AnnAssign, ast.Assign)):
                tgt = st.target if isinstance(st, ast.AnnAssign) else (st.targets[0] if len(st.targets) == 1 else None)
                if isinstance(tgt, ast.Name) and not tgt.id.startswith("__"):
                    self._add("constant", tgt.id, None, st, None)

    def _doc_of_def(self, node: Any) -> Optional[ast.AST]:
        return node.body[0] if node.body and _is_doc(node.body[0]) else None

    def _add(self, kind: str, name: str, owner: Optional[str], node: Any, doc: Optional[ast.AST], last: Optional[int] = None) -> None:
        decos = getattr(node, "decorator_list", [])
        first = min([node.lineno] + [d.lineno for d in decos])
        end = last if last is not None else (node.end_lineno or node.lineno)
        starts = _starts(self.lines, node)
        if doc is not None:
            starts |= _starts(self.lines, doc)
            starts |= _starts(self.lines, doc.value)  # type: ignore
            end = max(end, doc.end_lineno or doc.lineno)  # type: ignore
        self.entities.append(Entity(kind, name, owner, node, first, end, starts))

    def _class(self, node: ast.ClassDef) -> None:
        bases = [b.id for b in node.bases if isinstance(b, ast.Name)]
        is_enum = "Enum" in bases
        self.bases[node.name] = [b for b in bases if b not in ("DBC", "Enum")]
        self.class_order.append(node.name)
        self._add("enum" if is_enum else "class", node.name, None, node, self._doc_of_def(node))
        body = list(node.body)
        for k, st in enumerate(body):
            doc = body[k + 1] if k + 1 < len(body) and _is_doc(body[k + 1]) else None
            if isinstance(st, ast.AnnAssign) and isinstance(st.target, ast.Name):
                self._add("property", st.target.id, node.name, st, doc)
            elif isinstance(st, ast.Assign) and len(st.targets) == 1 and isinstance(st.targets[0], ast.Name):
                self._add("literal", st.targets[0].id, node.name, st, doc)
            elif isinstance(st, ast.FunctionDef):
                self._add("init" if st.name == "__init__" else "method", st.name, node.name, st, self._doc_of_def(st))

    # ---- queries
    def ancestors(self, cls: str) -> List[str]:
        out: List[str] = []
        todo = list(self.bases.get(cls, []))
        while todo:
            b = todo.pop(0)
            if b in self.bases and b not in out and b != cls:
                out.append(b)
                todo += self.bases[b]
        return out

    def top(self, name: str) -> List[Entity]:
        return [e for e in self.entities if e.owner is None and e.name == name]

    def members(self, name: str, owner: Optional[str] = None) -> List[Entity]:
        return [e for e in self.entities if e.owner is not None and e.name == name and (owner is None or e.owner == owner)]

    def class_names(self) -> Set[str]:
        return {e.name for e in self.entities if e.kind in ("class", "enum")}

    def member_names(self) -> Set[str]:
        return {e.name for e in self.entities if e.owner is not None}

    def top_names(self) -> Set[str]:
        return {e.name for e in self.entities if e.owner is None}


# =========================================================================== parsing a report

#: one error of a report: (depth, location or None, message)
Entry = Tuple[int, Optional[Pos], str]


def parse_rendered(text: str, bullets: bool) -> List[Entry]:
    """
    The errors of a rendered report.  ``bullets``: the text is what ``write_error_report`` wrote after the headline
    (every error starts with ``* ``, its other lines are indented by two spaces); otherwise the text is one
    ``error_message``.  Underlying errors are indented by two spaces per level.  Continuation lines of a message that
    spans lines are returned as un-located entries (nothing is checked on them).
    """
    out: List[Entry] = []
    for line in text.split("\n"):
        if not line.strip():
            continue
        if bullets:
            if not (line.startswith("* ") or line.startswith("  ")):
                continue  # the headline
            line = line[2:]
        stripped = line.lstrip(" ")
        depth = (len(line) - len(stripped)) // 2
        m = LOC_RE.match(stripped)
        if m:
            out.append((depth, (int(m.group(1)), int(m.group(2))), stripped[m.end():]))
        else:
            out.append((depth, None, stripped))
    return out


# =========================================================================== the entity rule

_QUOTED = re.compile(r"'([A-Za-z_][A-Za-z0-9_]*)'")
_WORD = re.compile(r"[A-Za-z_][A-Za-z0-9_]*")


def _named(ix: Index, msg: str) -> Tuple[Set[str], Set[str], Set[str]]:
    """(class names, other top-level names, member names) that the message names."""
    quoted = set(_QUOTED.findall(msg))
    words = set(_WORD.findall(msg))
    classes = (quoted | words) & ix.class_names()  # class names are also written without quotes
    tops = quoted & (ix.top_names() - ix.class_names())
    members = quoted & ix.member_names()
    return classes, tops, members


def about(ix: Index, msg: str, context_classes: Set[str]) -> Tuple[List[Entity], List[Entity]]:
    """
    ``(at, inside)``: the constructs an error with this message may be located AT, and the constructs INSIDE whose text
    an underlying error may be located.  Empty lists: the message names nothing that the text defines.
    """
    classes, tops, members = _named(ix, msg)
    owners = classes or context_classes
    at: List[Entity] = []
    if members:
        for m in sorted(members):
            if owners:
                found: List[Entity] = []
                for c in sorted(owners):
                    for k in [c] + ix.ancestors(c):
                        found += ix.members(m, k)
                    if not ix.members(m, c):
                        # not written in the class itself (inherited, or a synthesized constructor): the class stands for it
                        found += [e for e in ix.top(c) if e.kind in ("class", "enum")]
                at += found
            else:
                at += ix.members(m)
    if not at:
        for c in sorted(classes):
            at += ix.top(c)
        for t in sorted(tops):
            at += ix.top(t)
    inside = list(at)
    for e in at:
        if e.kind == "class":
            for a in ix.ancestors(e.name):
                inside += [x for x in ix.top(a) if x.kind == "class"]
    return at, inside


def _at_quoted_part(ix: "Index", at: Sequence["Entity"], loc: Pos, msg: str) -> bool:
    """The error is located at the first character of a PART of a named construct whose own text the message quotes
    (e.g. the literal ``18446744073709551616`` of a constant set: "The literal 18446744073709551616 of the constant set …"):
    that part is the offending construct, and it lies inside what the message names."""
    for e in at:
        if not (e.first <= loc[0] <= e.last):
            continue
        for n in ast.walk(e.node):
            if getattr(n, "lineno", None) == loc[0] and hasattr(n, "col_offset") and _char_col(ix.lines, n.lineno, n.col_offset) + 1 == loc[1]:
                seg = ast.get_source_segment(ix.src, n)
                if seg and len(seg) >= 1 and (seg in msg or ast.unparse(n) in msg):
                    return True
    return False


def judge_entities(ix: Index, entries: Sequence[Entry]) -> List[Tuple[str, str]]:
    """The entity rule on the errors of one report (in rendering order)."""
    stack: List[Tuple[int, List[Entity], Set[str]]] = []  # (depth, inside-constructs, classes named) of the errors above
    for depth, loc, msg in entries:
        while stack and stack[-1][0] >= depth:
            stack.pop()
        context = next((c for _, _, c in reversed(stack) if c), set())
        at, inside = about(ix, msg, context)
        classes = _named(ix, msg)[0]
        if loc is not None:
            if at:
                if depth == 0:
                    if not any(loc in e.starts for e in at) and not _at_quoted_part(ix, at, loc, msg):
                        where = enclosing(ix, loc[0])
                        return [(
                            "C04:generator:located-at-another-construct",
                            f"the error {msg[:90]!r} is reported at line {loc[0]} and column {loc[1]}"
                            f"{' (inside ' + repr(where) + ')' if where else ''}; it names {sorted({repr(e) for e in at})[:4]}, which start at {sorted({p for e in at for p in e.starts})[:6]}",
                        )]
                elif not any(e.first <= loc[0] <= e.last for e in inside):
                    return [(
                        "C04:generator:located-outside-the-named-construct",
                        f"the underlying error {msg[:90]!r} is reported at line {loc[0]} and column {loc[1]}, outside of {sorted({repr(e) for e in inside})[:4]}",
                    )]
            else:
                above = next((ins for _, ins, _ in reversed(stack) if ins), None)
                if above is not None and not any(e.first <= loc[0] <= e.last for e in above):
                    return [(
                        "C04:generator:located-outside-the-named-construct",
                        f"the underlying error {msg[:90]!r} is reported at line {loc[0]} and column {loc[1]}, outside of {sorted({repr(e) for e in above})[:4]} named by the error above it",
                    )]
        stack.append((depth, inside, classes))
    return []


def enclosing(ix: Index, line: int) -> Optional[Entity]:
    best: Optional[Entity] = None
    for e in ix.entities:
        if e.first <= line <= e.last and (best is None or (e.last - e.first) < (best.last - best.first)):
            best = e
    return best


# =========================================================================== designed expectations: errors_if_* helpers

CONTRACTS = ("require", "ensure", "snapshot")

#: one expected error: (message, admissible positions, may be un-located)
Expected = Tuple[str, Set[Pos], bool]


def _nested_list(ann: Optional[ast.AST]) -> bool:
    """``List[List[..]]`` anywhere (``Optional`` between the lists does not matter)."""

    def strip_optional(a: ast.AST) -> ast.AST:
        while isinstance(a, ast.Subscript) and isinstance(a.value, ast.Name) and a.value.id == "Optional":
            a = a.slice
        return a

    if ann is None:
        return False
    a = strip_optional(ann)
    if isinstance(a, ast.Subscript) and isinstance(a.value, ast.Name) and a.value.id == "List":
        inner = strip_optional(a.slice)
        if isinstance(inner, ast.Subscript) and isinstance(inner.value, ast.Name) and inner.value.id == "List":
            return True
        return _nested_list(a.slice)
    return False


def expected_helper_errors(ix: Index) -> Dict[str, List[Expected]]:
    """
    What the three helpers have to report for the text, as documented in their docstrings:

    * contracts: every verification function, method (own or inherited) and constructor that is not implementation
      specific and has a pre-condition, post-condition or snapshot; a constructor inherits the post-conditions and
      snapshots (not the pre-conditions) of the constructors of its ancestors;
    * methods: every method (own or inherited) of a class that is not implementation specific;
    * nested lists: every own property, own method and verification function with a list of lists.
    """
    out: Dict[str, List[Expected]] = {"contracts": [], "methods": [], "nested_lists": []}
    fns = [e for e in ix.entities if e.kind == "function" and "verification" in _deco_names(e.node)]
    for f in fns:
        decos = _deco_names(f.node)
        if "implementation_specific" not in decos and any(d in CONTRACTS for d in decos):
            out["contracts"].append((f"Pre-condition, snapshot or post-condition defined for {f.name!r}", set(f.starts), False))
        args = f.node.args.args  # type: ignore
        if any(_nested_list(a.annotation) for a in args) or _nested_list(f.node.returns):  # type: ignore
            out["nested_lists"].append((f"The verification function {f.name!r} takes or returns a list of lists", set(f.starts), False))
    classes = [e for e in ix.entities if e.kind == "class" and not any(b in ("str", "int", "float", "bool", "bytearray") for b in ix.bases[e.name])]
    for c in classes:
        lineage = [c.name] + ix.ancestors(c.name)
        seen: Set[int] = set()
        for k in lineage:
            for me in [e for e in ix.entities if e.owner == k and e.kind == "method"]:
                if id(me) in seen:
                    continue
                seen.add(id(me))
                decos = _deco_names(me.node)
                if "implementation_specific" not in decos:
                    out["methods"].append((f"Method {me.name!r} of class {c.name!r} is not implementation-specific", set(me.starts), False))
                    if any(d in CONTRACTS for d in decos):
                        out["contracts"].append((f"Pre-condition, snapshot or post-condition defined for {me.name!r}", set(me.starts), False))
        own_init = ix.members("__init__", c.name)
        inits = {k: ix.members("__init__", k) for k in lineage}
        own_contract = bool(own_init) and any(d in CONTRACTS for d in _deco_names(own_init[0].node))
        giving = [k for k in lineage[1:] if inits[k] and any(d in ("ensure", "snapshot") for d in _deco_names(inits[k][0].node))]
        if own_contract or giving:
            if own_init:
                out["contracts"].append(("Pre-condition, snapshot or post-condition defined for '__init__'", set(own_init[0].starts), False))
            else:
                # the constructor is not written anywhere: un-located, or at its class, or at a constructor it inherits from
                pos = set(c.starts)
                for k in giving:
                    pos |= inits[k][0].starts
                out["contracts"].append(("Pre-condition, snapshot or post-condition defined for '__init__'", pos, True))
        for p in [e for e in ix.entities if e.owner == c.name and e.kind == "property"]:
            if _nested_list(p.node.annotation):  # type: ignore
                out["nested_lists"].append((f"The property {p.name!r} of the class {c.name!r} is a list of lists", set(p.starts), False))
        for me in [e for e in ix.entities if e.owner == c.name and e.kind == "method"]:
            args = me.node.args.args  # type: ignore
            if any(_nested_list(a.annotation) for a in args) or _nested_list(me.node.returns):  # type: ignore
                out["nested_lists"].append((f"The method {me.name!r} of the class {c.name!r} takes or returns a list of lists", set(me.starts), False))
    return out


def judge_expected(entries: Sequence[Entry], expected: Sequence[Expected]) -> Tuple[bool, List[Tuple[str, str]]]:
    """
    ``(comparable, failures)``: the top-level errors of a report against the designed expectation.  The messages are
    compared as multisets by their beginning (the nested-list message of a property ends with the rendered type);
    ``comparable`` is False when they differ (which errors are reported is not a matter of C04).  For every message the
    reported locations must be assignable one-to-one to the expected errors.
    """
    top = [(loc, msg) for depth, loc, msg in entries if depth == 0]
    groups: Dict[str, List[Tuple[Set[Pos], bool]]] = {}
    for msg, pos, may_be_unlocated in expected:
        groups.setdefault(msg, []).append((pos, may_be_unlocated))
    got: Dict[str, List[Optional[Pos]]] = {}
    for loc, msg in top:
        key = next((k for k in groups if msg.startswith(k)), None)
        if key is None:
            return False, []
        got.setdefault(key, []).append(loc)
    if {k: len(v) for k, v in groups.items()} != {k: len(v) for k, v in got.items()}:
        return False, []
    for msg, exp in groups.items():
        locs = got[msg]

        def fits(loc: Optional[Pos], e: Tuple[Set[Pos], bool]) -> bool:
            # an error without a location states nothing about a position (C04 speaks about the located errors)
            return True if loc is None else loc in e[0]

        # a one-to-one assignment (bipartite matching, augmenting paths)
        match_of: Dict[int, int] = {}

        def augment(i: int, seen: Set[int]) -> bool:
            for j, e in enumerate(exp):
                if j in seen or not fits(locs[i], e):
                    continue
                seen.add(j)
                if j not in match_of or augment(match_of[j], seen):
                    match_of[j] = i
                    return True
            return False

        for i in range(len(locs)):
            if not augment(i, set()):
                loc = locs[i]
                return True, [(
                    "C04:generator:located-at-another-construct",
                    f"{len(locs)} errors {msg!r} are reported at {locs}; the offending constructs are at "
                    f"{[(sorted(e[0])[:3], 'or un-located' if e[1] else '') for e in exp]}: the location {loc} belongs to another offender or to no offender",
                )]
    return True, []


# =========================================================================== the meta-models (seed independent)

_DOC = '"""Represent something."""'


def _fn(indent: str, name: str, decorators: Sequence[str], args: str, returns: str, body: Sequence[str], doc: str = "Do something.") -> str:
    lines = [f"{indent}@{d}" for d in decorators]
    lines.append(f"{indent}def {name}({args}) -> {returns}:")
    lines.append(f'{indent}    """{doc}"""')
    lines += [f"{indent}    {b}" for b in body]
    return "\n".join(lines) + "\n"


_METHOD_KINDS = {
    # kind: (decorators, body) -- "understood" methods have a body the front end understands
    "understood": ([], ["return 3"]),
    "understood+require": (["require(lambda self: True)"], ["return 3"]),
    "understood+ensure": (["ensure(lambda self, result: result > 0)"], ["return 3"]),
    "specific": (["implementation_specific"], []),
    "specific+require": (["implementation_specific", "require(lambda self: True)"], []),
}

_INIT_KINDS = {
    "plain": [],
    "ensure": ["ensure(lambda self: True)"],
    "require": ["require(lambda self: True)"],
    "snapshot": ['snapshot(lambda self: 1, name="one")', "ensure(lambda self, OLD: OLD.one == 1)"],
}


def render_class(name: str, parent: Optional[str], init: Optional[str], methods: Sequence[Tuple[str, str]], props: Sequence[Tuple[str, str]] = (),
                 inherited_args: Sequence[Tuple[str, str]] = (), abstract: bool = False, members_first: bool = False, invariants: Sequence[str] = ()) -> str:
    """
    One class.  ``init``: None (no ``__init__`` in the text) or a key of ``_INIT_KINDS``; ``methods``: ``(name, kind)``;
    ``props``: ``(name, type)``; ``inherited_args``: the constructor arguments of the parent; ``members_first``: the
    methods stand before ``__init__``.
    """
    out = [f"@{d}" for d in invariants]
    if abstract:
        out.append("@abstract")
    out.append(f"class {name}({parent + ', ' if parent else ''}DBC):")
    out.append(f'    """Represent {name}."""')
    out.append("")
    for pn, pt in props:
        out += [f"    {pn}: {pt}", f'    """Hold {pn}."""', ""]
    blocks: List[str] = []
    for mn, mk in methods:
        decos, body = _METHOD_KINDS[mk]
        blocks.append(_fn("    ", mn, decos, "self", "int", body, doc=f"Compute {mn}."))
    if init is not None:
        args = list(inherited_args) + list(props)
        # the arguments without a default first; an optional argument defaults to None
        args = [x for x in args if not x[1].startswith("Optional[")] + [x for x in args if x[1].startswith("Optional[")]
        sig = ", ".join(["self"] + [f"{a}: {t}" + (" = None" if t.startswith("Optional[") else "") for a, t in args])
        body = []
        if inherited_args:
            body.append(f"{parent}.__init__(self, {', '.join(a for a, _ in inherited_args)})")
        body += [f"self.{a} = {a}" for a, _ in props]
        lines = [f"    @{d}" for d in _INIT_KINDS[init]]
        lines.append(f"    def __init__({sig}) -> None:")
        lines += [f"        {b}" for b in (body or ["pass"])]
        ctor = "\n".join(lines) + "\n"
        blocks = blocks + [ctor] if members_first else [ctor] + blocks
    if not blocks and not props:
        out.pop()  # no blank line after the docstring of an empty class
    return "\n".join(out) + ("\n" if blocks else "") + "\n".join(blocks) + ("\n" if not blocks else "")


def verification_function(name: str, kind: str, arg_type: str = "str") -> str:
    """``kind``: plain | contract | specific+contract | specific."""
    decos = ["verification"]
    body = ["return len(text) > 3"] if arg_type == "str" else ["return len(text) > 3"]
    if kind.startswith("specific"):
        decos.append("implementation_specific")
        body = []
    if kind.endswith("contract"):
        decos.append("require(lambda text: len(text) > 0)")
    return _fn("", name, decos, f"text: {arg_type}", "bool", body, doc=f"Check {name}.")


def assemble(pieces: Sequence[str], comment_first: bool = False) -> str:
    front = "# a comment é\n\n" if comment_first else ""
    return front + '"""Provide a meta-model."""\n' + HEADER + "\n\n".join(p.rstrip("\n") + "\n" for p in pieces) + FOOTER


#: the descendants of the parent in source order; every item: (class kind, method kind or None)
#: leaf = no ``__init__`` in the text (synthesized constructor); child = own property and own ``__init__``;
#: grand = a class without ``__init__`` below the class before it; other = an unrelated class with a constructor contract
KID_PATTERNS: List[Tuple[Tuple[str, Optional[str]], ...]] = [
    (("leaf", None),),
    (("leaf", "understood+require"),),
    (("child", None), ("leaf", None)),
    (("child+ensure", "understood+ensure"), ("leaf", "specific+require")),
    (("other", None), ("leaf", None)),
    (("leaf", "understood"), ("grand", "understood+require")),
    (("leaf", None), ("other", "understood+require"), ("grand", None)),
    (("child", "understood+require"), ("leaf", None), ("leaf", "understood+ensure")),
    (("child+nested", None), ("leaf", "understood")),
]


def signature_models(thorough: bool) -> List[Tuple[str, str]]:
    """
    ``(id, source)``: contracts on constructors (own, inherited by a synthesized constructor, on an unrelated class),
    methods (understood / implementation specific, with / without contract, own / inherited) and verification functions,
    lists of lists — several offenders in sequence, with and without a node of their own.
    """
    out: List[Tuple[str, str]] = []
    k = 0
    for pinit in ("ensure", "require", "snapshot", "plain"):
        for pmeth in (None, "understood", "understood+require", "specific+require"):
            for pi, kids in enumerate(KID_PATTERNS):
                for vfn in ("none", "contract", "specific+contract", "two"):
                    k += 1
                    must = pinit in ("ensure", "snapshot") and pmeth in (None, "understood+require") and vfn in ("none", "contract")
                    if not thorough and not (must and (k + pi) % 2 == 0) and k % 9 != 0:
                        continue
                    pieces: List[str] = []
                    if vfn in ("contract", "two"):
                        pieces.append(verification_function("is_first", "contract"))
                    if vfn == "specific+contract":
                        pieces.append(verification_function("is_first", "specific+contract"))
                    pieces.append(render_class("Parent", None, pinit, [("do_it", pmeth)] if pmeth else [], abstract=True, members_first=(k % 2 == 0)))
                    last_leaf = "Parent"
                    n_leaf = n_child = n_other = n_grand = 0
                    for kind, mk in kids:
                        if kind == "leaf":
                            n_leaf += 1
                            last_leaf = f"Leaf_{n_leaf}"
                            pieces.append(render_class(last_leaf, "Parent", None, [(f"leaf_{n_leaf}_m", mk)] if mk else []))
                        elif kind == "grand":
                            n_grand += 1
                            pieces.append(render_class(f"Grand_{n_grand}", last_leaf, None, [(f"grand_{n_grand}_m", mk)] if mk else []))
                        elif kind.startswith("child"):
                            n_child += 1
                            ptype = "List[List[str]]" if kind == "child+nested" else "str"
                            pieces.append(render_class(
                                f"Child_{n_child}", "Parent", "ensure" if kind == "child+ensure" else "plain",
                                [(f"child_{n_child}_m", mk)] if mk else [], props=[(f"val_{n_child}", ptype)], members_first=(k % 3 == 0)))
                        elif kind == "other":
                            n_other += 1
                            pieces.append(render_class(f"Other_{n_other}", None, "require", [(f"other_{n_other}_m", mk)] if mk else [], props=[("size", "int")], members_first=(k % 2 == 1)))
                    if vfn == "two":
                        pieces.append(verification_function("is_last", "contract"))
                    out.append((f"signatures|parent-init={pinit}|parent-method={pmeth}|kids={pi}|functions={vfn}", assemble(pieces, comment_first=(k % 4 == 0))))
    return out


def nested_list_models() -> List[Tuple[str, str]]:
    """Lists of lists in properties, methods and verification functions; several per class, own and inherited."""
    out = []
    for variant in range(4):
        pieces = []
        if variant % 2 == 0:
            pieces.append(_fn("", "is_square", ["verification", "implementation_specific"], "rows: List[List[int]]", "bool", [], doc="Check the rows."))
        pieces.append(render_class("Parent", None, "plain", [], props=[("plain", "str"), ("matrix", "List[List[str]]")] if variant < 2 else [("plain", "str"), ("matrix", "Optional[List[List[int]]]")], abstract=True))
        pieces.append(render_class("Child", "Parent", "plain", [], props=[("cube", "List[List[List[int]]]"), ("flat", "List[str]")],
                                   inherited_args=[("plain", "str"), ("matrix", "List[List[str]]")] if variant < 2 else [("plain", "str"), ("matrix", "Optional[List[List[int]]]")]))
        if variant % 2 == 1:
            pieces.append(_fn("", "is_cube", ["verification", "implementation_specific"], "text: str", "List[List[bool]]", [], doc="Check the cube."))
        pieces.append(render_class("Other", None, "plain", [], props=[("flat", "List[str]")] + ([("grid", "List[List[str]]")] if variant >= 2 else [])))
        out.append((f"nested-lists|{variant}", assemble(pieces, comment_first=(variant == 3))))
    return out


def collision_models() -> List[Tuple[str, str]]:
    """Names that collide in the code of the targets (``verify_for_types``): classes, literals, properties, methods — several at once."""
    enum = 'class Kind(Enum):\n    """Represent a kind."""\n\n    Some_literal = "a"\n    Some_Literal = "b"\n    Other_literal = "c"\n    Other_Literal = "d"\n'
    thing = (
        'class Some_thing(DBC):\n    """Represent a thing."""\n\n    some_prop: str\n    """Hold a value."""\n\n    some_Prop: int\n    """Hold a value."""\n\n    other: str\n    """Hold a value."""\n\n'
        "    def __init__(self, some_prop: str, some_Prop: int, other: str) -> None:\n        self.some_prop = some_prop\n        self.some_Prop = some_Prop\n        self.other = other\n\n"
        '    @implementation_specific\n    def some_Method_x(self) -> str:\n        """Compute something."""\n\n    @implementation_specific\n    def some_method_X(self) -> str:\n        """Compute something."""\n'
    )

    def plain(name: str, parent: Optional[str] = None) -> str:
        return render_class(name, parent, "plain", [], props=[("val", "str")]) if parent is None else render_class(name, parent, None, [])

    out = [
        ("collisions|all", assemble([enum, thing, plain("Some_Thing"), plain("Good"), plain("SomeThing")])),
        ("collisions|classes-only", assemble([plain("Good"), plain("Some_thing"), plain("Other_one"), plain("Some_Thing"), plain("Other_One")], comment_first=True)),
        ("collisions|members-only", assemble([plain("Good"), thing, enum])),
    ]
    return out


_UNRENDERABLE = "Represent ``a`b`` something."
_PLAIN = "Represent something."


def description_model(positions: Sequence[str]) -> str:
    """A description which five SDK generators can not render (a backtick inside an inline literal), at the given positions."""

    def d(pos: str) -> str:
        return _UNRENDERABLE if pos in positions else _PLAIN

    pieces = [
        f'class Kind(Enum):\n    """{d("enumeration")}"""\n\n    First = "first"\n    """{d("literal-1")}"""\n\n    Second = "second"\n    """{d("literal-2")}"""\n',
        f'@invariant(\n    lambda self: len(self) > 0,\n    "Some constraint.",\n)\nclass Limit(str, DBC):\n    """{d("constrained-primitive")}"""\n',
        f'@verification\n@implementation_specific\ndef is_fine(text: str) -> bool:\n    """{d("function")}"""\n',
        f'class Thing(DBC):\n    """{d("class")}"""\n\n    limit: Limit\n    """{d("property-1")}"""\n\n    size: int\n    """{d("property-2")}"""\n\n'
        "    def __init__(self, limit: Limit, size: int) -> None:\n        self.limit = limit\n        self.size = size\n\n"
        f'    @implementation_specific\n    def compute(self) -> str:\n        """{d("method-1")}"""\n\n    @implementation_specific\n    def compute_more(self) -> str:\n        """{d("method-2")}"""\n',
        f'class Other(DBC):\n    """{d("class-2")}"""\n\n    width: int\n    """{d("property-3")}"""\n\n    def __init__(self, width: int) -> None:\n        self.width = width\n',
        f'Some_text: str = constant_str(\n    value="x",\n    description="{d("constant")}",\n)\n',
        f'Some_texts: Set[str] = constant_set(\n    values=["x", "y"],\n    description="{d("constant-set")}",\n)\n',
        f'Some_kinds: Set[Kind] = constant_set(\n    values=[Kind.First],\n    description="{d("constant-set-of-literals")}",\n)\n',
    ]
    return f'"""{d("meta-model")}"""\n' + HEADER + "\n\n".join(pieces) + FOOTER


DESCRIPTION_POSITIONS = [
    "enumeration", "literal-1", "literal-2", "constrained-primitive", "function", "class", "property-1", "property-2", "method-1", "method-2",
    "class-2", "property-3", "constant", "constant-set", "constant-set-of-literals",
]


def description_models(thorough: bool) -> List[Tuple[str, str]]:
    out = [(f"descriptions|{p}", description_model([p])) for p in DESCRIPTION_POSITIONS]
    pairs = list(itertools.combinations(DESCRIPTION_POSITIONS, 2))
    for k, ps in enumerate(pairs):
        if thorough or k % 7 == 0:
            out.append((f"descriptions|{'+'.join(ps)}", description_model(ps)))
    out.append(("descriptions|all", description_model(DESCRIPTION_POSITIONS)))
    out.append(("descriptions|all-second", description_model([p for p in DESCRIPTION_POSITIONS if p.endswith("-2") or p.endswith("-3")])))
    return out


def transpilation_models() -> List[Tuple[str, str]]:
    """Stacked and inherited invariants / verification functions / constants that some target can not transpile."""
    inv = [
        'invariant(lambda self: len(self.blob) > 0, "Blob is not empty.")',
        'invariant(lambda self: len(self.name) > 0, "Name is not empty.")',
        'invariant(lambda self: len(self.blob) < 10, "Blob is short.")',
    ]
    parent = render_class("Parent", None, "plain", [], props=[("blob", "bytearray"), ("name", "str")], invariants=inv)
    child = render_class("Child", "Parent", "plain", [], props=[("other", "bytearray")], inherited_args=[("blob", "bytearray"), ("name", "str")],
                         invariants=['invariant(lambda self: len(self.other) > 1, "Other is not empty.")'])
    grand = render_class("Grand", "Child", "plain", [], props=[("more", "str")], inherited_args=[("blob", "bytearray"), ("name", "str"), ("other", "bytearray")],
                         invariants=['invariant(lambda self: len(self.more) > 1, "More is not empty.")', 'invariant(lambda self: len(self.other) < 9, "Other is short.")'])
    plain = render_class("Plain", None, "plain", [], props=[("width", "int")], invariants=['invariant(lambda self: self.width > 1, "Width is fine.")'])
    local_fn = '@verification\ndef is_long(text: str) -> bool:\n    """Check the length."""\n    size = len(text)\n    return size > 3\n'
    local_fn2 = '@verification\ndef is_short(text: str) -> bool:\n    """Check the length."""\n    size = len(text)\n    return size < 3\n'
    good_fn = '@verification\ndef is_fine(text: str) -> bool:\n    """Check the text."""\n    return len(text) > 3\n'
    big = 'Some_number: int = constant_int(\n    value=18446744073709551616,\n    description="Represent a big number.",\n)\n'
    fine = 'Fine_number: int = constant_int(\n    value=10,\n    description="Represent a number.",\n)\n'
    bigs = 'Some_numbers: Set[int] = constant_set(\n    values=[1, 9007199254740993, 18446744073709551616],\n    description="Represent big numbers.",\n)\n'
    big2 = 'Other_number: int = constant_int(\n    value=36893488147419103232,\n    description="Represent a small number.",\n)\n'
    return [
        ("transpilation|stacked-invariants", assemble([plain, parent, child, grand])),
        ("transpilation|stacked-invariants-and-functions", assemble([local_fn, parent, good_fn, plain, child, local_fn2], comment_first=True)),
        ("transpilation|functions", assemble([good_fn, local_fn, plain, local_fn2])),
        ("transpilation|numbers", assemble([plain, fine, big, bigs, big2])),
        ("transpilation|numbers-sets-first", assemble([plain, bigs, fine, big2, big], comment_first=True)),
    ]


def all_models(thorough: bool) -> List[Tuple[str, str]]:
    return signature_models(thorough) + nested_list_models() + collision_models() + description_models(thorough) + transpilation_models()
