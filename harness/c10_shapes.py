"""
C10 — the seed-independent VALUE-SHAPE matrix (strengthening round s10b).

The Python generators decide *by the type of a property* how it is written and read (``_generate_transform`` and the
``_generate_setter`` family of ``_generate_jsonization.py``, ``_generate_write_*`` / ``_generate_reader_and_setter`` of
``_generate_xmlization.py``): one branch per (atom type × wrapping).  The project admits exactly four wrappings (no nested
lists, no lists of optionals): ``A``, ``Optional[A]``, ``List[A]``, ``Optional[List[A]]``.  This module spells out the whole
product for every atom family:

* ``fixed:shapes-prims``        the five primitives,
* ``fixed:shapes-constrained``  a constrained primitive over each primitive,
* ``fixed:shapes-chains``       a chain of two constrained primitives over each primitive,
* ``fixed:shapes-ours``         an enumeration (incl. an empty literal value), a concrete class, a concrete class with
                                ``with_model_type``, an abstract class with descendants, a concrete class with a
                                descendant; plus ``Chunk_holder`` for the XML documents larger than one ``iterparse`` chunk.

Every atom ``a`` gets ``Holder_<a>(req: A, opt: Optional[A], items: List[A], opt_items: Optional[List[A]])`` and the class
``Nest`` holds ``Optional[List[Holder_<a>]]`` for every atom (the same positions nested in a class held in a list).

Instances are enumerated (no randomness): one / none / several items, every boundary value of the atom's menu at every
position.  Nothing here looks at the code under test; the meta-models are plain source texts.
"""
from __future__ import annotations

from typing import Any, Dict, Iterator, List, Optional, Tuple

PRIMS = ["bool", "int", "float", "str", "bytes"]
PY_PRIM = {"bool": "bool", "int": "int", "float": "float", "str": "str", "bytes": "bytearray"}

ENUM_AND_CLASSES = '''\
class Color(Enum):
    Red = "RED"
    Dark_green = "dark green"
    Empty = ""


class Leaf(DBC):
    label: str
    blob: Optional[bytearray]

    def __init__(self, label: str, blob: Optional[bytearray] = None) -> None:
        self.label = label
        self.blob = blob


@serialization(with_model_type=True)
class Tagged_leaf(DBC):
    tag: Optional[str]

    def __init__(self, tag: Optional[str] = None) -> None:
        self.tag = tag


@abstract
@serialization(with_model_type=True)
class Shape(DBC):
    label: str

    def __init__(self, label: str) -> None:
        self.label = label


class Circle(Shape):
    radius: float

    def __init__(self, label: str, radius: float) -> None:
        Shape.__init__(self, label=label)
        self.radius = radius


class Square(Shape):
    side: int
    color: Optional["Color"]

    def __init__(self, label: str, side: int, color: Optional["Color"] = None) -> None:
        Shape.__init__(self, label=label)
        self.side = side
        self.color = color


@serialization(with_model_type=True)
class Base_thing(DBC):
    some_int: int

    def __init__(self, some_int: int) -> None:
        self.some_int = some_int


class Derived_thing(Base_thing):
    some_bytes: bytearray

    def __init__(self, some_int: int, some_bytes: bytearray) -> None:
        Base_thing.__init__(self, some_int=some_int)
        self.some_bytes = some_bytes


class Chunk_holder(DBC):
    pad: str
    s: Optional[str]
    b: Optional[bytearray]
    e: Optional["Color"]
    i: Optional[int]
    f: Optional[float]
    t: Optional[bool]
    strs: Optional[List[str]]
    blobs: Optional[List[bytearray]]
    colors: Optional[List["Color"]]
    leaf: Optional["Leaf"]
    shape: Optional["Shape"]
    tail_pad: Optional[str]

    def __init__(
        self,
        pad: str,
        s: Optional[str] = None,
        b: Optional[bytearray] = None,
        e: Optional["Color"] = None,
        i: Optional[int] = None,
        f: Optional[float] = None,
        t: Optional[bool] = None,
        strs: Optional[List[str]] = None,
        blobs: Optional[List[bytearray]] = None,
        colors: Optional[List["Color"]] = None,
        leaf: Optional["Leaf"] = None,
        shape: Optional["Shape"] = None,
        tail_pad: Optional[str] = None,
    ) -> None:
        self.pad = pad
        self.s = s
        self.b = b
        self.e = e
        self.i = i
        self.f = f
        self.t = t
        self.strs = strs
        self.blobs = blobs
        self.colors = colors
        self.leaf = leaf
        self.shape = shape
        self.tail_pad = tail_pad
'''


def _holder(atom: str, type_text: str) -> str:
    t = type_text
    return f'''\
class Holder_{atom}(DBC):
    req: {t}
    opt: Optional[{t}]
    items: List[{t}]
    opt_items: Optional[List[{t}]]

    def __init__(self, req: {t}, items: List[{t}], opt: Optional[{t}] = None, opt_items: Optional[List[{t}]] = None) -> None:
        self.req = req
        self.opt = opt
        self.items = items
        self.opt_items = opt_items
'''


def _nest(atoms: List[str]) -> str:
    lines = ["class Nest(DBC):"]
    for a in atoms:
        lines.append(f'    held_{a}: Optional[List["Holder_{a}"]]')
    lines.append("")
    args = ", ".join(f'held_{a}: Optional[List["Holder_{a}"]] = None' for a in atoms)
    lines.append(f"    def __init__(self, {args}) -> None:")
    for a in atoms:
        lines.append(f"        self.held_{a} = held_{a}")
    return "\n".join(lines) + "\n"


class ShapeModel:
    """One meta-model of the matrix: ``atoms`` maps the atom name to (type text in the meta-model, value family)."""

    def __init__(self, label: str, body: str, atoms: List[Tuple[str, str, str]]) -> None:
        self.label = label
        self.atoms = atoms
        parts = [body] if body else []
        for atom, type_text, _ in atoms:
            parts.append(_holder(atom, type_text))
        parts.append(_nest([a for a, _, _ in atoms]))
        self.body = "\n\n".join(parts)


def shape_models() -> List[ShapeModel]:
    prims = ShapeModel("fixed:shapes-prims", "", [(p, PY_PRIM[p], p) for p in PRIMS])
    decls = [f"class C_{p}({PY_PRIM[p]}, DBC):\n    pass\n" for p in PRIMS]
    constrained = ShapeModel("fixed:shapes-constrained", "\n\n".join(decls), [(f"c_{p}", f'"C_{p}"', p) for p in PRIMS])
    # a chain of two constrained primitives; the inner one carries an invariant (serialization must not care)
    decls2 = []
    for p in PRIMS:
        inv = '@invariant(lambda self: len(self) >= 0, "Length is not negative")\n' if p in ("str", "bytes") else ""
        decls2.append(f"{inv}class C_{p}({PY_PRIM[p]}, DBC):\n    pass\n")
        decls2.append(f"class CC_{p}(C_{p}, DBC):\n    pass\n")
    chains = ShapeModel("fixed:shapes-chains", "\n\n".join(decls2), [(f"cc_{p}", f'"CC_{p}"', p) for p in PRIMS])
    ours = ShapeModel(
        "fixed:shapes-ours",
        ENUM_AND_CLASSES,
        [("color", '"Color"', "enum:Color"), ("leaf", '"Leaf"', "cls:Leaf"), ("tagged", '"Tagged_leaf"', "cls:Tagged"),
         ("shape", '"Shape"', "cls:Shape"), ("base", '"Base_thing"', "cls:Base")],
    )
    return [prims, constrained, chains, ours]


# --------------------------------------------------------------------------- boundary values

#: (values every serialization must carry, values only JSON can carry)
INTS = [0, 1, -1, 2**31, 2**53 + 1, 2**63 - 1, 2**63, -(2**63), -(2**63) - 1, 10**30]
FLOATS = [0.0, -0.0, 1.5, 0.1, 1e16, 1e22, 5e-324, 1.7976931348623157e308, -2.5e-7, float("inf"), float("-inf"), float("nan")]
STRS_XML = ["", "a", " ", "  two  words  ", "\u00e9", "\U0001F600", "a\rb\r\nc\n", "<&>\"']]>", "\t\n", "\ud7ff\ue000\ufffd", "x\U00010000\U0010FFFFy", "true", "1", "&amp;&#13;"]
STRS_JSON_ONLY = ["\x00", "\x1f\x7f", "\ud800", "\udfff\ud800", "\ufffe\uffff"]
BYTES = [b"", b"\x00", b"\xff", b"ab", b"abc", b"\xfb\xff\xbe", bytes(range(256)), bytes(range(255, -1, -1)) * 2]


class Maker:
    """Builds SDK instances by META-MODEL names: the Python names are asked from the naming module of the tree under test
    (``Model.arg_name``, ``SDK.class_of`` / ``enum_of``), never spelled out here."""

    def __init__(self, sdk: Any, arg_name: Any) -> None:
        from aas_core_codegen.common import Identifier

        self.sdk = sdk
        self._arg = lambda n: arg_name(Identifier(n))

    def new(self, meta: str, **props: Any) -> Any:
        return self.sdk.class_of(meta)(**{self._arg(k): v for k, v in props.items()})

    def literals(self, meta: str) -> List[Any]:
        return list(self.sdk.enum_of(meta))


def atom_values(mk: Maker, family: str) -> Tuple[List[Any], List[Any]]:
    """(values XML and JSON carry, values only JSON carries) for an atom family; class values are fresh instances."""
    if family == "bool":
        return [True, False], []
    if family == "int":
        return list(INTS), []
    if family == "float":
        return list(FLOATS), []
    if family == "str":
        return list(STRS_XML), list(STRS_JSON_ONLY)
    if family == "bytes":
        return list(BYTES), []
    new = mk.new
    if family == "enum:Color":
        return mk.literals("Color"), []
    if family == "cls:Leaf":
        return [new("Leaf", label="", blob=None), new("Leaf", label="l\r", blob=b""), new("Leaf", label="\u00e9\U0001F600", blob=bytes(range(256)))], [new("Leaf", label="\x00")]
    if family == "cls:Tagged":
        return [new("Tagged_leaf", tag=None), new("Tagged_leaf", tag=""), new("Tagged_leaf", tag="Tagged")], []
    if family == "cls:Shape":
        c = mk.literals("Color")
        return [new("Circle", label="c", radius=-0.0), new("Square", label="", side=-(2**63), color=c[2]), new("Circle", label="nan", radius=float("nan")),
                new("Square", label="s", side=4)], []
    if family == "cls:Base":
        return [new("Base_thing", some_int=0), new("Derived_thing", some_int=2**63, some_bytes=b""), new("Derived_thing", some_int=-1, some_bytes=b"\xff\x00")], []
    raise ValueError(family)


def holder_instances(mk: Maker, holder: str, family: str) -> Iterator[Tuple[str, Any, bool]]:
    """(label, instance, representative for the mistyped-document stream)"""
    both, json_only = atom_values(mk, family)
    v0, v1 = both[0], both[1 % len(both)]

    def h(req: Any, opt: Any, items: List[Any], opt_items: Optional[List[Any]]) -> Any:
        return mk.new(holder, req=req, opt=opt, items=items, opt_items=opt_items)

    yield "rep", h(v0, v1, [v0, v1], [v1]), True
    for k, v in enumerate(both + json_only):
        yield f"one{k}", h(v, v, [v], [v]), False
    yield "none", h(v0, None, [], None), False
    yield "empty", h(v1, None, [], []), False
    yield "several", h(both[-1], v0, list(both), list(reversed(both))), False
    if json_only:
        yield "several-json", h(json_only[0], json_only[-1], both + json_only, list(json_only)), False


def model_instances(mk: Maker, sm: ShapeModel) -> Iterator[Tuple[str, str, Any, bool]]:
    """(declared class, label, instance, representative) over the whole matrix of one shape model."""
    for atom, _, family in sm.atoms:
        held = []
        for label, inst, is_rep in holder_instances(mk, f"Holder_{atom}", family):
            yield f"Holder_{atom}", f"{atom}:{label}", inst, is_rep
            if label in ("rep", "none", "several"):
                held.append(inst)
        yield "Nest", f"nest:{atom}:rep", mk.new("Nest", **{f"held_{atom}": [held[0]]}), True
        yield "Nest", f"nest:{atom}:several", mk.new("Nest", **{f"held_{atom}": held}), False
        yield "Nest", f"nest:{atom}:empty", mk.new("Nest", **{f"held_{atom}": []}), False
    yield "Nest", "nest:none", mk.new("Nest"), False
    yield "Nest", "nest:two-lists", mk.new("Nest", **{f"held_{a}": [next(holder_instances(mk, f"Holder_{a}", f))[1]] for a, _, f in sm.atoms[:2]}), False


# --------------------------------------------------------------------------- documents larger than one iterparse chunk

#: ``xml.etree.ElementTree.iterparse`` feeds the parser 16 KiB (CPython <= 3.12) or 64 KiB of *characters* at a time
CHUNK = 16 * 1024
BOUNDARIES = [CHUNK, 2 * CHUNK, 4 * CHUNK]


def chunk_targets(mk: Maker) -> List[Tuple[str, Dict[str, Any], str, int]]:
    """(name, properties besides ``pad``, local tag of the element that is to straddle the boundary, which occurrence)"""
    C = mk.literals("Color")
    return [
        ("str", {"s": "straddling text"}, "s", 0),
        ("str-escaped", {"s": "a\r&<\u00e9\U0001F600"}, "s", 0),
        ("str-empty", {"s": ""}, "s", 0),
        ("bytes", {"b": b"\x00\xffabc"}, "b", 0),
        ("bytes-empty", {"b": b""}, "b", 0),
        ("enum", {"e": C[1]}, "e", 0),
        ("enum-empty", {"e": C[2]}, "e", 0),
        ("int", {"i": -(2**63)}, "i", 0),
        ("float", {"f": 1.7976931348623157e308}, "f", 0),
        ("bool", {"t": True}, "t", 0),
        ("list-str", {"strs": ["first", "second item", ""]}, "v", 1),
        ("list-bytes", {"blobs": [b"", b"\xfb\xff", b"xyz"]}, "v", 1),
        ("list-enum", {"colors": [C[0], C[1], C[2], C[0]]}, "v", 1),
        ("nested-str", {"leaf": mk.new("Leaf", label="nested label", blob=b"q")}, "label", 0),
        ("nested-bytes", {"leaf": mk.new("Leaf", label="", blob=b"nested")}, "blob", 0),
        ("discriminated", {"shape": mk.new("Square", label="sq", side=7, color=C[1])}, "color", 0),
    ]


def chunk_offsets(span: int) -> List[int]:
    """Offsets (0 = the boundary falls right before the ``<`` of the start tag … span = right after the ``>`` of the end tag)."""
    if span <= 40:
        return list(range(0, span + 1))
    return sorted(set(list(range(0, 20)) + list(range(span - 20, span + 1)) + [span // 2, span // 3]))


def locate(xml: str, tag: str, occurrence: int) -> Tuple[int, int]:
    """(position of ``<``, length) of the ``occurrence``-th text element ``<tag>…</tag>`` (or ``<tag/>``) after ``</pad>``.
    Falls back to the 40 characters after the pad element when the writer under test emits something else."""
    import re

    start = max(0, xml.find("</pad>"))
    found = [m for m in re.finditer(r"<%s(?:>[^<]*</%s>|\s*/>)" % (re.escape(tag), re.escape(tag)), xml) if m.start() >= start]
    if occurrence < len(found):
        m = found[occurrence]
        return m.start(), m.end() - m.start()
    return start + 6, 40


def chunk_instances(mk: Maker, to_xml: Any, boundaries: Optional[List[int]] = None) -> Iterator[Tuple[str, Any, int]]:
    """(label, Chunk_holder instance, boundary) whose XML text has a chunk boundary at every offset of the target element."""
    tail = "t" * 300
    for name, props, tag, occurrence in chunk_targets(mk):
        probe = to_xml(mk.new("Chunk_holder", pad="", tail_pad=tail, **props))
        pos0, span = locate(probe, tag, occurrence)
        for boundary in boundaries or BOUNDARIES:
            for off in chunk_offsets(span):
                n = boundary - pos0 - off
                for fill in (("x",) if off % 4 else ("x", "\u00e9\U0001F600")):
                    pad = (fill * (n // len(fill) + 1))[:n]
                    yield f"{name}@{boundary}+{off}{'' if fill == 'x' else ':non-ascii'}", mk.new("Chunk_holder", pad=pad, tail_pad=tail, **props), boundary
    # texts longer than one chunk, lists crossing several boundaries
    yield "str-3-chunks", mk.new("Chunk_holder", pad="p", s="s\r\n" * 14000, tail_pad=tail), 0
    yield "bytes-3-chunks", mk.new("Chunk_holder", pad="p", b=bytes(range(256)) * 150, tail_pad=tail), 0
    C = mk.literals("Color")
    yield "lists-5-chunks", mk.new("Chunk_holder", pad="p", strs=["n%d" % k for k in range(2500)], blobs=[bytes([k % 256] * (k % 5)) for k in range(1500)],
                                   colors=[C[k % 3] for k in range(1500)], tail_pad=tail), 0
