import sys, pathlib, io, traceback
import aas_core_codegen.main as m
params = m.Parameters(model_path=pathlib.Path(sys.argv[1]), target=m.Target(sys.argv[2]), snippets_dir=pathlib.Path(sys.argv[3]), output_dir=pathlib.Path(sys.argv[4]))
out, err = io.StringIO(), io.StringIO()
try:
    rc = m.execute(params, out, err)
    print("rc", rc, "| out:", out.getvalue().strip(), "| err:", err.getvalue()[:600])
except BaseException as ex:
    print("CRASH", type(ex).__name__, str(ex)[:200].replace("\n"," "))
