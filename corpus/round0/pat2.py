@verification
def is_something(text: str) -> bool:
    pattern = f"^a^b$"
    return match(pattern, text) is not None


__version__ = "dummy"
__xml_namespace__ = "https://dummy.com"
