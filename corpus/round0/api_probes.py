from aas_core_codegen.common import wrap_text_into_lines as w
print(w("x a the word", 5))
print(w("the  word abcdef", 6))
print(w("the extraordinarily", 10))
from aas_core_codegen.infer_for_schema import _len as L
class N: pass
try:
    print(L._reduce_constraints([L._MinLength(N(),0), L._MaxLength(N(),5)]))
except Exception as e: print("CRASH", type(e).__name__)
r = L._reduce_constraints([L._ExactLength(N(),5), L._ExactLength(N(),5)]); print(r[1])
r = L._reduce_constraints([L._MaxLength(N(),-1)]); print(r[0], r[1])
import pathlib, tempfile, os
from aas_core_codegen import specific_implementations as si
d = pathlib.Path(tempfile.mkdtemp()); (d/".git").mkdir(); (d/".git"/"config").write_text("x"); (d/"a.txt").write_text("  hi \n")
print(si.read_from_directory(d))
from aas_core_codegen.python import common as pc, description as pd
from aas_core_codegen.common import Stripped
print(pd.docstring(Stripped('say "hi"')))
try: compile(pd.docstring(Stripped('say "hi"')), "x", "exec"); print("ok")
except SyntaxError as e: print("SYNTAXERR", e)
from aas_core_codegen.cpp import common as cc
print(cc.wstring_literal("\x01" + "1"), cc.wstring_literal("\x7f\xe9"))
from aas_core_codegen.golang import common as gc
print(gc.string_literal("\x01"))
from aas_core_codegen.parse import retree
from aas_core_codegen.intermediate import revm
for p in ['^a^b$', '^(a*)*$', '^a*?$']:
    r,e = retree.parse([p])
    try: print(p, revm.dump(revm.translate(r)).replace("\n"," | ")[:100])
    except BaseException as ex: print(p, "CRASH", type(ex).__name__)
