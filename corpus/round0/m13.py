@verification
def matches_star(text: str) -> bool:
    pattern = f"^a\\x2ab\\$$"
    return match(pattern, text) is not None


@invariant(lambda self: len(self.data) <= 4, "at most four bytes")
@invariant(lambda self: matches_star(self.s), "s matches")
class Something(DBC):
    data: bytearray
    s: str

    def __init__(self, data: bytearray, s: str) -> None:
        self.data = data
        self.s = s


__version__ = "dummy"
__xml_namespace__ = "https://dummy.com"
