@abstract
class A(DBC):
    a: int

    @require(lambda a: a > 0)
    def __init__(self, a: int) -> None:
        self.a = a


@abstract
@invariant(lambda self: self.b > 0, "b positive")
class B(A):
    b: int

    def __init__(self, a: int, b: int) -> None:
        A.__init__(self, a)
        self.b = b


@abstract
class C(A):
    c: int

    def __init__(self, a: int, c: int) -> None:
        A.__init__(self, a)
        self.c = c


class D(B, C):
    d: int

    def __init__(self, a: int, b: int, c: int, d: int) -> None:
        B.__init__(self, a, b)
        C.__init__(self, a, c)
        self.d = d


__version__ = "dummy"
__xml_namespace__ = "https://dummy.com"
