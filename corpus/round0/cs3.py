Something: Set[str] = constant_set(["a"], "Represent.", [])

__version__ = "dummy"
__xml_namespace__ = "https://dummy.com"
