@verification
def matches_it(text: str) -> bool:
    pattern = f"^(a*)*b$"
    return match(pattern, text) is not None


class Something(DBC):
    s: str

    def __init__(self, s: str) -> None:
        self.s = s


__version__ = "dummy"
__xml_namespace__ = "https://dummy.com"
