#include "aas_core/dummy/pattern.hpp"
#include "aas_core/dummy/revm.hpp"
#include <iostream>
int main(int argc, char** argv) {
  std::wstring s = L"aab";
  if (argc > 1) s = L"aac";
  bool r = aas_core::dummy::revm::Match(aas_core::dummy::pattern::kMatchesItProgram, s);
  std::cout << (r ? "match" : "no-match") << std::endl;
  return 0;
}
