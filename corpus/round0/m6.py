@invariant(lambda self: self.a is None or len(self.b) < 5, "b short if a")
@invariant(lambda self: all(x > 0 for x in self.xs if x != 7), "positive except seven")
class Something(DBC):
    a: Optional[str]
    b: str
    xs: List["Item"]
    some_URL: str
    some_url: str

    def __init__(self, b: str, xs: List["Item"], some_URL: str, some_url: str, a: Optional[str] = None) -> None:
        self.a = a
        self.b = b
        self.xs = xs
        self.some_URL = some_URL
        self.some_url = some_url


class Item(DBC):
    v: int

    def __init__(self, v: int) -> None:
        self.v = v


__version__ = "dummy"
__xml_namespace__ = "https://dummy.com"
