from enum import Enum
from re import match
from typing import List, Optional, Set

from icontract import invariant, DBC

from aas_core_meta.marker import (
    abstract,
    serialization,
    implementation_specific,
    verification,
    constant_set,
    non_mutating,
)


__version__ = "1"

__xml_namespace__ = "https://example.com/aasv/0/1"


@verification
def matches_kelp_amber(value: str) -> bool:
    pattern = "^[a-f0-9]b+$"
    return match(pattern, value) is not None


@verification
def matches_quartz(text: str) -> bool:
    body = f"([a-z]+-([^a-c]{{0,2}}-{{1,3}}x{{2,}}-|[a-f0-9]{{2,}}9[0-9]{{1,3}}x?|[a-z_]+[a-z_][^a-c][a-z_])-{{2,}})\\.[a-zA-Z0-9]{{2}}_$"
    pattern = f"^{body}"
    return match(pattern, text) is not None


@verification
def matches_grove_raven(text: str) -> bool:
    pattern = "^(([a-z_]{0,2}[0-9]+x)0|([^a-c]{2,}-a{2,}|-{1,3}){2}(\\.{2,}[a-z]{0,2}[a-f0-9][^a-c]|\\.*[a-f0-9]|\\.{2,}[a-f0-9]-)|0?\\.([a-zA-Z0-9]{1,3}b|[a-z]x[A-Z]{2}|[a-zA-Z0-9])0+)x[a-z_]$"
    return match(pattern, text) is not None


@verification
def is_nectar(text: str) -> bool:
    return text != "Some value"


@verification
@implementation_specific
def check_ember_iris(text: str) -> bool:
    """
    Check the :paramref:`text` in a way only the implementation knows.

    :param text: to be checked
    :returns: True if fine
    """
    raise NotImplementedError()


@invariant(lambda self: self.xenon_pearl is not None, "Constraint 10 of Yarrow")
@invariant(lambda self: len(self.cedar) > 0, "Constraint 9 of Yarrow")
@invariant(lambda self: self.xenon_pearl is not None, "Constraint 8 of Yarrow: a\\b")
class Yarrow(DBC):
    xenon_pearl: Optional[str]
    """
    Represent a property.

    This is a remark with *emphasis* and ``literal`` text.
    """

    cedar: str

    onyx: "Raven_cedar"
    """
    Represent a property.

    This is a remark with *emphasis* and ``literal`` text.
    """

    sable: float
    """Represent a property."""

    def __init__(self, cedar: str, onyx: "Raven_cedar", sable: float, xenon_pearl: Optional[str] = None) -> None:
        self.xenon_pearl = xenon_pearl
        self.cedar = cedar
        self.onyx = onyx
        self.sable = sable


@invariant(lambda self: not self.grove_cedar is None, "Constraint 1 of Jade: {x}")
@serialization(with_model_type=True)
class Jade(DBC):
    grove_cedar: Optional["Yarrow"]

    def __init__(self, grove_cedar: Optional["Yarrow"] = None) -> None:
        self.grove_cedar = grove_cedar


class Tulip_ember(Enum):
    """Represent an enumeration."""

    Lit_cedar = "Some value"
    """Represent a literal."""


@invariant(lambda self: not self.alpha_onyx or not self.alpha_onyx == False, "Constraint 4 of Raven_cedar")
@invariant(lambda self: not (self.grove_cedar is not None) or self.alpha_onyx != True, "Constraint 3 of Raven_cedar: a\\b")
@invariant(lambda self: not (self.dahlia is not None) or len(self.dahlia) > 1, "Constraint 2 of Raven_cedar")
@abstract
@serialization(with_model_type=True)
class Raven_cedar(Jade, DBC):
    alpha_onyx: bool
    """Represent a property."""

    alpha_coral: Optional[int]
    """Represent a property."""

    dahlia: Optional[List[bytearray]]
    """Represent a property."""

    ember_harbor: Optional[float]
    """
    Represent a property.

    This is a remark with *emphasis* and ``literal`` text.
    """

    def __init__(self, alpha_onyx: bool, grove_cedar: Optional["Yarrow"] = None, alpha_coral: Optional[int] = None, dahlia: Optional[List[bytearray]] = None, ember_harbor: Optional[float] = None) -> None:
        Jade.__init__(self, grove_cedar)
        self.alpha_onyx = alpha_onyx
        self.alpha_coral = alpha_coral
        self.dahlia = dahlia
        self.ember_harbor = ember_harbor


@invariant(lambda self: self.dahlia is not None and self.alpha_onyx == False, "Constraint 7 of Fjord_nectar")
@invariant(lambda self: (not self.alpha_onyx or self.alpha_onyx != False) and self.alpha_onyx, "Constraint 6 of Fjord_nectar")
@invariant(lambda self: self.dahlia is None or len(self.dahlia) == 2, "Constraint 5 of Fjord_nectar — né?")
@serialization(with_model_type=True)
class Fjord_nectar(Raven_cedar, DBC):
    """Represent a thing, see :class:`Raven_cedar`."""

    @implementation_specific
    def compute_sable_cedar(self) -> Optional[str]:
        """Compute something implementation-specific."""
        raise NotImplementedError()

    def __init__(self, alpha_onyx: bool, grove_cedar: Optional["Yarrow"] = None, alpha_coral: Optional[int] = None, dahlia: Optional[List[bytearray]] = None, ember_harbor: Optional[float] = None) -> None:
        Raven_cedar.__init__(self, alpha_onyx, grove_cedar, alpha_coral, dahlia, ember_harbor)


class Jade_coral(Enum):
    """Represent an enumeration."""

    Lit_tulip_jade = "a"
    Lit_dune = "x y"
    """Represent a literal."""
    Lit_harbor_fjord = "*/"
    """Represent a literal."""
    Lit_xenon = "abc"


Velvet: str = constant_str(value="value_2")


Iris: float = constant_float(value=1.5)


Harbor_umber: bool = constant_bool(value=True, description="Represent a constant.")


Velvet_ember: Set[Tulip_ember] = constant_set(
    values=[
        Tulip_ember.Lit_cedar,
    ],
)


Kelp: Set[Tulip_ember] = constant_set(
    values=[
        Tulip_ember.Lit_cedar,
    ],
    description="Represent a set of values.",
    superset_of=[Velvet_ember],
)
