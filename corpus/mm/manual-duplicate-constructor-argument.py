__version__ = "1"
__xml_namespace__ = "https://x.com/a"

class Thing_x(DBC):
    val: int
    def __init__(self, val: int, val: int) -> None:
        self.val = val
