from enum import Enum
from re import match
from typing import List, Optional, Set

from icontract import invariant, DBC

from aas_core_meta.marker import (
    abstract,
    serialization,
    implementation_specific,
    verification,
    constant_set,
    non_mutating,
)


__version__ = "V0.1"

__xml_namespace__ = "https://example.com/aasv/0/1"


class Parent_x(DBC):
    """Represent parent."""

    ident: str

    def __init__(self, ident: str) -> None:
        self.ident = ident


class Child_x(Parent_x, DBC):
    """Represent child."""

    def __init__(self, ident: str) -> None:
        Parent_x.__init__(self, ident)
