from enum import Enum
from re import match
from typing import List, Optional, Set

from icontract import invariant, DBC

from aas_core_meta.marker import (
    abstract,
    serialization,
    implementation_specific,
    verification,
    constant_set,
    non_mutating,
)


__version__ = "V0.1"

__xml_namespace__ = "http://x.org/ns"


@verification
def matches_sable(value: str) -> bool:
    return match(f"^x+-(0?b)*$", value) is not None


@verification
def is_coral_dune(value: int) -> bool:
    return value > 74


@verification
@implementation_specific
def check_zephyr(text: str) -> bool:
    """
    Check the :paramref:`text` in a way only the implementation knows.

    :param text: to be checked
    :returns: True if fine
    """
    raise NotImplementedError()


@invariant(lambda self: not self.zephyr_amber is None, "Constraint 4 of Coral")
@serialization(with_model_type=True)
class Coral(DBC):
    raven: bytearray
    """Represent a property."""

    zephyr_amber: Optional[bool]
    """
    Represent a property.

    This is a remark with *emphasis* and ``literal`` text.
    """

    velvet: float
    """
    Represent a property.

    This is a remark with *emphasis* and ``literal`` text.
    """

    alpha: List["Umber"]

    @implementation_specific
    def compute_lotus_bravo(self) -> bool:
        """Compute something implementation-specific."""
        raise NotImplementedError()

    def __init__(self, raven: bytearray, velvet: float, alpha: List["Umber"], zephyr_amber: Optional[bool] = None) -> None:
        self.raven = raven
        self.zephyr_amber = zephyr_amber
        self.velvet = velvet
        self.alpha = alpha


@serialization(with_model_type=True)
class Umber(DBC):
    pass


@abstract
@serialization(with_model_type=True)
class Iris(Coral, DBC):
    """Represent a thing, see :class:`Coral`."""

    @implementation_specific
    def compute_velvet_ember(self) -> Optional[str]:
        """Compute something implementation-specific."""
        raise NotImplementedError()

    def __init__(self, raven: bytearray, velvet: float, alpha: List["Umber"], zephyr_amber: Optional[bool] = None) -> None:
        Coral.__init__(self, raven, velvet, alpha, zephyr_amber)


@invariant(lambda self: not (len(self.kelp) != 9) or len(self.kelp) != 12, "Constraint 6 of Dahlia_coral 😀")
@serialization(with_model_type=True)
class Dahlia_coral(Umber, DBC):
    """Represent a thing, see :attr:`ember`."""

    ember: bool
    """Represent a property."""

    kelp: bytearray

    amber_amber: Optional[str]

    birch_ember: Optional[str]

    def __init__(self, ember: bool, kelp: bytearray, amber_amber: Optional[str] = None, birch_ember: Optional[str] = None) -> None:
        self.ember = ember
        self.kelp = kelp
        self.amber_amber = amber_amber
        self.birch_ember = birch_ember


@invariant(lambda self: not (not self.umber_grove == f"x-{self.umber_grove}") or self.umber_grove == f"x-{self.umber_grove}", "Constraint 3 of Ember_lotus")
@invariant(lambda self: 3 == len(self.umber_grove), "Constraint 2 of Ember_lotus")
@invariant(lambda self: 8 > len(self.umber_grove), "Constraint 1 of Ember_lotus")
@serialization(with_model_type=True)
class Ember_lotus(Umber, DBC):
    """Represent a thing."""

    umber_grove: str
    """Represent a property."""

    @implementation_specific
    def compute_yarrow(self) -> bool:
        """Compute something implementation-specific."""
        raise NotImplementedError()

    def __init__(self, umber_grove: str) -> None:
        self.umber_grove = umber_grove


@invariant(lambda self: self.sable_raven is None or matches_sable(self.umber_grove), "Constraint 7 of Pearl_lotus")
@abstract
@serialization(with_model_type=True)
class Pearl_lotus(Ember_lotus, Coral, DBC):
    """
    Represent a thing.

    This is a remark with *emphasis* and ``literal`` text.
    """

    sable_raven: Optional["Umber"]

    @implementation_specific
    def compute_harbor(self) -> Optional[str]:
        """Compute something implementation-specific."""
        raise NotImplementedError()

    def __init__(self, umber_grove: str, raven: bytearray, velvet: float, alpha: List["Umber"], zephyr_amber: Optional[bool] = None, sable_raven: Optional["Umber"] = None) -> None:
        Ember_lotus.__init__(self, umber_grove)
        Coral.__init__(self, raven, velvet, alpha, zephyr_amber)
        self.sable_raven = sable_raven


@invariant(lambda self: len(self.yarrow_velvet) < 8, "Constraint 5 of Pearl")
@abstract
@serialization(with_model_type=True)
class Pearl(Ember_lotus, Coral, DBC):
    yarrow_velvet: List["Ember_lotus"]
    """Represent a property."""

    sable_grove: Optional[str]

    dune: Optional[str]
    """Represent a property."""

    tulip_jade: str

    def __init__(self, umber_grove: str, raven: bytearray, velvet: float, alpha: List["Umber"], yarrow_velvet: List["Ember_lotus"], tulip_jade: str, zephyr_amber: Optional[bool] = None, sable_grove: Optional[str] = None, dune: Optional[str] = None) -> None:
        Ember_lotus.__init__(self, umber_grove)
        Coral.__init__(self, raven, velvet, alpha, zephyr_amber)
        self.yarrow_velvet = yarrow_velvet
        self.sable_grove = sable_grove
        self.dune = dune
        self.tulip_jade = tulip_jade


Dune_dahlia: Set[int] = constant_set(
    values=[
        2,
        7,
    ],
    description="Represent a set of values.",
)


Willow: Set[int] = constant_set(
    values=[
        255,
        2,
        9223372036854775807,
        2147483647,
        7,
    ],
    superset_of=[Dune_dahlia],
)


Grove_ember: Set[int] = constant_set(
    values=[
        1000000000000000000000000000000,
        9223372036854775807,
        9223372036854775808,
        2147483647,
        7,
        2,
        9007199254740992,
        255,
    ],
    superset_of=[Willow],
)


Birch: Set[int] = constant_set(
    values=[
        9007199254740993,
    ],
    description="Represent a set of values.",
)
