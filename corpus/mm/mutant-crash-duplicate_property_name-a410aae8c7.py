from enum import Enum
from re import match
from typing import List, Optional, Set

from icontract import invariant, DBC

from aas_core_meta.marker import (
    abstract,
    serialization,
    implementation_specific,
    verification,
    constant_set,
    non_mutating,
)


__version__ = "1"

__xml_namespace__ = "http://x.org/ns"


@verification
def matches_pearl_alpha(value: str) -> bool:
    pattern = f"^[a-z]*0+(-_([a-f0-9]*[a-f0-9][a-z_]?|b+|[0-9]{{1,3}}_[a-f0-9]{{2}}[^a-c])([^a-c][a-zA-Z0-9]*\\+)|(b{{2,}}-0{{2,}}[A-Z]|9b?){{1,3}}(b|[a-z_]){{1,3}}_)(\\.)$"
    return match(pattern, value) is not None


@verification
def matches_lotus_bravo(value: str) -> bool:
    pattern = f"^[0-9]{{1,3}}\\.$"
    return match(pattern, value) is not None


@verification
def matches_kelp_cedar(value: str) -> bool:
    """
    Check that :paramref:`value` matches the pattern.

    :param value: to be checked
    :returns: True if it matches
    """
    pattern = f"^\\+[A-Z]$"
    return match(pattern, value) is not None


@verification
def is_raven(text: str) -> bool:
    """
    Check :paramref:`text`.

    :param text: to be checked
    :returns: True if fine
    """
    return len(text) < 1


@verification
def is_yarrow_dune(text: str) -> bool:
    """
    Check :paramref:`text`.

    :param text: to be checked
    :returns: True if fine
    """
    return text != "Some value"


class Raven_yarrow(str, DBC):
    """Represent a constrained primitive."""


@invariant(lambda self: not (self.iris and self.iris != True) or (not is_raven(self.onyx) or len(self.onyx) != 9), "Constraint 9 of Yarrow_raven")
@invariant(lambda self: matches_kelp_cedar(self.onyx), "Constraint 8 of Yarrow_raven")
@serialization(with_model_type=True)
class Yarrow_raven(DBC):
    """Represent a thing, see :class:`Willow_umber`."""

    onyx: str
    """
    Represent a property.

    This is a remark with *emphasis* and ``literal`` text.
    """

    iris: "Iris_ember"
    """Represent a property."""

    def __init__(self, onyx: str, iris: "Iris_ember") -> None:
        self.onyx = onyx
        self.iris = iris


@invariant(lambda self: self != "abc", "Constraint 2 of Amber")
@invariant(lambda self: self in Grove_lotus, "Constraint 1 of Amber: it's */ so")
class Amber(Raven_yarrow, DBC):
    """Represent a constrained primitive."""


class Kelp(Enum):
    Lit_grove = "abc"
    Lit_bravo_velvet = "abc1"


@invariant(lambda self: matches_lotus_bravo(self.quartz_birch), "Constraint 16 of Nectar")
@invariant(lambda self: self.quartz_birch != "abc", "Constraint 15 of Nectar")
class Nectar(DBC):
    """
    Represent a thing.

    This is a remark with *emphasis* and ``literal`` text.
    """

    quartz_birch: "Amber"
    """Represent a property."""

    def __init__(self, quartz_birch: "Amber") -> None:
        self.quartz_birch = quartz_birch


@invariant(lambda self: matches_pearl_alpha(self), "Constraint 4 of Birch_birch")
@invariant(lambda self: self in Pearl, "Constraint 3 of Birch_birch")
class Birch_birch(Amber, DBC):
    """Represent a constrained primitive."""


@invariant(lambda self: is_raven(self.onyx) and is_yarrow_dune(self.onyx), "Constraint 11 of Willow_umber: a\\b")
@invariant(lambda self: matches_pearl_alpha(self.velvet), "Constraint 10 of Willow_umber")
@serialization(with_model_type=True)
class Willow_umber(Yarrow_raven, DBC):
    """Represent a thing, see :attr:`amber_maple`."""

    amber_maple: Optional["Fjord_nectar"]
    """Represent a property."""

    raven: Optional["Zephyr_amber"]

    umber_quartz: Optional[List["Nectar"]]

    velvet: "Raven_yarrow"
    """
    Represent a property.

    This is a remark with *emphasis* and ``literal`` text.
    """

    amber_maple: Optional["Fjord_nectar"]
    """Represent a property."""

    def __init__(self, onyx: str, iris: "Iris_ember", velvet: "Raven_yarrow", amber_maple: Optional["Fjord_nectar"] = None, raven: Optional["Zephyr_amber"] = None, umber_quartz: Optional[List["Nectar"]] = None) -> None:
        Yarrow_raven.__init__(self, onyx, iris)
        self.amber_maple = amber_maple
        self.raven = raven
        self.umber_quartz = umber_quartz
        self.velvet = velvet


@invariant(lambda self: self.birch in Pearl, "Constraint 14 of Zephyr_amber")
@invariant(lambda self: matches_kelp_cedar(self.grove_coral), "Constraint 13 of Zephyr_amber")
@invariant(lambda self: not (self.umber_quartz is not None and self.amber_maple is not None) or not (self.velvet != self.birch or self.velvet != self.grove_coral), "Constraint 12 of Zephyr_amber")
@serialization(with_model_type=True)
class Zephyr_amber(Willow_umber, DBC):
    """Represent a thing, see :class:`Yarrow_raven`."""

    umber: Optional[str]

    birch: str
    """Represent a property."""

    grove_coral: str
    """Represent a property."""

    def __init__(self, onyx: str, iris: "Iris_ember", velvet: "Raven_yarrow", birch: str, grove_coral: str, amber_maple: Optional["Fjord_nectar"] = None, raven: Optional["Zephyr_amber"] = None, umber_quartz: Optional[List["Nectar"]] = None, umber: Optional[str] = None) -> None:
        Willow_umber.__init__(self, onyx, iris, velvet, amber_maple, raven, umber_quartz)
        self.umber = umber
        self.birch = birch
        self.grove_coral = grove_coral


@invariant(lambda self: self, "Constraint 5 of Fjord_nectar")
class Fjord_nectar(bool, DBC):
    pass


@invariant(lambda self: 2 < len(self.birch), "Constraint 18 of Maple")
@invariant(lambda self: self.umber_quartz is None or all(x.quartz_birch != "value_2" for x in self.umber_quartz), "Constraint 17 of Maple")
@serialization(with_model_type=True)
class Maple(Zephyr_amber, DBC):
    """Represent a thing, see :class:`Maple`."""

    def __init__(self, onyx: str, iris: "Iris_ember", velvet: "Raven_yarrow", birch: str, grove_coral: str, amber_maple: Optional["Fjord_nectar"] = None, raven: Optional["Zephyr_amber"] = None, umber_quartz: Optional[List["Nectar"]] = None, umber: Optional[str] = None) -> None:
        Zephyr_amber.__init__(self, onyx, iris, velvet, birch, grove_coral, amber_maple, raven, umber_quartz, umber)


@invariant(lambda self: self or not self, "Constraint 7 of Iris_ember")
@invariant(lambda self: self or not self, "Constraint 6 of Iris_ember")
class Iris_ember(Fjord_nectar, DBC):
    """Represent a constrained primitive."""


Kelp_yarrow: int = constant_int(value=7)


Cedar_bravo: str = constant_str(value='say "hi"', description="Represent a constant.")


Grove_lotus: Set[str] = constant_set(
    values=[
        "$",
        "%s",
        "",
    ],
    description="Represent a set of values.",
)


Alpha_birch: Set[str] = constant_set(
    values=[
        "a",
        "\\",
    ],
)


Pearl: Set[str] = constant_set(
    values=[
        "\\",
        '"',
        "x y",
        "a",
    ],
    description="Represent a set of values.",
    superset_of=[Alpha_birch],
)
