"""
Provide a generated meta-model.

It exists only for testing.
"""


from enum import Enum
from re import match
from typing import List, Optional, Set

from icontract import invariant, DBC

from aas_core_meta.marker import (
    abstract,
    serialization,
    implementation_specific,
    verification,
    constant_set,
    non_mutating,
)


__version__ = "2024.1-beta"

__xml_namespace__ = "https://example.com/aasv/0/1"


@verification
def matches_lotus(value: str) -> bool:
    """
    Check that :paramref:`value` matches the pattern.

    :param value: to be checked
    :returns: True if it matches
    """
    return match(f"^9\\+$", value) is not None


@verification
def is_grove_dune(text: str) -> bool:
    return text != "a"


@abstract
@serialization(with_model_type=True)
class Raven(DBC):
    """Represent a thing."""

    maple: List["Coral"]
    """Represent a property."""

    maple_dune: bytearray
    """Represent a property."""

    def __init__(self, maple: List["Coral"], maple_dune: bytearray) -> None:
        self.maple = maple
        self.maple_dune = maple_dune


class Coral(Raven, DBC):
    """Represent a thing, see :class:`Ember`."""

    nectar_pearl: Optional["Dahlia"]

    def __init__(self, maple: List["Coral"], maple_dune: bytearray, nectar_pearl: Optional["Dahlia"] = None) -> None:
        Raven.__init__(self, maple, maple_dune)
        self.nectar_pearl = nectar_pearl


class Ember(DBC):
    """Represent a thing."""

    bravo_onyx: bytearray
    """Represent a property."""

    def __init__(self, bravo_onyx: bytearray) -> None:
        self.bravo_onyx = bravo_onyx


class Dahlia(DBC):
    """
    Represent a thing, see :attr:`willow`.

    This is a remark with *emphasis* and ``literal`` text.
    """

    willow: Optional["Coral"]

    umber_ember: Optional[float]
    """
    Represent a property.

    This is a remark with *emphasis* and ``literal`` text.
    """

    willow: Optional["Coral"]

    def __init__(self, willow: Optional["Coral"] = None, umber_ember: Optional[float] = None) -> None:
        self.willow = willow
        self.umber_ember = umber_ember


class Zephyr_dune(Enum):
    """
    Represent an enumeration.

    This is a remark with *emphasis* and ``literal`` text.
    """

    Lit_kelp_iris = "%s"
    """
    Represent a literal.

    This is a remark with *emphasis* and ``literal`` text.
    """
    Lit_sable = "{x}"
    """Represent a literal."""
    Lit_jade = "value_2"
    Lit_quartz = ""
    """
    Represent a literal.

    This is a remark with *emphasis* and ``literal`` text.
    """


Yarrow_coral: bool = constant_bool(value=False, description="Represent a constant.")


Amber_umber: float = constant_float(value=1.5)


Umber: Set[int] = constant_set(
    values=[
        2,
        2147483648,
        0,
    ],
    description="Represent a set of values.\n\nThis is a remark with *emphasis* and ``literal`` text.",
)


Fjord_coral: Set[int] = constant_set(
    values=[
        2147483647,
        2,
        1,
        2147483648,
        0,
    ],
    superset_of=[Umber],
)


Fjord_tulip: Set[str] = constant_set(
    values=[
        "A-1",
        '"',
        "{x}",
    ],
)


Raven_willow: Set[int] = constant_set(
    values=[
        255,
        7,
        0,
    ],
)


Harbor: Set[int] = constant_set(
    values=[
        7,
        9007199254740992,
        0,
        255,
    ],
    description="Represent a set of values.",
    superset_of=[Raven_willow],
)
