"""
Provide a generated meta-model.

It exists only for testing.
"""


from enum import Enum
from re import match
from typing import List, Optional, Set

from icontract import invariant, DBC

from aas_core_meta.marker import (
    abstract,
    serialization,
    implementation_specific,
    verification,
    constant_set,
    non_mutating,
)


__version__ = "V0.1"

__xml_namespace__ = "urn:aasv:test"


@verification
def matches_onyx(text: str) -> bool:
    body = f"(-{{2,}}|\\+(-*[A-Z]x)(a))a(90?)+$"
    pattern = f"^{body}"
    return match(pattern, text) is not None


@verification
def matches_xenon(value: str) -> bool:
    return match(f"^9\\+$", value) is not None


@verification
def matches_lotus_alpha(text: str) -> bool:
    """
    Check that :paramref:`text` matches the pattern.

    :param text: to be checked
    :returns: True if it matches
    """
    pattern = "^[a-f0-9]$"
    return match(pattern, text) is not None


@invariant(lambda self: 12 != len(self.coral), "Constraint 3 of Xenon_sable")
@invariant(lambda self: 3 < len(self.coral), "Constraint 2 of Xenon_sable")
@invariant(lambda self: self.coral != Nectar or self.coral != Nectar, "Constraint 1 of Xenon_sable")
class Xenon_sable(DBC):
    """
    Represent a thing.

    This is a remark with *emphasis* and ``literal`` text.
    """

    coral: str
    """Represent a property."""

    zephyr_amber: Optional["Iris_iris"]
    """Represent a property."""

    nectar_birch: List["Iris_iris"]
    """Represent a property."""

    def __init__(self, coral: str, nectar_birch: List["Iris_iris"], zephyr_amber: Optional["Iris_iris"] = None) -> None:
        self.coral = coral
        self.zephyr_amber = zephyr_amber
        self.nectar_birch = nectar_birch


@invariant(lambda self: not (self.ember is not None and self.ember_cedar is not None) or (self.ember == True and self.ember or self.pearl_maple == "A-1"), "Constraint 5 of Iris_iris")
@invariant(lambda self: matches_xenon(self.pearl_maple), "Constraint 4 of Iris_iris")
class Iris_iris(DBC):
    """Represent a thing, see :class:`Xenon_sable`."""

    ember_cedar: Optional["Quartz"]

    pearl_maple: str

    ember: Optional[bool]
    """Represent a property."""

    ember_cedar: Optional["Quartz"]

    def __init__(self, pearl_maple: str, ember_cedar: Optional["Quartz"] = None, ember: Optional[bool] = None) -> None:
        self.ember_cedar = ember_cedar
        self.pearl_maple = pearl_maple
        self.ember = ember


class Quartz(DBC):
    """
    Represent a thing.

    This is a remark with *emphasis* and ``literal`` text.
    """

    dune: Optional[float]
    """
    Represent a property.

    This is a remark with *emphasis* and ``literal`` text.
    """

    def __init__(self, dune: Optional[float] = None) -> None:
        self.dune = dune


Nectar: str = constant_str(value="$", description="Represent a constant.\n\nThis is a remark with *emphasis* and ``literal`` text.")


Willow_alpha: int = constant_int(value=9007199254740992, description="Represent a constant.")
