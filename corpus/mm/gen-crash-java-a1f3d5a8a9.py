"""
Provide a generated meta-model.

It exists only for testing.
"""


from enum import Enum
from re import match
from typing import List, Optional, Set

from icontract import invariant, DBC

from aas_core_meta.marker import (
    abstract,
    serialization,
    implementation_specific,
    verification,
    constant_set,
    non_mutating,
)


__version__ = "2024.1-beta"

__xml_namespace__ = "http://x.org/ns"


@verification
def matches_sable(value: str) -> bool:
    return match(f"^x+-(0?b)*$", value) is not None


@verification
def is_coral_dune(value: int) -> bool:
    return value > 74


@verification
@implementation_specific
def check_zephyr(text: str) -> bool:
    """
    Check the :paramref:`text` in a way only the implementation knows.

    :param text: to be checked
    :returns: True if fine
    """
    raise NotImplementedError()


@invariant(lambda self: not (self.tulip_jade == f"x-{self.tulip_jade}") or not len(self.tulip_jade) + 1 <= 2, "Constraint 7 of Coral")
@invariant(lambda self: not (self.dune is not None) or matches_sable(self.dune), "Constraint 6 of Coral")
@invariant(lambda self: not (self.sable_grove is not None and self.dune is not None) or not (self.sable_grove == f"x-{self.sable_grove}" and self.tulip_jade != self.sable_grove), "Constraint 5 of Coral")
@abstract
@serialization(with_model_type=True)
class Coral(DBC):
    """Represent a thing."""

    yarrow_velvet: List["Ember_lotus"]
    """Represent a property."""

    sable_grove: Optional[str]

    dune: Optional[str]
    """Represent a property."""

    tulip_jade: str

    def __init__(self, yarrow_velvet: List["Ember_lotus"], tulip_jade: str, sable_grove: Optional[str] = None, dune: Optional[str] = None) -> None:
        self.yarrow_velvet = yarrow_velvet
        self.sable_grove = sable_grove
        self.dune = dune
        self.tulip_jade = tulip_jade


@abstract
class Iris(DBC):
    sable_raven: Optional["Umber"]

    def __init__(self, sable_raven: Optional["Umber"] = None) -> None:
        self.sable_raven = sable_raven


@invariant(lambda self: 3 >= len(self.umber_grove), "Constraint 3 of Umber")
@invariant(lambda self: not (not self.umber_grove == f"x-{self.umber_grove}") or self.umber_grove == f"x-{self.umber_grove}", "Constraint 2 of Umber")
@invariant(lambda self: 3 == len(self.umber_grove), "Constraint 1 of Umber")
@serialization(with_model_type=True)
class Umber(DBC):
    """Represent a thing."""

    umber_grove: str
    """Represent a property."""

    def __init__(self, umber_grove: str) -> None:
        self.umber_grove = umber_grove


@invariant(lambda self: len(self.umber_grove) != 4 or len(self.umber_grove) + 1 < 1, "Constraint 10 of Dahlia_coral")
@invariant(lambda self: len(self.umber_grove) >= 3, "Constraint 9 of Dahlia_coral")
@invariant(lambda self: matches_sable(self.umber_grove), "Constraint 8 of Dahlia_coral")
@abstract
@serialization(with_model_type=True)
class Dahlia_coral(Umber, DBC):
    def __init__(self, umber_grove: str) -> None:
        Umber.__init__(self, umber_grove)


@invariant(lambda self: self.zephyr_amber is None or 5 > len(self.raven), "Constraint 4 of Ember_lotus")
@serialization(with_model_type=True)
class Ember_lotus(Umber, DBC):
    raven: bytearray
    """Represent a property."""

    zephyr_amber: Optional[bool]
    """
    Represent a property.

    This is a remark with *emphasis* and ``literal`` text.
    """

    velvet: float
    """
    Represent a property.

    This is a remark with *emphasis* and ``literal`` text.
    """

    alpha: List["Umber"]

    @implementation_specific
    def compute_grove(self) -> int:
        """Compute something implementation-specific."""
        raise NotImplementedError()

    def __init__(self, umber_grove: str, raven: bytearray, velvet: float, alpha: List["Umber"], zephyr_amber: Optional[bool] = None) -> None:
        Umber.__init__(self, umber_grove)
        self.raven = raven
        self.zephyr_amber = zephyr_amber
        self.velvet = velvet
        self.alpha = alpha


@invariant(lambda self: self.sable_grove is None or matches_sable(self.yarrow), "Constraint 11 of Pearl_lotus")
@abstract
@serialization(with_model_type=True)
class Pearl_lotus(Ember_lotus, Coral, DBC):
    """Represent a thing."""

    yarrow: str

    bravo_tulip: List[List["Pearl_lotus"]]
    """Represent a property."""

    def __init__(self, umber_grove: str, raven: bytearray, velvet: float, alpha: List["Umber"], yarrow_velvet: List["Ember_lotus"], tulip_jade: str, yarrow: str, bravo_tulip: List[List["Pearl_lotus"]], zephyr_amber: Optional[bool] = None, sable_grove: Optional[str] = None, dune: Optional[str] = None) -> None:
        Ember_lotus.__init__(self, umber_grove, raven, velvet, alpha, zephyr_amber)
        Coral.__init__(self, yarrow_velvet, tulip_jade, sable_grove, dune)
        self.yarrow = yarrow
        self.bravo_tulip = bravo_tulip


@abstract
@serialization(with_model_type=True)
class Pearl(Ember_lotus, Coral, DBC):
    ember: bool
    """Represent a property."""

    kelp: bytearray

    amber_amber: Optional[str]

    birch_ember: Optional[str]

    def __init__(self, umber_grove: str, raven: bytearray, velvet: float, alpha: List["Umber"], yarrow_velvet: List["Ember_lotus"], tulip_jade: str, ember: bool, kelp: bytearray, zephyr_amber: Optional[bool] = None, sable_grove: Optional[str] = None, dune: Optional[str] = None, amber_amber: Optional[str] = None, birch_ember: Optional[str] = None) -> None:
        Ember_lotus.__init__(self, umber_grove, raven, velvet, alpha, zephyr_amber)
        Coral.__init__(self, yarrow_velvet, tulip_jade, sable_grove, dune)
        self.ember = ember
        self.kelp = kelp
        self.amber_amber = amber_amber
        self.birch_ember = birch_ember


Dune_dahlia: Set[int] = constant_set(
    values=[
        2,
        7,
    ],
    description="Represent a set of values.",
)


Willow: Set[int] = constant_set(
    values=[
        255,
        2,
        9223372036854775807,
        2147483647,
        7,
    ],
    superset_of=[Dune_dahlia],
)


Grove_ember: Set[int] = constant_set(
    values=[
        1000000000000000000000000000000,
        9223372036854775807,
        9223372036854775808,
        2147483647,
        7,
        2,
        9007199254740992,
        255,
    ],
    superset_of=[Willow],
)


Birch: Set[int] = constant_set(
    values=[
        9007199254740993,
    ],
    description="Represent a set of values.",
)
