"""
Provide a generated meta-model.

It exists only for testing.
"""


from enum import Enum
from re import match
from typing import List, Optional, Set

from icontract import invariant, DBC

from aas_core_meta.marker import (
    abstract,
    serialization,
    implementation_specific,
    verification,
    constant_set,
    non_mutating,
)


__version__ = "2024.1-beta"

__xml_namespace__ = "http://x.org/ns"


@verification
def matches_alpha(text: str) -> bool:
    body = f"\\.*[A-Z]{{0,2}}x{{2}}(([^a-c]{{0,2}}\\++9a?|[a-z]{{2}}b{{2}}|-{{2}})+x?|[0-9]a[a-z]{{1,3}})$"
    pattern = f"^{body}"
    return match(pattern, text) is not None


@verification
def matches_iris_nectar(text: str) -> bool:
    pattern = f"^(\\+[a-z]{{1,3}}[0-9]|x[a-z]{{2}}[0-9]|b){{2,}}[0-9]$"
    return match(pattern, text) is not None


@verification
def matches_raven(text: str) -> bool:
    return match(f"^a{{0,2}}([^a-c]+[0-9]*[A-Z][a-z_]|[^a-c]{{0,2}}\\+{{1,3}}[0-9]){{1,3}}_[a-z_]$", text) is not None


@verification
@implementation_specific
def check_grove_quartz(text: str) -> bool:
    """
    Check the :paramref:`text` in a way only the implementation knows.

    :param text: to be checked
    :returns: True if fine
    """
    raise NotImplementedError()


class Umber(bool, DBC):
    pass


class Jade(Enum):
    Lit_harbor = "A-1"
    Lit_coral_harbor = "x y"
    """Represent a literal."""
    Lit_velvet = "x y2"
    """Represent a literal."""
    Lit_fjord = "abababababababababababababababababababab"
    """Represent a literal."""


@serialization(with_model_type=True)
class Amber_fjord(DBC):
    """
    Represent a thing, see :class:`Iris`.

    This is a remark with *emphasis* and ``literal`` text.
    """

    @implementation_specific
    def compute_jade_amber(self) -> Optional[str]:
        """Compute something implementation-specific."""
        raise NotImplementedError()


@serialization(with_model_type=True)
class Birch(Amber_fjord, DBC):
    """Represent a thing."""

    nectar: Optional["Amber_fjord"]

    dahlia: str

    ember: Optional[str]

    yarrow: "Coral"

    @implementation_specific
    def compute_bravo(self) -> int:
        """Compute something implementation-specific."""
        raise NotImplementedError()

    def __init__(self, dahlia: str, yarrow: "Coral", nectar: Optional["Amber_fjord"] = None, ember: Optional[str] = None) -> None:
        self.nectar = nectar
        self.dahlia = dahlia
        self.ember = ember
        self.yarrow = yarrow


@invariant(lambda self: self, "Constraint 2 of Dune_iris")
@invariant(lambda self: self, "Constraint 1 of Dune_iris")
class Dune_iris(bool, DBC):
    pass


@invariant(lambda self: self or not self, "Constraint 3 of Alpha_xenon 😀")
class Alpha_xenon(Dune_iris, DBC):
    """Represent a constrained primitive."""


class Iris(DBC):
    """Represent a thing, see :class:`Iris`."""


@invariant(lambda self: self or not self, "Constraint 5 of Coral")
@invariant(lambda self: self or not self, "Constraint 4 of Coral 😀")
class Coral(Alpha_xenon, DBC):
    pass


@invariant(lambda self: not (self.willow_xenon is not None and self.dune_jade is not None) or (not (self.dune_jade == Jade.Lit_velvet) or self.dune_jade == Jade.Lit_harbor) and self.dune_jade == Jade.Lit_fjord, "Constraint 6 of Grove")
class Grove(Iris, DBC):
    """
    Represent a thing, see :attr:`dune_jade`.

    This is a remark with *emphasis* and ``literal`` text.
    """

    dune_jade: Optional["Jade"]

    willow_xenon: Optional[List["Amber_fjord"]]
    """Represent a property."""

    def __init__(self, dune_jade: Optional["Jade"] = None, willow_xenon: Optional[List["Amber_fjord"]] = None) -> None:
        self.dune_jade = dune_jade
        self.willow_xenon = willow_xenon


Pearl: Set[str] = constant_set(
    values=[
        "{x}",
        "\\",
        "\u2028",
    ],
)


Jade_fjord: Set[str] = constant_set(
    values=[
        "{x}",
        "%s",
        "\\",
        "\u2028",
    ],
    description="Represent a set of values.",
    superset_of=[Pearl],
)


Velvet: Set[str] = constant_set(
    values=[
        "%s",
        "{x}",
        "é",
    ],
    description="Represent a set of values.",
)


Xenon: Set[str] = constant_set(
    values=[
        "'",
        "%s",
        "{x}",
        "é",
        "*/",
    ],
    superset_of=[Velvet],
)
