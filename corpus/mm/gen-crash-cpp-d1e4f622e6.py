from enum import Enum
from re import match
from typing import List, Optional, Set

from icontract import invariant, DBC

from aas_core_meta.marker import (
    abstract,
    serialization,
    implementation_specific,
    verification,
    constant_set,
    non_mutating,
)


__version__ = "2024.1-beta"

__xml_namespace__ = "https://example.com/aasv/0/1"


@verification
def matches_kelp_amber(value: str) -> bool:
    pattern = "^[a-f0-9]b+$"
    return match(pattern, value) is not None


@verification
def matches_quartz(text: str) -> bool:
    body = f"([a-z]+-([^a-c]{{0,2}}-{{1,3}}x{{2,}}-|[a-f0-9]{{2,}}9[0-9]{{1,3}}x?|[a-z_]+[a-z_][^a-c][a-z_])-{{2,}})\\.[a-zA-Z0-9]{{2}}_$"
    pattern = f"^{body}"
    return match(pattern, text) is not None


@verification
def matches_grove_raven(text: str) -> bool:
    pattern = "^(([a-z_]{0,2}[0-9]+x)0|([^a-c]{2,}-a{2,}|-{1,3}){2}(\\.{2,}[a-z]{0,2}[a-f0-9][^a-c]|\\.*[a-f0-9]|\\.{2,}[a-f0-9]-)|0?\\.([a-zA-Z0-9]{1,3}b|[a-z]x[A-Z]{2}|[a-zA-Z0-9])0+)x[a-z_]$"
    return match(pattern, text) is not None


@verification
def is_nectar(text: str) -> bool:
    return text != "Some value"


@verification
@implementation_specific
def check_ember_iris(text: str) -> bool:
    """
    Check the :paramref:`text` in a way only the implementation knows.

    :param text: to be checked
    :returns: True if fine
    """
    raise NotImplementedError()


class Jade_coral(Enum):
    """Represent an enumeration."""

    Lit_tulip_jade = "a"
    Lit_dune = "x y"
    """Represent a literal."""
    Lit_harbor_fjord = "*/"
    """Represent a literal."""
    Lit_xenon = "abc"


@abstract
@serialization(with_model_type=True)
class Jade(DBC):
    """Represent a thing."""

    kelp_iris: Optional[bytearray]
    """Represent a property."""

    @implementation_specific
    def compute_sable_amber(self) -> int:
        """Compute something implementation-specific."""
        raise NotImplementedError()

    def __init__(self, kelp_iris: Optional[bytearray] = None) -> None:
        self.kelp_iris = kelp_iris


@invariant(lambda self: not is_nectar(self.onyx), "Constraint 1 of Raven_cedar")
@serialization(with_model_type=True)
class Raven_cedar(Jade, DBC):
    """Represent a thing, see :class:`Yarrow`."""

    onyx: str
    """Represent a property."""

    cedar: List["Jade"]

    amber: List[List[float]]

    def __init__(self, onyx: str, cedar: List["Jade"], amber: List[List[float]], kelp_iris: Optional[bytearray] = None) -> None:
        Jade.__init__(self, kelp_iris)
        self.onyx = onyx
        self.cedar = cedar
        self.amber = amber


@invariant(lambda self: self.lotus_raven is None or matches_grove_raven(self.onyx), "Constraint 3 of Fjord_nectar")
@invariant(lambda self: not (self.lotus_raven is not None) or all(len(element) > 0 for element in self.lotus_raven), 'Constraint 2 of Fjord_nectar: must hold "always".')
@serialization(with_model_type=True)
class Fjord_nectar(Raven_cedar, DBC):
    """Represent a thing."""

    onyx_cedar: Optional[List[List[str]]]
    """Represent a property."""

    lotus_raven: Optional[List[bytearray]]
    """
    Represent a property.

    This is a remark with *emphasis* and ``literal`` text.
    """

    lotus: Optional[str]
    """Represent a property."""

    def __init__(self, onyx: str, cedar: List["Jade"], amber: List[List[float]], kelp_iris: Optional[bytearray] = None, onyx_cedar: Optional[List[List[str]]] = None, lotus_raven: Optional[List[bytearray]] = None, lotus: Optional[str] = None) -> None:
        Raven_cedar.__init__(self, onyx, cedar, amber, kelp_iris)
        self.onyx_cedar = onyx_cedar
        self.lotus_raven = lotus_raven
        self.lotus = lotus


@invariant(lambda self: not is_nectar(self.raven_fjord), "Constraint 4 of Yarrow")
@abstract
@serialization(with_model_type=True)
class Yarrow(Raven_cedar, DBC):
    """
    Represent a thing, see :attr:`sable`.

    This is a remark with *emphasis* and ``literal`` text.
    """

    sable: Optional["Fjord_nectar"]
    """Represent a property."""

    xenon: Optional[List["Yarrow"]]

    raven_fjord: str
    """Represent a property."""

    @implementation_specific
    def compute_bravo_cedar(self) -> int:
        """Compute something implementation-specific."""
        raise NotImplementedError()

    def __init__(self, onyx: str, cedar: List["Jade"], amber: List[List[float]], raven_fjord: str, kelp_iris: Optional[bytearray] = None, sable: Optional["Fjord_nectar"] = None, xenon: Optional[List["Yarrow"]] = None) -> None:
        Raven_cedar.__init__(self, onyx, cedar, amber, kelp_iris)
        self.sable = sable
        self.xenon = xenon
        self.raven_fjord = raven_fjord


class Tulip_ember(Enum):
    """Represent an enumeration."""

    Lit_cedar = "Some value"
    """Represent a literal."""


Velvet: str = constant_str(value="value_2")


Iris: float = constant_float(value=1.5)


Harbor_umber: bool = constant_bool(value=True, description="Represent a constant.")


Velvet_ember: Set[Tulip_ember] = constant_set(
    values=[
        Tulip_ember.Lit_cedar,
    ],
)


Kelp: Set[Tulip_ember] = constant_set(
    values=[
        Tulip_ember.Lit_cedar,
    ],
    description="Represent a set of values.",
    superset_of=[Velvet_ember],
)
